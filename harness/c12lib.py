"""C12 — prepared statements bind placeholders in textual order.
A skeleton is an SQL template with numbered expression slots; a symbolic bitmask chooses which slots are `?`.
Leaf (concrete): prepare_steps reports n = number of `?`; execute_steps(v1..vn) plans exactly like the text with
v_i written in place of the i-th `?` (left to right in the text); wrong counts raise PlanningException."""
try:
    from crosshair.tracers import NoTracing
except ImportError:
    import contextlib
    NoTracing = contextlib.nullcontext

# slots are written {0} {1} ...; the literal used when a slot is not a placeholder is LIT[i]
SKELETONS = {
    'select_where': ("SELECT {0}, a FROM int1.t WHERE b = {1} AND c > {2}", 3),
    'select_in_between': ("SELECT a FROM int1.t WHERE a IN ({0}, {1}) AND b BETWEEN {2} AND {3}", 4),
    'case_operand': ("SELECT CASE {0} WHEN {1} THEN {2} ELSE {3} END FROM int1.t WHERE x = {4}", 5),
    'function_from_arg': ("SELECT substring({0} FROM {1}) FROM int1.t WHERE x = {2}", 3),
    'join_on': ("SELECT t1.a FROM int1.t1 JOIN int2.t2 ON t1.a = t2.a AND t2.b = {0} WHERE t1.c = {1}", 2),
    'join_subqueries': ("SELECT * FROM (SELECT a FROM int1.t1 WHERE x = {0}) AS s1 JOIN (SELECT a FROM int2.t2 WHERE y = {1}) AS s2 ON s1.a = s2.a WHERE s1.a > {2}", 3),
    'from_subquery': ("SELECT {0} FROM (SELECT a FROM int1.t WHERE x = {1}) AS s WHERE a = {2}", 3),
    'cte': ("WITH c AS (SELECT a FROM int1.t WHERE x = {0}) SELECT {1} FROM c WHERE a = {2}", 3),
    'group_having_order': ("SELECT a, count(b) FROM int1.t WHERE c = {0} GROUP BY a HAVING count(b) > {1} ORDER BY a", 2),
    'union': ("SELECT a FROM int1.t WHERE x = {0} UNION SELECT a FROM int2.t WHERE y = {1}", 2),
    'insert_values': ("INSERT INTO int1.t (a, b, c) VALUES ({0}, {1}, {2})", 3),
    'insert_select': ("INSERT INTO int1.t (a) SELECT a FROM int2.t2 WHERE x = {0} AND y = {1}", 2),
    'update_set_where': ("UPDATE int1.t SET a = {0}, b = {1} WHERE c = {2} AND d = {3}", 4),
    'delete_where': ("DELETE FROM int1.t WHERE a = {0} AND b IN ({1}, {2})", 3),
    'model_join': ("SELECT t.a, m.p FROM int1.t AS t JOIN mindsdb.pred AS m WHERE t.x = {0} AND t.y > {1}", 2),
    'insert_rows': ("INSERT INTO int1.t (a, b) VALUES ({0}, {1}), ({2}, {3} + 10), ({4}, 'fixed'), ({5}, 7)", 6),
    'function_args': ("SELECT coalesce({0}, a, {1}) AS k, upper({2}) AS u FROM int1.t WHERE abs(x - {3}) > {4}", 5),
    'target_alias_expr': ("SELECT {0} AS k, {1} + {2} AS s, ({3} + 1) * 2 AS n FROM int1.t ORDER BY a", 4),
    'nested_subqueries': ("SELECT a FROM int1.t WHERE x IN (SELECT b FROM int1.t2 WHERE y = {0} AND z IN (SELECT c FROM int1.t3 WHERE w = {1})) AND v = {2}", 3),
    'not_like_null': ("SELECT a FROM int1.t WHERE NOT (a = {0}) AND b LIKE {1} AND c IS NOT NULL AND d != {2} OR e = {3}", 4),
    'join3_on_where': ("SELECT * FROM int1.t1 JOIN int2.t2 ON t1.a = t2.a AND t2.b = {0} LEFT JOIN int1.t3 ON t3.a = t1.a AND t3.c = {1} WHERE t1.c = {2} AND t3.d = {3}", 4),
    'union_three': ("SELECT a FROM int1.t WHERE x = {0} UNION ALL SELECT a FROM int2.t WHERE y = {1} UNION ALL SELECT a FROM int1.t2 WHERE z = {2}", 3),
    'update_from': ("UPDATE int1.t SET a = {0} FROM (SELECT b FROM int2.t2 WHERE y = {1}) AS s WHERE t.b = s.b AND t.c = {2}", 3),
    'model_join_sub': ("SELECT m.p FROM (SELECT a FROM int1.t WHERE x = {0}) AS t JOIN mindsdb.pred AS m WHERE m.q = {1}", 2),
    'where_subquery': ("SELECT a FROM int1.t WHERE x = {0} AND b IN (SELECT b FROM int2.t2 WHERE y = {1}) AND z = {2}", 3),
    # a placeholder below every expression-holding node kind of the tree (EXISTS / NOT EXISTS hold their sub-query in two attributes; casts,
    # window functions, sort / grouping keys, unary operators, scalar sub-queries in the select list, nested predicates)
    'exists': ("SELECT a FROM int1.t WHERE x = {0} AND EXISTS (SELECT 1 FROM int1.t2 WHERE y = {1} AND z = {2}) AND w = {3}", 4),
    'not_exists': ("SELECT a FROM int1.t WHERE NOT EXISTS (SELECT b FROM int1.t2 WHERE y = {0}) AND w = {1}", 2),
    'exists_other_integration': ("SELECT a FROM int1.t WHERE EXISTS (SELECT 1 FROM int2.t2 WHERE y = {0}) AND w = {1}", 2),
    'exists_nested': ("SELECT a FROM int1.t WHERE x IN (SELECT b FROM int1.t2 WHERE EXISTS (SELECT 1 FROM int1.t3 WHERE w = {0}) AND y = {1}) AND v = {2}", 3),
    'delete_exists': ("DELETE FROM int1.t WHERE EXISTS (SELECT 1 FROM int1.t2 WHERE y = {0}) AND a = {1}", 2),
    'cast': ("SELECT CAST({0} AS int) AS k, CAST(a AS char) FROM int1.t WHERE b = CAST({1} AS int)", 2),
    'window': ("SELECT sum({0}) OVER (PARTITION BY a ORDER BY b) AS s, a FROM int1.t WHERE c = {1}", 2),
    'group_order_expr': ("SELECT a FROM int1.t WHERE c = {0} GROUP BY a + {1} ORDER BY a + {2}", 3),
    'unary_is_null': ("SELECT -(a + {0}) AS k, a FROM int1.t WHERE NOT ({1} = a) AND ({2} IS NULL OR b = {3})", 4),
    'scalar_subquery_target': ("SELECT (SELECT max(b) FROM int1.t2 WHERE y = {0}) AS m, {1} AS k FROM int1.t WHERE x = {2}", 3),
    'join_exists_model': ("SELECT t.a, m.p FROM int1.t AS t JOIN mindsdb.pred AS m WHERE t.x = {0} AND EXISTS (SELECT 1 FROM int1.t2 WHERE y = {1})", 2),
    'union_exists': ("SELECT a FROM int1.t WHERE EXISTS (SELECT 1 FROM int1.t2 WHERE y = {0}) UNION SELECT a FROM int2.t WHERE y = {1}", 2),
}
LIT = [11, 12, 13, 14, 15, 16]
VAL = [101, 102, 103, 104, 105, 106]


def make_planner(query=None):
    from mindsdb_sql.planner import query_planner
    return query_planner.QueryPlanner(
        query, integrations=['int1', 'int2'], predictor_namespace='mindsdb', default_namespace='mindsdb',
        predictor_metadata=[{'name': 'pred', 'integration_name': 'mindsdb'}])


def cb(b):
    return True if b else False


# value lists: distinct markers, and the values a careless `if value:` / `value or ..` treats as missing (zero, empty string, FALSE, 0.0)
VALSETS = [VAL, [0, '', False, 0.0, 'x y', -1]]


def sql_literal(v):
    if isinstance(v, bool):
        return 'TRUE' if v else 'FALSE'
    if isinstance(v, str):
        return "'" + v + "'"
    return str(v)


def texts(name, mask, VAL=VAL):
    tmpl, k = SKELETONS[name]
    prepared = tmpl.format(*['?' if mask[i] else str(LIT[i]) for i in range(k)])
    n = sum(1 for i in range(k) if mask[i])
    vals, j, parts = [], 0, []
    for i in range(k):
        if mask[i]:
            parts.append(sql_literal(VAL[j]))
            vals.append(VAL[j])
            j += 1
        else:
            parts.append(str(LIT[i]))
    inlined = tmpl.format(*parts)
    return prepared, inlined, vals, n


def _columns_result(step):
    """what an executor answers to GetTableColumns / GetPredictorColumns (shape as in tests/test_planner/test_prepared_statement.py)"""
    from mindsdb_sql.planner import steps as S
    cols = [{'name': c, 'type': 'int'} for c in ('a', 'b', 'c', 'd', 'x', 'y', 'z', 'p')]
    if isinstance(step, S.GetTableColumns):
        name = step.table
    elif isinstance(step, S.GetPredictorColumns):
        name = step.predictor.parts[-1]
    else:
        return None
    alias = ('int', name, name)
    return {'values': [], 'columns': {alias: cols}, 'tables': [alias]}


def plan_repr(steps):
    return [repr(s) for s in steps]


def leaf(name, mask, delta):
    """returns list of problems; delta in (-1, 0, 1): how many values too few / too many are supplied"""
    out = []
    for vi, vs in enumerate(VALSETS):
        out += ['%s%s' % (p_, '' if vi == 0 else ' [values %r]' % (vs,)) for p_ in _leaf(name, mask, delta, vs)]
    return out


def _leaf(name, mask, delta, vset):
    from mindsdb_sql import parse_sql
    from mindsdb_sql.exceptions import PlanningException
    prepared, inlined, vals, n = texts(name, mask, vset)
    problems = []
    try:
        q = parse_sql(prepared, 'mindsdb')
        q_in = parse_sql(inlined, 'mindsdb')
    except Exception as e:  # noqa
        return ['skeleton does not parse: %r' % e]
    planner = make_planner()
    try:
        for st in (planner.prepare_steps(q) or []):
            st.set_result(_columns_result(st))
        info = planner.get_statement_info()
    except (PlanningException, NotImplementedError) as e:
        return []     # statement kind not preparable with this catalog: outside the claim (counted by caller)
    except Exception as e:  # noqa
        return ['prepare raises an internal error %s: %s' % (type(e).__name__, str(e)[:100])]
    if len(info['parameters']) != n:
        problems.append('prepare reports %d parameters for %d placeholders' % (len(info['parameters']), n))
        return problems
    if delta != 0:
        bad = vals[:-1] if delta < 0 else vals + [999]
        if delta < 0 and n == 0:
            return problems
        try:
            list(planner.execute_steps(bad))
            problems.append('execute with %d values for %d placeholders did not raise' % (len(bad), n))
        except PlanningException:
            pass
        except Exception as e:  # noqa
            problems.append('execute with wrong count raised %r' % e)
        if problems:
            return problems
        # call sequence: a refused execute leaves the prepared statement as it was - the execute with the right values that follows
        # must plan like the inlined text (checked by the code below)
    try:
        got = []
        for st in planner.execute_steps(vals):
            got.append(st)
        gerr = None
    except (PlanningException, NotImplementedError) as e:
        got, gerr = None, type(e).__name__
    try:
        want = make_planner(q_in).from_query().steps
        werr = None
    except (PlanningException, NotImplementedError) as e:
        want, werr = None, type(e).__name__
    # call sequence: a second execute of the same prepared statement either plans the second value list correctly or is refused
    # with PlanningException - never an internal error, never a plan for other values
    if n > 0 and gerr is None:
        vals2 = [2000 + i_ for i_ in range(len(vals))]
        try:
            got2 = plan_repr(list(planner.execute_steps(vals2)))
            tmpl, k = SKELETONS[name]
            parts, j = [], 0
            for i in range(k):
                if mask[i]:
                    parts.append(str(vals2[j])); j += 1
                else:
                    parts.append(str(LIT[i]))
            want2 = plan_repr(make_planner(parse_sql(tmpl.format(*parts), 'mindsdb')).from_query().steps)
            if got2 != want2:
                problems.append('second execute plans %s, the inlined text of the second value list plans %s' % (got2[:2], want2[:2]))
        except PlanningException:
            pass
        except Exception as e:  # noqa
            problems.append('second execute of the prepared statement raises an internal error %s: %s' % (type(e).__name__, str(e)[:80]))
    after = ' (after an execute with the wrong number of values was refused)' if delta != 0 else ''
    if gerr != werr:
        problems.append('execute raises %s but planning the inlined text raises %s%s' % (gerr, werr, after))
    elif got is not None:
        if plan_repr(got) != plan_repr(want):
            problems.append('plan differs from the plan of the inlined text%s: %s vs %s' % (after, plan_repr(got)[:3], plan_repr(want)[:3]))
        left = [s for s in plan_repr(got) if 'Parameter' in s or ':?' in s]
        if left:
            problems.append('placeholder left unbound%s: %s' % (after, left[0][:120]))
    return problems


def step(name, bits, delta):
    k = SKELETONS[name][1]
    mask = tuple(cb(bits[i]) for i in range(k))
    d = -1 if delta < 0 else (1 if delta > 0 else 0)
    with NoTracing():
        return leaf(name, mask, d)


def unit_fill(n_params, n_values):
    """fill_query_params consumes values front to back, once each; sequence laws of execute_steps"""
    from mindsdb_sql import parse_sql
    from mindsdb_sql.planner import utils
    from mindsdb_sql.parser import ast as A
    problems = []
    q = parse_sql('SELECT %s FROM t' % ', '.join(['?'] * n_params) if n_params else 'SELECT 1 FROM t', 'mindsdb')
    found = utils.get_query_params(q)
    if len(found) != n_params:
        problems.append('get_query_params finds %d of %d' % (len(found), n_params))
    vals = list(range(100, 100 + n_values))
    if n_values >= n_params:
        q2 = utils.fill_query_params(q, vals)
        got = [t.value for t in q2.targets if isinstance(t, A.Constant)]
        if n_params and got != vals[:n_params]:
            problems.append('fill order %s, expected %s' % (got, vals[:n_params]))
        if utils.get_query_params(q2):
            problems.append('placeholder left after fill')
        if vals != list(range(100, 100 + n_values)):
            problems.append('fill_query_params consumed the caller\'s list')
    return problems
