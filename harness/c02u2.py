"""C02-U2 (ACTTREE): every grammar action applied bottom-up over small derivation trees with symbolic token values."""
import os
from engines import acttree as AT
from engines import sweep as SW
from engines import symtok as ST

N = int(os.environ.get('VERIF_STRLEN', '4'))
_cache = {}


def env(dialect):
    if dialect not in _cache:
        lex, par = SW.dialect_classes(dialect)
        rep, lexemes = ST.representatives(lex)
        _cache[dialect] = (AT.Deriv(par), par(), rep, lexemes, lex)
    return _cache[dialect]


_cache_names = {}


def env_names(dialect):
    """like env(), but shortest derivations prefer ID (then the other value tokens) over keyword terminals: name positions derive names"""
    if dialect not in _cache_names:
        lex, par = SW.dialect_classes(dialect)
        rep, lexemes = ST.representatives(lex)
        prefer = {t: 0.9 for t in AT.VALUE_TERMINALS}
        prefer['ID'] = 0.8
        _cache_names[dialect] = (AT.Deriv(par, prefer=prefer), par(), rep, lexemes, lex)
    return _cache_names[dialect]


def ok_str(s):
    for ch in s:
        if ch == "'" or ch == '"' or ch == '\\' or ch == '\n' or ch == '\r' or ch == '`':
            return False
    return True


def ok_id(s):
    return AT.ID_RE.fullmatch(s) is not None


def ci(n, hi):
    for v in range(hi + 1):
        if n == v:
            return v
    return hi


try:
    from crosshair.tracers import NoTracing
except ImportError:
    import contextlib
    NoTracing = contextlib.nullcontext


def run_tree(dialect, i, picks, ints, ids, strs, fl, var, digits='3'):
    """-> (outcome, detail): 'ok' | 'parsing-exception' | 'internal'"""
    from mindsdb_sql.exceptions import ParsingException
    with NoTracing():       # structure is concrete here: build the tree natively, trace only the actions on symbolic values
        d, parser, rep, lexemes, _ = env(dialect)
        prod = d.prods[i]
        tree = d.root_trees(prod, picks)
    pools = AT.Pools(ints, ids, strs, fl, var)
    pools.digits = digits
    try:
        AT.evaluate(parser, tree, pools, rep)
        return 'ok', None
    except ParsingException:
        return 'parsing-exception', None
    except Exception as e:  # noqa
        return 'internal', '%s: %s' % (type(e).__name__, str(e)[:120])


def unit(dialect, i, k0, k1, k2, n0, n1, i0, i1, s0, fl, var):
    with NoTracing():
        d = env(dialect)[0]
        na = d.n_alternatives(d.prods[i])
    picks = []
    for j, k in enumerate((k0, k1, k2)):
        if j < len(na):
            picks.append(ci(k, na[j] - 1))
    fl, var = ci(fl, len(AT.FLOATS) - 1), ci(var, len(AT.VARNAMES) - 1)
    out, detail = run_tree(dialect, i, picks, [n0, n1], [i0, i1], [s0], fl, var)
    return out != 'internal'


def sentence(dialect, i, picks, ints, ids, strs, fl, var):
    """the statement text that puts this derivation tree into the shortest context of its left-hand side"""
    d, parser, rep, lexemes, _ = env(dialect)
    prod = d.prods[i]
    tree = d.root_trees(prod, picks)
    pools = AT.Pools(ints, ids, strs, fl, var)
    body = AT.text_of(tree, pools, lexemes)
    if prod.name not in d.ctx:
        return None
    pre, suf = d.ctx[prod.name]
    defaults = AT.Pools()
    pre_t = ' '.join(defaults.lexeme(t) if t in AT.VALUE_TERMINALS else lexemes.get(t, t) for t in pre)
    suf_t = ' '.join(defaults.lexeme(t) if t in AT.VALUE_TERMINALS else lexemes.get(t, t) for t in suf)
    return ' '.join(x for x in (pre_t, body, suf_t) if x)


def replay(dialect, i, args, picks=None):
    """through the public API: parse_sql on the sentence; reproduced iff it raises something that is neither ParsingException nor LexError"""
    from mindsdb_sql import parse_sql
    from mindsdb_sql.exceptions import ParsingException
    from sly.lex import LexError
    d = env(dialect)[0]
    na = d.n_alternatives(d.prods[i])
    if picks is None:
        picks = [min(int(args.get('k%d' % j, 0)), na[j] - 1) for j in range(min(3, len(na)))]
    fl, var = min(int(args.get('fl', 0)), len(AT.FLOATS) - 1), min(int(args.get('var', 0)), len(AT.VARNAMES) - 1)
    a = (picks, [args.get('n0', 1), args.get('n1', 1)], [args.get('i0', 'id1'), args.get('i1', 'id2')], [args.get('s0', 's')], fl, var)
    unit_out = run_tree(dialect, i, *[list(x) if isinstance(x, list) else x for x in a])
    text = sentence(dialect, i, *[list(x) if isinstance(x, list) else x for x in a])
    info = {'production': str(d.prods[i]).split('  [')[0], 'unit_outcome': unit_out, 'sentence': text}
    if text is None:
        return False, info
    try:
        parse_sql(text, dialect)
        info['parse_sql'] = 'tree'
        return False, info
    except (ParsingException, LexError) as e:
        info['parse_sql'] = type(e).__name__
        return False, info
    except Exception as e:  # noqa
        info['parse_sql'] = '%s: %s' % (type(e).__name__, str(e)[:150])
        return True, info


# ---- F1: CrossHair conditions - symbolic integers and string content.  A *case* is a production plus the choice of ONE nonterminal
# child's alternative derivation (all other children shortest) such that an integer or string token sits within `maxdep` levels
# below the root, so that the root's action or its children's actions can see the symbolic value.  Cases are enumerated natively
# from the grammar; each CrossHair condition covers a block of 8 cases (case index symbolic).
BLOCK = 8
SYMBOLIC_TERMINALS = ('INTEGER', 'QUOTE_STRING', 'DQUOTE_STRING')
T = '''
def u_{dialect}_{base}(b0: bool, b1: bool, b2: bool, n0: int, n1: int, s0: str) -> bool:
    """
    pre: 0 <= n0 < 5 and 0 <= n1 < 5
    pre: len(s0) <= {n}
    post: _
    """
    return block('{dialect}', {base}, b0, b1, b2, n0, n1, s0)
'''
MAXDEP = int(os.environ.get('VERIF_U2_DEPTH', '1'))
_cases = {}


def _sym_depth(node, depth=0):
    best = 99
    for c in node.children:
        if c in SYMBOLIC_TERMINALS:
            best = min(best, depth)
        elif isinstance(c, AT.Node):
            best = min(best, _sym_depth(c, depth + 1))
    return best


def cases(dialect):
    key = (dialect, MAXDEP)
    if key not in _cases:
        d = env(dialect)[0]
        out = {}
        for i, p in enumerate(d.prods):
            na = d.n_alternatives(p)
            cand = [[0] * len(na)]
            for j in range(len(na)):
                for k in range(1, na[j]):
                    pk = [0] * len(na)
                    pk[j] = k
                    cand.append(pk)
            for picks in cand:
                t = d.root_trees(p, picks)
                if _sym_depth(t) <= MAXDEP:
                    out.setdefault((i, tuple(sorted(t.prods())), tuple(t.tokens())), (i, picks))
        _cases[key] = list(out.values())
    return _cases[key]


def block(dialect, base, b0, b1, b2, n0, n1, s0):
    j = base + (1 if b0 else 0) + (2 if b1 else 0) + (4 if b2 else 0)
    with NoTracing():
        cs = cases(dialect)
        if j >= len(cs):
            return True
        i, picks = cs[j]
    # integers: chosen from boundary values by symbolic index (formatting a symbolic int realises it, which would make every
    # condition inconclusive); string content stays symbolic
    n0, n1 = INTS[ci(n0, 4)], INTS[ci(n1, 4)]
    out, detail = run_tree(dialect, i, list(picks), [n0, n1], ['id1', 'id2'], [s0], 0, 0)
    return out != 'internal'


INTS = [0, 1, 7, 2 ** 31, 10 ** 20]


def gen(tier, path):
    names = []
    with open(path, 'w') as f:
        f.write('from harness.c02u2 import block\n')
        for dialect in ('mindsdb', 'mysql', 'sqlite'):
            n = len(cases(dialect))
            for base in range(0, n, BLOCK):
                f.write(T.format(dialect=dialect, base=base, n=N))
                names.append((dialect, base))
    return names


def block_replay(dialect, base):
    def r(args):
        j = base + (1 if args.get('b0') else 0) + (2 if args.get('b1') else 0) + (4 if args.get('b2') else 0)
        cs = cases(dialect)
        i, picks = cs[min(j, len(cs) - 1)]
        a = dict(n0=INTS[min(int(args.get('n0', 1)), 4)], n1=INTS[min(int(args.get('n1', 1)), 4)], i0='id1', i1='id2', s0=args.get('s0', 's'), fl=0)
        for q, k in enumerate(picks[:3]):
            a['k%d' % q] = k
        reproduced, info = replay(dialect, i, a, picks=list(picks))
        key = 'action-internal-error:%s:%s' % (dialect, info['production'])
        what = 'grammar action of `%s` (%s): %s; parse_sql(%r): %s' % (info['production'], dialect, info['unit_outcome'][1], info['sentence'], info.get('parse_sql'))
        return reproduced, info, key, what
    return r


# ---- F2: structure sweep (concrete): every production x every combination of alternatives of its first three nonterminal children
# x a vocabulary of boundary values
VOCAB = [dict(ints=[1, 2], ids=['ida', 'idb'], strs=['s'], fl=0, var=0), dict(ints=[0, 0], ids=['`q r`', 'tables'], strs=[''], fl=1, var=1),
         dict(ints=[2 ** 63, 7], ids=['ALL', 'x'], strs=['a.b'], fl=3, var=0),
         # coinciding names: every identifier of the statement is the same name (the pool default is id1), spelled in different letter case
         dict(ints=[3, 3], ids=['Id1', 'ID1'], strs=['id1'], fl=0, var=0)]


def run_node(dialect, tree, v, digits='3'):
    from mindsdb_sql.exceptions import ParsingException
    d, parser, rep, lexemes, _ = env(dialect)
    pools = AT.Pools(list(v['ints']), list(v['ids']), list(v['strs']), v['fl'], v['var'])
    pools.digits = digits
    try:
        AT.evaluate(parser, tree, pools, rep)
        return 'ok', None
    except ParsingException:
        return 'parsing-exception', None
    except Exception as e:  # noqa
        return 'internal', '%s: %s' % (type(e).__name__, str(e)[:120])


def node_sentence(dialect, tree, v, digits='3'):
    d, parser, rep, lexemes, _ = env(dialect)
    pools = AT.Pools(list(v['ints']), list(v['ids']), list(v['strs']), v['fl'], v['var'])
    pools.digits = digits
    body = AT.text_of(tree, pools, lexemes)
    if tree.prod.name not in d.ctx:
        return None
    pre, suf = d.ctx[tree.prod.name]
    defaults = AT.Pools()
    pre_t = ' '.join(defaults.lexeme(t) if t in AT.VALUE_TERMINALS else lexemes.get(t, t) for t in pre)
    suf_t = ' '.join(defaults.lexeme(t) if t in AT.VALUE_TERMINALS else lexemes.get(t, t) for t in suf)
    return ' '.join(x for x in (pre_t, body, suf_t) if x)


def pair_sweep(dialect, lo, hi):
    """every (parent production, child production) pair: -> (evaluations, [(parent index, child position, child production, vocab index, detail, sentence)])"""
    d = env(dialect)[0]
    n, bad = 0, []
    for i in range(lo, min(hi, len(d.prods))):
        for j, cp, tree in d.pair_trees(d.prods[i]):
            for vi in (0, 1, 3):
                out, detail = run_node(dialect, tree, VOCAB[vi], ('3', '0', '3', '3')[vi])
                n += 1
                if out == 'internal':
                    bad.append((i, j, str(cp).split('  [')[0], vi, detail, node_sentence(dialect, tree, VOCAB[vi], ('3', '0', '3', '3')[vi])))
    return n, bad


def sweep(dialect, lo, hi):
    """-> (evaluations, [(production index, picks, vocab index, detail)]) for productions lo..hi-1"""
    import itertools
    d = env(dialect)[0]
    n, bad = 0, []
    for i in range(lo, min(hi, len(d.prods))):
        na = d.n_alternatives(d.prods[i])[:3]
        for picks in itertools.product(*[range(x) for x in na]):
            for vi, v in enumerate(VOCAB):
                out, detail = run_tree(dialect, i, list(picks), list(v['ints']), list(v['ids']), list(v['strs']), v['fl'], v['var'], digits=('3', '0', '99999999999999999999', '3')[vi])
                n += 1
                if out == 'internal':
                    bad.append((i, list(picks), vi, detail))
    return n, bad


# ---- wiring into the C02 check ----------------------------------------------------------------------------------------
def _sweep_job(a):
    dialect, lo, hi = a
    n, bad = sweep(dialect, lo, hi)
    return dialect, lo, hi, n, bad


def _pair_job(a):
    dialect, lo, hi = a
    n, bad = pair_sweep(dialect, lo, hi)
    return dialect, lo, hi, n, bad


def add(run, tier):
    import concurrent.futures as cf
    from engines.common import ch_obligations, VERIF, NCPU
    global MAXDEP
    MAXDEP = 1 if tier == 'quick' else 2
    os.environ['VERIF_U2_DEPTH'] = str(MAXDEP)
    os.environ['VERIF_STRLEN'] = '3' if tier == 'quick' else '4'
    # F2: structure sweep (concrete, grammar-derived)
    jobs = []
    for dialect in ('mindsdb', 'mysql', 'sqlite'):
        np_ = len(env(dialect)[0].prods)
        for lo in range(0, np_, 64):
            jobs.append((dialect, lo, lo + 64))
    total = 0
    with cf.ProcessPoolExecutor(max_workers=NCPU) as ex:
        for dialect, lo, hi, n, bad in ex.map(_sweep_job, jobs):
            total += n
            name = 'U2-structure:%s:productions %d-%d' % (dialect, lo, hi - 1)
            real = []
            for i, picks, vi, detail in bad:
                v = VOCAB[vi]
                a = dict(n0=v['ints'][0], n1=v['ints'][1], i0=v['ids'][0], i1=v['ids'][1], s0=v['strs'][0], fl=v['fl'], var=v['var'])
                rep, info = replay(dialect, i, a, picks=list(picks))
                if rep:
                    real.append(info)
                    run.counterexample('action-internal-error:%s:%s' % (dialect, info['production']),
                                       'parse_sql(%r, %s) raises %s (grammar action of `%s`)' % (info['sentence'], dialect, info['parse_sql'], info['production']),
                                       {'unit': 'U2-structure', 'dialect': dialect, 'native': info}, True)
            if real:
                run.ob(name, 'counterexample', real[0])
            elif bad:
                run.ob(name, 'inconclusive', '%d unit failures not reachable through parse_sql, e.g. %s' % (len(bad), bad[0][3]))
            else:
                run.ob(name, 'discharged', '%d action-tree evaluations' % n)
    # production pairs: every (parent production, child production) pair of the grammar (one child at a time, others shortest)
    ptotal = 0
    with cf.ProcessPoolExecutor(max_workers=NCPU) as ex:
        for dialect, lo, hi, n, bad in ex.map(_pair_job, jobs):
            ptotal += n
            name = 'U2-pairs:%s:productions %d-%d' % (dialect, lo, hi - 1)
            real, unreach = [], 0
            from mindsdb_sql import parse_sql
            from mindsdb_sql.exceptions import ParsingException
            from sly.lex import LexError
            for i, j, cp, vi, detail, text in bad:
                parent = str(env(dialect)[0].prods[i]).split('  [')[0]
                outcome = None
                if text is not None:
                    try:
                        parse_sql(text, dialect)
                    except (ParsingException, LexError):
                        pass
                    except Exception as e:  # noqa
                        outcome = '%s: %s' % (type(e).__name__, str(e)[:150])
                if outcome:
                    real.append(text)
                    run.counterexample('action-internal-error:%s:%s <- %s' % (dialect, parent, cp),
                                       'parse_sql(%r, %s) raises %s (grammar action of `%s` on a child built by `%s`)' % (text, dialect, outcome, parent, cp),
                                       {'unit': 'U2-pairs', 'dialect': dialect, 'sentence': text, 'unit_detail': detail}, True)
                else:
                    unreach += 1
            if real:
                run.ob(name, 'counterexample', real[0])
            elif unreach:
                run.ob(name, 'inconclusive', '%d unit failures not reachable through parse_sql, e.g. %s' % (unreach, bad[0][4]))
            else:
                run.ob(name, 'discharged', '%d action-tree evaluations' % n)
    total += ptotal
    run.assumptions.append('U2-pairs (concrete): every (parent production, child production) pair - each nonterminal child of each production expanded by each production of its nonterminal, the other children shortest - x 2 value sets; %d evaluations' % ptotal)
    run.validated += total
    run.functions.append('every grammar action of the three dialects (%d/%d/%d productions) applied bottom-up over derivation trees generated from the live grammar (ACTTREE)'
                         % tuple(len(env(d)[0].prods) for d in ('mindsdb', 'mysql', 'sqlite')))
    run.assumptions.append('U2-structure (concrete): every production x every combination of up to 6 alternative shallow derivations of its first three nonterminal children x 3 boundary value sets; %d evaluations' % total)
    run.assumptions.append('U2-values (CrossHair): productions with an integer or string token within %d level(s) of the root, one child varied at a time; string content symbolic (<= %s chars), integers chosen by symbolic index from %r (formatting a symbolic int realises it); unit counterexamples count only when parse_sql reproduces them'
                           % (MAXDEP, os.environ['VERIF_STRLEN'], INTS))
    # F1: symbolic values
    path = os.path.join(VERIF, '.scratch', 'gen_ch_C02u2.py')
    names = gen(tier, path)
    specs = [dict(fn='u_%s_%d' % (dl, base), twin=None, replay=block_replay(dl, base), soft_replay=True, name='U2-values:%s:cases %d-%d' % (dl, base, base + BLOCK - 1))
             for dl, base in names]
    ch_obligations(run, path, specs, cond_to=240 if tier == 'quick' else 900, path_to=60)
