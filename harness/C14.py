"""C14 — in a table-model join the model gets the right rows and arguments, only those (see c14lib)."""
import os, json
from engines.common import Run, ch_obligations, VERIF

T = '''
def tm_shape{sh}(a: int, b: int, c: int, on_clause: bool, using: bool, model_first: bool) -> int:
    """
    pre: 0 <= a < {na} and 0 <= b < {na} and 0 <= c < {na}
    pre: a != b and b != c and a != c
    post: _ == 0
    """
    return step({sh}, a, b, c, on_clause, using, model_first)


def tm_shape{sh}_reach(a: int, b: int, c: int, on_clause: bool, using: bool, model_first: bool) -> int:
    """
    pre: 0 <= a < {na} and 0 <= b < {na} and 0 <= c < {na}
    pre: a != b and b != c and a != c
    post: False
    """
    return step({sh}, a, b, c, on_clause, using, model_first)
'''


def gen():
    from harness import c14lib
    d = os.path.join(VERIF, '.scratch')
    os.makedirs(d, exist_ok=True)
    path = os.path.join(d, 'gen_ch_C14.py')
    with open(path, 'w') as f:
        f.write('from harness.c14lib import step\n')
        for sh in range(c14lib.NS):
            f.write(T.format(sh=sh, na=c14lib.NA))
    return path, list(range(c14lib.NS))


def mk_replay(sh):
    def replay(args):
        from harness import c14lib
        import re
        try:
            pr, info = c14lib.leaf(sh, args['a'], args['b'], args['c'], bool(args['on_clause']), bool(args['using']), bool(args['model_first']))
        except Exception as e:  # noqa
            pr, info = ['check crashed %r' % e], {}
        cls = re.sub(r"'[^']*'|\d+|\{.*?\}|\[.*?\]", '#', pr[0])[:60] if pr else ''
        return bool(pr), dict(info, problems=pr[:4]), 'table-model-join:%s:%s' % (c14lib.SHAPES[sh][0], cls), '%s: %s' % (info.get('sql'), pr[0] if pr else '')
    return replay


def run(tier):
    run = Run('C14', tier)
    from harness import c14lib
    path, shapes = gen()
    run.bounds = {'where_shapes': [s[0] for s in c14lib.SHAPES], 'atoms': [a[0] for a in c14lib.ATOMS],
                  'options': 'ON clause present/absent, USING present/absent, model written first/second'}
    run.functions = ['plan_query', 'PlanJoinTablesQuery.plan_join_tables/check_query_conditions/check_node_condition/process_table/process_predictor/join_condition_to_columns_map']
    run.assumptions = ['one table joined with one non-timeseries model; WHERE = formula of depth <= 2 over 8 atom kinds (table comparison, table BETWEEN, model = const, model > const, column = column, function(column) = const); more tables/models are covered structurally by C09/C10',
                       'oracle: independent syntactic spec from the property text (top-level conjuncts of the written WHERE)',
                       'structure variables are finite-domain; CrossHair/z3 split the space, leaves run the real parser and planner']
    specs = [dict(fn='tm_shape%d' % sh, twin='tm_shape%d_reach' % sh, replay=mk_replay(sh)) for sh in shapes]
    ch_obligations(run, path, specs, cond_to=300 if tier == 'quick' else 900, path_to=60)
    run.sample({'example': c14lib.build(6, 0, 1, 2, True, True, False)[0]})
    run.finish()


def replay(path):
    r = json.load(open(path))
    print(json.dumps(r, indent=1))
    sh = int(r['replay']['harness'].replace('tm_shape', ''))
    rep, info, key, what = mk_replay(sh)(r['replay']['args'])
    print('native replay now: reproduced=%s %s' % (rep, json.dumps(info, default=repr)))
    return 1 if rep else 0
