"""C14 — in a table-model join the model gets the right rows and arguments, only those (see c14lib)."""
import os, json, re
from engines.common import Run, ch_obligations, VERIF

def gen():
    """one contract per (shape, value of the first atom for 3-slot shapes): unused atom slots are not parameters, so that the
    solver does not split on values that cannot matter"""
    from harness import c14lib
    d = os.path.join(VERIF, '.scratch')
    os.makedirs(d, exist_ok=True)
    path = os.path.join(d, 'gen_ch_C14.py')
    specs = []
    na = c14lib.NA
    with open(path, 'w') as f:
        f.write('from harness.c14lib import step\n')
        for sh, (tmpl, _top) in enumerate(c14lib.SHAPES):
            used = [k for k in 'ABC' if '{%s}' % k in tmpl]
            fixed_a = list(range(na)) if len(used) == 3 else [None]
            for fa in fixed_a:
                params = [k.lower() for k in used if not (k == 'A' and fa is not None)]
                name = 'tm_shape%d' % sh + ('' if fa is None else '_a%d' % fa)
                sig = ', '.join(['%s: int' % q for q in params] + ['on_clause: bool', 'using: bool', 'model_first: bool'])
                vals = {'a': 'a' if fa is None else str(fa), 'b': 'b' if 'B' in used else '-1', 'c': 'c' if 'C' in used else '-2'}
                pre = ' and '.join('0 <= %s < %d' % (q, na) for q in params)
                names = [vals[k.lower()] for k in used]
                distinct = ' and '.join('%s != %s' % (x, y) for i_, x in enumerate(names) for y in names[i_ + 1:]) or 'True'
                for suffix, post in (('', '_ == 0'), ('_reach', 'False')):
                    f.write('\n\ndef %s%s(%s) -> int:\n    """\n    pre: %s\n    pre: %s\n    post: %s\n    """\n'
                            '    return step(%d, %s, %s, %s, on_clause, using, model_first)\n'
                            % (name, suffix, sig, pre or 'True', distinct, post, sh, vals['a'], vals['b'], vals['c']))
                specs.append((name, sh, fa))
        # statement frames (what the model is joined to, which model, how many models) x 2-slot shapes x atoms
        f.write('from harness.c14lib import step_frame\n')
        for fr in range(1, c14lib.NF):
            for half in (0, 1):
                name = 'fr_%d_%d' % (fr, half)
                lo, hi = (0, na // 2) if half == 0 else (na // 2, na)
                for suffix, post in (('', '_ == 0'), ('_reach', 'False')):
                    f.write('\n\ndef %s%s(k: int, a: int, b: int, on_clause: bool, using: bool) -> int:\n    """\n    pre: 0 <= k < %d and %d <= a < %d and 0 <= b < %d and a != b\n    post: %s\n    """\n'
                            '    return step_frame(%d, k, a, b, on_clause, using)\n' % (name, suffix, len(c14lib.FRAME_SHAPES), lo, hi, na, post, fr))
                specs.append((name, ('frame', fr), None))
        if os.environ.get('VERIF_C14_DEEP') == '1':
            # thorough tier: the 3-slot shapes on every frame too (first atom fixed per condition)
            f.write('from harness.c14lib import step\n')
            for fr in range(1, c14lib.NF):
                for sh, (tmpl, _top) in enumerate(c14lib.SHAPES):
                    if '{C}' not in tmpl:
                        continue
                    for fa in range(na):
                        name = 'fr3_%d_%d_a%d' % (fr, sh, fa)
                        for suffix, post in (('', '_ == 0'), ('_reach', 'False')):
                            f.write('\n\ndef %s%s(b: int, c: int, on_clause: bool, using: bool) -> int:\n    """\n    pre: 0 <= b < %d and 0 <= c < %d and b != c and b != %d and c != %d\n    post: %s\n    """\n'
                                    '    return step(%d, %d, b, c, on_clause, using, False, %d)\n' % (name, suffix, na, na, fa, fa, post, sh, fa, fr))
                        specs.append((name, ('frame3', fr, sh, fa), None))
    return path, specs


def mk_replay(sh, fa=None):
    def replay(args):
        from harness import c14lib
        import re
        if isinstance(sh, tuple) and sh[0] == 'frame3':
            _, fr, sh3, fa3 = sh
            try:
                pr, info = c14lib.leaf(sh3, fa3, int(args['b']), int(args['c']), bool(args['on_clause']), bool(args['using']), False, fr)
            except Exception as e:  # noqa
                pr, info = ['check crashed %r' % e], {}
            pr = pr + ['undecided: ' + x for x in info.get('undecided', ())]
            cls = re.sub(r"'[^']*'|\d+|\{.*?\}|\[.*?\]", '#', pr[0])[:60] if pr else ''
            return bool(pr), dict(info, problems=pr[:4]), 'table-model-join:%s:%s' % (c14lib.FRAMES[fr]['name'], cls), '%s: %s' % (info.get('sql'), pr[0] if pr else '')
        if isinstance(sh, tuple):
            fr = sh[1]
            k, a, b = int(args['k']), int(args['a']), int(args['b'])
            c = [x for x in range(c14lib.NA) if x not in (a, b)][0]
            try:
                pr, info = c14lib.leaf(c14lib.FRAME_SHAPES[k], a, b, c, bool(args['on_clause']), bool(args['using']), False, fr)
            except Exception as e:  # noqa
                pr, info = ['check crashed %r' % e], {}
            pr = pr + ['undecided: ' + x for x in info.get('undecided', ())]
            cls = re.sub(r"'[^']*'|\d+|\{.*?\}|\[.*?\]", '#', pr[0])[:60] if pr else ''
            return bool(pr), dict(info, problems=pr[:4]), 'table-model-join:%s:%s' % (c14lib.FRAMES[fr]['name'], cls), '%s: %s' % (info.get('sql'), pr[0] if pr else '')
        a = fa if fa is not None else args.get('a', 0)
        b, c = args.get('b', -1), args.get('c', -2)
        # unused slots: any distinct atoms
        free = [x for x in range(c14lib.NA) if x not in (a, b, c)]
        if b < 0:
            b = free.pop(0)
        if c < 0:
            c = free.pop(0)
        try:
            pr, info = c14lib.leaf(sh, a, b, c, bool(args['on_clause']), bool(args['using']), bool(args['model_first']))
        except Exception as e:  # noqa
            pr, info = ['check crashed %r' % e], {}
        pr = pr + ['undecided: ' + x for x in info.get('undecided', ())]
        cls = re.sub(r"'[^']*'|\d+|\{.*?\}|\[.*?\]", '#', pr[0])[:60] if pr else ''
        return bool(pr), dict(info, problems=pr[:4]), 'table-model-join:%s:%s' % (c14lib.SHAPES[sh][0], cls), '%s: %s' % (info.get('sql'), pr[0] if pr else '')
    return replay


def run(tier):
    run = Run('C14', tier)
    from harness import c14lib
    os.environ['VERIF_C14_DEEP'] = '1' if tier == 'thorough' else '0'
    path, gspecs = gen()
    run.bounds = {'frames': [f_['name'] for f_ in c14lib.FRAMES], 'where_shapes': [s[0] for s in c14lib.SHAPES], 'atoms': [a[0] for a in c14lib.ATOMS],
                  'options': 'ON clause present/absent, USING present/absent, model written first/second'}
    run.functions = ['plan_query', 'PlanJoinTablesQuery.plan_join_tables/check_query_conditions/check_node_condition/process_table/process_predictor/join_condition_to_columns_map']
    run.assumptions = ['frame table-model: one table joined with one non-timeseries model, all 10 shapes x 3 atom slots x both join orders; 6 more frames (subselect as data, two tables, project model, versioned model, two models, LEFT JOIN) with the 6 two-slot shapes; WHERE = formula of depth <= 2 over 12 atom kinds (table comparison, table BETWEEN, model = const, model > const, column = column, function(column) = const); more tables/models are covered structurally by C09/C10',
                       'oracle: independent syntactic spec from the property text (top-level conjuncts of the written WHERE)',
                       'structure variables are finite-domain; CrossHair/z3 split the space, leaves run the real parser and planner']
    specs = [dict(fn=name, twin=name + '_reach', replay=mk_replay(sh, fa)) for name, sh, fa in gspecs]
    ch_obligations(run, path, specs, cond_to=300 if tier == 'quick' else 900, path_to=60)
    run.sample({'example': c14lib.build(6, 0, 1, 2, True, True, False)[0]})
    # join kinds between the data tables (concrete family, z3 decides each pushed filter against the written conjuncts)
    try:
        members = c14lib.join_kind_members()
        bad, und, n = {}, 0, 0
        for jk, onf, wh, sql in members:
            pr, ud = c14lib.check_join_kind_member(jk, onf, wh, sql)
            n += 1
            und += 1 if ud else 0
            if pr:
                bad.setdefault(' '.join(jk.upper().split()), []).append((sql, pr[0]))
        for jk, items in sorted(bad.items()):
            run.counterexample('table-model-join:join-kind:%s:on-conjunct-pushed' % jk, '%s: %s (%d statements of this join kind)' % (items[0][0], items[0][1], len(items)),
                               {'join_kind_sql': items[0][0]}, True)
        run.ob('join-kinds:%d statements (%d join kind spellings of the live grammar x %d ON clauses x %d WHERE clauses)' % (n, len(c14lib.join_spellings()), len(c14lib.ON_FILTERS), len(c14lib.JK_WHERES)),
               'counterexample' if bad else 'discharged', '%d rejected / undecided' % und)
        run.add_stats({'solver_calls': c14lib.STATS['z3_queries'], 'solver_s': c14lib.STATS['z3_s']})
        run.validated += n
        run.bounds['join_kind_spellings'] = c14lib.join_spellings()
    except Exception as e:  # noqa
        import traceback
        run.error('join-kind family crashed: %r %s' % (e, traceback.format_exc()[-300:]))
    # a model column that the ON clause maps to a table column AND that WHERE sets to a constant (column first and constant first)
    try:
        n_, pr_ = c14lib.mapped_column_family()
        run.validated += n_
        seen_ = set()
        for p_ in pr_:
            cls_ = re.sub(r"'[^']*'|\d+|\{.*?\}|\[.*?\]", '#', p_.split(': ', 1)[1])[:60]
            if cls_ in seen_:
                continue
            seen_.add(cls_)
            if len(seen_) <= 4:
                run.counterexample('table-model-join:mapped-column:%s' % cls_, p_[:400], {'mapped_column': p_[:300]}, True)
        run.ob('mapped-column-atoms:%d leaves (model column in ON and = constant in WHERE, both operand orders x every other atom x two-slot shapes x orders x frames)' % n_,
               'counterexample' if pr_ else 'discharged', None)
    except Exception as e:  # noqa
        import traceback
        run.error('mapped-column family crashed: %r %s' % (e, traceback.format_exc()[-300:]))
    run.finish()


def replay(path):
    r = json.load(open(path))
    print(json.dumps(r, indent=1))
    import re
    if r['replay'].get('mapped_column'):
        from harness import c14lib
        n_, pr_ = c14lib.mapped_column_family()
        print('native replay now: reproduced=%s %s' % (bool(pr_), pr_[:1]))
        return 1 if pr_ else 0
    if r['replay'].get('join_kind_sql'):
        from harness import c14lib
        import re as _re
        sql = r['replay']['join_kind_sql']
        m_ = _re.match(r'SELECT \* FROM int1.tbl1 AS t (.*?) int2.tbl2 AS u ON t.id = u.id AND (.*?) JOIN mindsdb.pred AS m(.*)$', sql)
        pr, ud = c14lib.check_join_kind_member(m_.group(1), m_.group(2), m_.group(3), sql)
        print('native replay now: reproduced=%s %s' % (bool(pr), pr[:2]))
        return 1 if pr else 0
    h = r['replay']['harness']
    if h.startswith('fr3_'):
        _, fr, sh3, fa3 = h.split('_')
        rep, info, key, what = mk_replay(('frame3', int(fr), int(sh3), int(fa3[1:])))(r['replay']['args'])
    elif h.startswith('fr_'):
        rep, info, key, what = mk_replay(('frame', int(h.split('_')[1])))(r['replay']['args'])
    else:
        m = re.match(r'tm_shape(\d+)(?:_a(\d+))?', h)
        rep, info, key, what = mk_replay(int(m.group(1)), int(m.group(2)) if m.group(2) else None)(r['replay']['args'])
    print('native replay now: reproduced=%s %s' % (rep, json.dumps(info, default=repr)))
    return 1 if rep else 0
