"""C01 — print -> re-parse yields the same tree.
A. LEXZ3 (solver): tokenisation side of the atom lemmas on the live lexer rule lists (keyword collisions of bare
   identifiers derived to exhaustion, quoted identifiers / string literals / integers start no other rule).
B. CH (solver): value side of the atom lemmas on the real printers (identifier parts, paths, variables; string constants
   are C07's const_to_string obligation).
C. skeletons (concrete, stated as such): one shortest sentence per production of each live grammar + the test corpus:
   parse, print, re-parse, compare tree and text, print again, copy()."""
import os, json, re, time
from engines.common import Run, ch_obligations, VERIF
from engines import sweep as SW

HARNESS = os.path.join(VERIF, 'harness', 'ch_C01.py')


def lex_part(run, tier):
    import z3
    from engines.lexz3 import LexerModel, translate
    from mindsdb_sql import parse_sql
    from mindsdb_sql.parser.ast import Identifier, Select
    from mindsdb_sql.parser.ast.select.identifier import no_wrap_identifier_regex, get_reserved_words
    maxlen = 16 if tier == 'quick' else 24
    reserved = set(get_reserved_words())
    strings = ['select', 'SELECT', 'group by', 'a1', '1a', '`x y`', "'it''s'", '"q"', '@v', '1.5', '12', '!=', '<>', '->', '--c',
               '/* c */', 'primary_key', 'primary key', 'ml_engine', 'nulls first', ' ', '\n', 'Persist_Only', "'a\\'b'"]
    for d in SW.DIALECTS:
        L, P = SW.dialect_classes(d)
        M = LexerModel(L)
        if M.unsupported:
            run.error('LEXZ3 cannot translate rules of %s: %s' % (d, M.unsupported))
            continue
        n, bad = M.validate(strings)
        run.validated += n
        if bad:
            run.error('LEXZ3 translator disagrees with re for %s: %s' % (d, bad[:3]))
            continue
        w = z3.String('w')
        # the printer's "no back-quotes needed" pattern; anchors around it mean the same under fullmatch (what the printer really does with it
        # is the CrossHair lemma ident_atom's subject: a part printed bare must be one ID lexeme)
        bare_pat = no_wrap_identifier_regex.pattern
        bare_pat = bare_pat[1:] if bare_pat.startswith('^') else bare_pat
        bare_pat = bare_pat[:-1] if bare_pat.endswith('$') and not bare_pat.endswith('\\$') else bare_pat
        bare, _, _ = translate(bare_pat, False)
        idx = M.index_of('ID')
        id_re = M.rules[idx][2]
        # A1: printed-bare words of which an earlier rule captures a PREFIX (first-match tokenisation: the rule needs to match
        # at position 0 only; its trailing \\b must fall on a word/non-word border inside or at the end of the word).
        # Derived to exhaustion, one rule at a time, blocking the captured prefix case-insensitively.
        from engines.lexz3 import WORD, ASCII
        anyc = z3.Star(ASCII)
        x, y = z3.String('x'), z3.String('y')
        collisions, exhausted = [], True
        for name, pat, r, lb, tb in M.rules[:idx]:
            if r is None or name.startswith('ignore'):
                continue
            blocked = []
            for it in range(80):
                cs = [w == z3.Concat(x, y), z3.InRe(w, bare), z3.Length(w) <= maxlen, z3.Length(x) >= 1, z3.InRe(x, r)]
                if lb:
                    cs.append(z3.InRe(x, z3.Concat(WORD, anyc)))
                if tb:
                    last_word = z3.InRe(x, z3.Concat(anyc, WORD))
                    next_word = z3.And(y != z3.StringVal(''), z3.InRe(y, z3.Concat(WORD, anyc)))
                    cs.append(z3.Xor(last_word, next_word))
                cs += [z3.Not(z3.InRe(x, translate(re.escape(b), True)[0])) for b in blocked]
                res, m = M.check(*cs)
                if res == 'unsat':
                    break
                if res != 'sat':
                    exhausted = False
                    run.ob('lexz3:%s:collision:%s' % (d, name), 'inconclusive', res)
                    break
                word, prefix = m[w].as_string(), m[x].as_string()
                blocked.append(prefix)
                if not (word == prefix and word.upper() in reserved):
                    collisions.append((name, word))
            else:
                exhausted = False
        bad_words = []
        for name, word in collisions:
            q = Select(targets=[Identifier(parts=[word])], from_table=Identifier(parts=['t']))
            text = q.to_string()
            try:
                back = parse_sql(text, d)
                ok = back.to_tree() == q.to_tree()
            except Exception as e:  # noqa
                ok = False
            run.validated += 1
            if not ok:
                bad_words.append(word)
                run.counterexample('identifier-keyword:%s:%s' % (d, name), 'identifier %r prints bare as %r, which the %s lexer reads as keyword %s' % (word, text, d, name),
                                   {'dialect': d, 'word': word, 'printed': text, 'rule': name}, True)
        run.ob('lexz3:%s:bare-identifier-collisions' % d, 'counterexample' if bad_words else ('discharged' if exhausted else 'inconclusive'),
               'rules before ID=%d, words captured by a keyword rule and not reserved=%d (accepted as id by the grammar: %d)' %
               (idx, len(collisions), len(collisions) - len(bad_words)))
        # A2: every bare-shaped word is in L(ID)
        res, m = M.check(z3.InRe(w, bare), z3.Length(w) <= maxlen, z3.Not(z3.InRe(w, id_re)))
        run.ob('lexz3:%s:bare-word-is-ID' % d, 'discharged' if res == 'unsat' else ('counterexample' if res == 'sat' else 'inconclusive'),
               None if res != 'sat' else m[w].as_string())
        if res == 'sat':
            run.counterexample('bare-word-not-ID:%s' % d, 'word %r is printed bare but is not an ID lexeme' % m[w].as_string(), {'word': m[w].as_string()}, True)
        # A3 / A4 / A5: a printed quoted identifier / string literal / integer cannot be started by an earlier rule
        x = z3.String('x')
        for label, first, target in (('quoted-identifier', '`', 'ID'), ('string-literal', "'", 'QUOTE_STRING')):
            ti = M.index_of(target)
            hits = []
            for name, pat, r, lb, tb in M.rules[:ti]:
                if r is None:
                    continue
                res, m = M.check(z3.InRe(x, r), z3.PrefixOf(z3.StringVal(first), x), z3.Length(x) <= 8)
                if res == 'sat':
                    hits.append((name, m[x].as_string()))
                elif res != 'unsat':
                    hits.append((name, res))
            run.ob('lexz3:%s:%s-starts-no-earlier-rule' % (d, label), 'discharged' if not hits else 'counterexample', hits or None)
            for name, s in hits:
                run.counterexample('%s-shadowed:%s:%s' % (label, d, name), 'rule %s of %s matches %r before %s' % (name, d, s, target), {'rule': name, 'text': s}, True)
        digits = z3.Plus(z3.Range('0', '9'))
        ti = M.index_of('INTEGER')
        hits = []
        for name, pat, r, lb, tb in M.rules[:ti]:
            if r is None or name == 'FLOAT':
                continue
            res, m = M.check(z3.InRe(x, digits), z3.InRe(x, r), z3.Length(x) <= 10)
            if res == 'sat':
                hits.append((name, m[x].as_string()))
        run.ob('lexz3:%s:integer-starts-no-earlier-rule' % d, 'discharged' if not hits else 'counterexample', hits or None)
        for name, s in hits:
            run.counterexample('integer-shadowed:%s:%s' % (d, name), 'rule %s of %s matches the digits %r before INTEGER' % (name, d, s), {'rule': name, 'text': s}, True)
        run.add_stats({'solver_calls': M.queries, 'solver_s': M.solver_s})
        run.sample({'dialect': d, 'lexer_rules': len(M.rules), 'rules_before_ID': idx, 'keyword_collisions_found': collisions[:10]})


def r_ident(args):
    from mindsdb_sql import parse_sql
    from mindsdb_sql.parser.ast import Identifier, Select
    parts = [args[k] for k in ('p', 'p1', 'p2') if k in args]
    q = Select(targets=[Identifier(parts=list(parts))], from_table=Identifier(parts=['t']))
    text = q.to_string()
    try:
        back = parse_sql(text, 'mindsdb')
        got = getattr(back.targets[0], 'parts', None) if len(back.targets) == 1 else None
    except Exception as e:  # noqa
        got = 'error %s' % type(e).__name__
    cls = 'empty-or-backquote' if any(p == '' or '`' in p for p in parts) else 'other'
    return got != list(parts), {'parts': parts, 'printed': text, 'read_back': got}, 'identifier-part:%s' % cls, \
        'Identifier(parts=%r) prints %s which parses back as %r' % (parts, text, got)


IDENT_ALPHABET = ['a', 'Z', '1', '_', '$', ' ', '\n', '\r', '\t', '\x0b', '\x0c', '\x1c', '\x85', '\u2028', '.', '-', '\u00e9', '\u0661', "'", '"', '@']


def ident_boundary(run, name='ident_atom[native boundary alphabet]'):
    """cross-check of the CrossHair lemma ident_atom with native runs: CrossHair's regex model reads `$` as the strict end of the
    string (probe: it CONFIRMS that `^\\w+$`.match(s) implies no line break in s, which is false for 'a\\n'), so a printer that decides
    with such a pattern is not faithfully modelled.  Every part of length <= 3 over an alphabet of word characters, blanks, all the
    characters Python treats as line boundaries, a dot, quotes and two non-ASCII letters / digits is printed and parsed back natively."""
    import itertools
    n, bad = 0, []
    for k in (1, 2, 3):
        for tup in itertools.product(IDENT_ALPHABET, repeat=k):
            p = ''.join(tup)
            n += 1
            rep, info, key, what = r_ident({'p': p})
            if rep:
                bad.append((p, what, info))
    for p, what, info in bad[:3]:
        run.counterexample('identifier-part:boundary:%r' % p, what, {'harness': 'ident_boundary', 'args': {'p': p}, 'native': info}, True)
    run.ob(name, 'counterexample' if bad else 'discharged', '%d parts printed and parsed back natively, %d fail' % (n, len(bad)))
    run.validated += n


def r_var(args):
    from mindsdb_sql import parse_sql
    from mindsdb_sql.parser.ast import Variable, Select
    system = args['system']
    if 'v' in args:
        v = args['v']
    else:
        import importlib
        v = str(importlib.import_module('harness.ch_C01')._decode_var(args['text'], system))
    text = Select(targets=[Variable(v, is_system_var=system)]).to_string()
    try:
        back = parse_sql(text, 'mindsdb')
        t = back.targets[0]
        got = (getattr(t, 'value', None), getattr(t, 'is_system_var', None)) if len(back.targets) == 1 else None
    except Exception as e:  # noqa
        got = 'error %s' % type(e).__name__
    import re as _re
    cls = 'inexpressible-name' if (not _re.match(r'[a-zA-Z_.$]', v) or all(q in v for q in '`\'"')) else 'other'
    return got != (v, system), {'name': v, 'printed': text, 'read_back': got}, 'variable-name:%s' % cls, \
        'Variable(%r) prints %s which parses back as %r' % (v, text, got)


_VALUE_LEXEMES = {
    'QUOTE_STRING': ["'01 day'", "'1 day'", "'007'", "''", "' x '", "'it''s'", "'%'", "'NULL'", "'1e5'", "'-1'", "'x.y'", "'a\"b'", "'2 hours'", "'00'", "'1.50'", "'A'",
                     # back-slashes next to quotes: an escaped back-slash pair before a doubled / escaped quote, an escaped quote, a pair at the end
                     "'a\\\\''b'", "'a\\\\\\'b'", "'a\\'b'", "'a\\\\'", "'\\\\''", "'a\\nb'"],
    'DQUOTE_STRING': ['"01 day"', '"a b"', '"x.y"', '"it\'s"', '"007"', '"A"', '"select"', '"1"', '"a\\\\\'b"', '"a\\\\""b"'],
    'INTEGER': ['0', '007', '10', '99999999999999999999', '1', '00'],
    'FLOAT': ['0.0', '1.5', '.5', '1.', '0.00005', '00.10', '123456789.125', '1.0'],
    'ID': ['a1', '`a b`', '`select`', 'x$y', '$a', '_', 'A1', '`1x`', '`a.b`', 'Id', '`ID`', 'a_b'],
    'VARIABLE': ['@v', '@V1', '@`a b`', "@'x'", '@a.b', '@_'],
    'SYSTEM_VARIABLE': ['@@v', '@@V1', '@@a.b', '@@`a b`'],
}


def value_vocabulary(L):
    """per value-carrying token kind: the candidate lexemes the live lexer reads as exactly one token of that kind"""
    out = {}
    for kind, cands in _VALUE_LEXEMES.items():
        keep = []
        for c in cands:
            try:
                toks = list(L().tokenize(c))
            except Exception:  # noqa
                continue
            if len(toks) == 1 and toks[0].type == kind:
                keep.append(c)
        out[kind] = keep or None
    return {k: v for k, v in out.items() if v}


class LexPools:
    """acttree.Pools look-alike that spells value tokens with vocabulary lexemes"""
    def __init__(self, vocab, k):
        self.vocab, self.k, self.n, self.used, self.ints = vocab, k, {}, [], []

    def word(self, text):
        return text

    def lexeme(self, term):
        tab = self.vocab.get(term)
        if not tab:
            raise KeyError(term)
        j = self.n.get(term, 0)
        self.n[term] = j + 1
        v = tab[(self.k + j) % len(tab)]
        self.used.append((term, v))
        return v


def skeleton_part(run, tier):
    from engines.sentences import shortest_sentences
    from engines.symtok import representatives
    from mindsdb_sql import parse_sql
    from mindsdb_sql.exceptions import ParsingException
    corpus = SW.harvest_corpus()
    for d in SW.DIALECTS:
        L, P = SW.dialect_classes(d)
        rep, lexemes = representatives(L)
        sents = shortest_sentences(P)
        sqls = [(' '.join(lexemes.get(t, t) for t in types), 'production %s' % str(p).split('  [')[0]) for p, types in sents]
        sqls += [(s, 'corpus') for s in corpus[d]]
        # the corpus statements in other layouts: one blank between two tokens replaced by an empty line, by a comment-only line, by several
        # empty lines and an indentation (a statement that stores raw text of an inner query stores its layout too: the stored text must be a
        # fixed point of print -> parse -> print)
        for s_ in corpus[d]:
            if len(s_) > 400:
                continue
            try:
                toks_ = list(L().tokenize(s_))
            except Exception:  # noqa
                continue
            gaps_ = [(toks_[i_].end, toks_[i_ + 1].index) for i_ in range(len(toks_) - 1) if s_[toks_[i_].end:toks_[i_ + 1].index] == ' ']
            for lo_, hi_ in gaps_[1::max(1, len(gaps_) // 5)][:6]:
                for filler_ in ('\n\n', '\n-- c\n', '\n\n\n   '):
                    sqls.append((s_[:lo_] + filler_ + s_[hi_:], 'corpus statement in another layout'))
        # every production with each ONE of its nonterminal children replaced by each alternative shallow derivation (ACTTREE
        # derivations, regenerated from the live grammar), placed in the shortest context of its left-hand side
        from harness import c02u2
        dv = c02u2.env(d)[0]
        n_alt = 0
        for i, p in enumerate(dv.prods):
            na = dv.n_alternatives(p)
            cand = [[0] * len(na)]
            for j in range(len(na)):
                for k in range(1, na[j]):
                    pk = [0] * len(na)
                    pk[j] = k
                    cand.append(pk)
            for picks in cand:
                t_ = c02u2.sentence(d, i, picks, [7, 8], ['ida', 'idb', 'idc', 'idd'], ['str'], 0, 0)
                if t_:
                    sqls.append((t_, 'derivation of %s with alternatives %s' % (str(p).split('  [')[0], picks)))
                    n_alt += 1
        # ... and every (parent production, child production) pair of the grammar
        n_pair = 0
        for i, p in enumerate(dv.prods):
            for j, cp, tree in dv.pair_trees(p):
                t_ = c02u2.node_sentence(d, tree, c02u2.VOCAB[0])
                if t_:
                    sqls.append((t_, 'production pair %s <- %s' % (str(p).split('  [')[0], str(cp).split('  [')[0])))
                    n_pair += 1
        # ... and every (parent production, PARENTHESISED child production) triple: what user-written parentheses keep apart
        n_par = 0
        for i, p in enumerate(dv.prods):
            for j, wp, cp, tree in dv.paren_trees(p):
                t_ = c02u2.node_sentence(d, tree, c02u2.VOCAB[0])
                if t_:
                    sqls.append((t_, 'production %s <- ( %s )' % (str(p).split('  [')[0], str(cp).split('  [')[0])))
                    n_par += 1
        # ... and every production with the value-carrying tokens of its shortest derivation spelled with each lexeme of a per-kind
        # vocabulary (leading zeros, empty and blank-padded strings, doubled quotes, digit strings in quotes, quoted and $ names, ..):
        # the k-th sentence of a production gives occurrence j of a token kind the lexeme number (k + j) of that kind
        n_val = 0
        vocab = value_vocabulary(L)
        kmax = max(len(v) for v in vocab.values())
        # twice: with the shortest derivations as they are, and with derivations that prefer ID (then other value tokens) over keyword terminals
        dv_plain = dv
        for dv, dv_tag in ((dv_plain, ''), (c02u2.env_names(d)[0], ' [name-preferring derivations]')):
            for i, p in enumerate(dv.prods):
                if p.name not in dv.ctx:
                    continue
                # the shortest derivation, and every derivation with ONE nonterminal child replaced by an alternative that brings in value tokens
                # the shortest one does not have (the shortest derivation of a table / column position is often a keyword such as ENGINES or *,
                # so names in such positions would never be spelled with quoted / reserved / $ lexemes)
                na = dv.n_alternatives(p)
                cand = [[0] * len(na)]
                for j in range(len(na)):
                    for k_ in range(1, na[j]):
                        pk = [0] * len(na)
                        pk[j] = k_
                        cand.append(pk)
                base_kinds = None
                for picks in cand:
                    kinds_of_picks = None
                    for k in range(kmax):
                        pools = LexPools(vocab, k)
                        try:
                            body = c02u2.AT.text_of(dv.root_trees(p, picks), pools, lexemes)
                        except Exception:  # noqa
                            break
                        if not pools.used:
                            break           # no value token in this derivation
                        kinds_of_picks = sorted(t for t, _ in pools.used)
                        if any(picks):
                            if base_kinds is not None and kinds_of_picks == base_kinds:
                                break       # same value tokens as the shortest derivation
                        pre, suf = dv.ctx[p.name]
                        defaults = c02u2.AT.Pools()
                        pre_t = ' '.join(defaults.lexeme(t) if t in c02u2.AT.VALUE_TERMINALS else lexemes.get(t, t) for t in pre)
                        suf_t = ' '.join(defaults.lexeme(t) if t in c02u2.AT.VALUE_TERMINALS else lexemes.get(t, t) for t in suf)
                        sqls.append((' '.join(x for x in (pre_t, body, suf_t) if x), 'value vocabulary %d in %s%s%s' % (k, str(p).split('  [')[0], (' with alternatives %s' % picks) if any(picks) else '', dv_tag)))
                        n_val += 1
                    if not any(picks):
                        base_kinds = kinds_of_picks or []

        dv = dv_plain
        run.extra['value_vocabulary_sentences_%s' % d] = n_val
        run.extra['alternative_derivation_sentences_%s' % d] = n_alt
        run.extra['production_pair_sentences_%s' % d] = n_pair
        run.extra['parenthesised_child_sentences_%s' % d] = n_par
        seen, n_ok, n_skip, n_bad, prods = set(), 0, 0, 0, set()
        if os.environ.get('VERIF_DUMP_SQLS'):
            with open(os.environ['VERIF_DUMP_SQLS'] + '.' + d, 'w') as f_:
                for sql, origin in sqls:
                    f_.write('%s\t%s\n' % (' '.join(sql.split()), origin))
        for sql, origin in sqls:
            if sql in seen:
                continue
            seen.add(sql)
            try:
                a = parse_sql(sql, d)
            except ParsingException:
                n_skip += 1
                continue
            except Exception as e:  # noqa
                n_skip += 1
                continue
            problem, s1, s2 = None, None, None
            try:
                try:
                    s1 = a.to_string()
                except Exception as e:  # noqa
                    problem = 'print raises %s: %s' % (type(e).__name__, str(e)[:80])
                    raise
                b = parse_sql(s1, d)
                s2 = b.to_string()
                if b.to_tree() != a.to_tree():
                    problem = 'tree differs after re-parse'
                elif s2 != s1:
                    problem = 'second print differs'
                elif a.copy().to_string() != s1 or a.copy().to_tree() != a.to_tree():
                    problem = 'copy() prints differently'
            except Exception as e:  # noqa
                problem = problem or 're-parse raises %s' % type(e).__name__
            run.validated += 1
            if problem:
                n_bad += 1
                # finding key = the failing printer and its symptom where the symptom names one (so that every statement that hits
                # the same printer defect is one finding), else the statement itself
                if s1 is not None and 'Identifier:<' in s1:
                    key = 'roundtrip:printer:%s:%s:identifier-valued-option-printed-with-repr' % (d, type(a).__name__)
                elif 'Object of type Identifier is not JSON serializable' in problem:
                    key = 'roundtrip:printer:%s:%s:identifier-valued-option-not-json-serializable' % (d, type(a).__name__)
                elif s1 is not None and d in ('mysql', 'sqlite') and "\\'" in s1 and 'LexError' in problem:
                    # to_string() has no dialect argument: a quote inside a string constant is written \' , which only the mindsdb lexer reads
                    key = 'roundtrip:printer:%s:string-constant-quote-escaped-for-a-lexer-without-escapes' % d
                elif s1 is not None and re.search(r'[=\[,]\s*-?\d+(\.\d+)?e[-+]?\d+', s1) and problem.startswith('re-parse raises'):
                    # option values (USING / SET k = v) go through json.dumps: small and large floats come out in exponent notation
                    key = 'roundtrip:printer:%s:%s:option-float-printed-in-exponent-notation' % (d, type(a).__name__)
                elif s1 is not None and re.search(r'(USING|SET|\(|,)\s*("[^"]*"|`[^`]*`)\s*=', sql) and problem.startswith('re-parse raises') \
                        and any(re.search(r'(^|[\s(,])%s\s*=' % re.escape(k_[1:-1]), s1) for k_ in re.findall(r'(?:USING|SET|\(|,)\s*("[^"]*"|`[^`]*`)\s*=', sql)
                                if not re.fullmatch(r'[A-Za-z_][A-Za-z_0-9]*', k_[1:-1]) or k_[1:-1].upper() in ('SELECT',)):
                    # option NAMES (USING / SET "a b" = .., nested object keys) are printed bare by the option printers, whatever they contain
                    key = 'roundtrip:printer:%s:%s:option-name-needing-quotes-printed-bare' % (d, type(a).__name__)
                elif s1 is not None and type(a).__name__ == 'Describe' and re.match(r'DESCRIBE\s+("[^"]*"|`[^`]*`)\s+\S', sql):
                    # DESCRIBE <type> <name>: the type word is printed as it was decoded
                    key = 'roundtrip:printer:%s:Describe:type-word-needing-quotes-printed-bare' % d
                elif s1 is not None and type(a).__name__ == 'Evaluate' and re.search(r'USING\s', sql) and problem.startswith('re-parse raises'):
                    # the Evaluate printer writes option values bare (USING k=some text;)
                    key = 'roundtrip:printer:%s:Evaluate:option-values-printed-bare' % d
                elif s1 is not None and re.search(r'\b(select)\(', s1) and re.search(r'(`select`|"select")\s*\(', sql, re.I) and problem.startswith('re-parse raises'):
                    key = 'roundtrip:printer:%s:%s:reserved-word-function-name-printed-bare' % (d, type(a).__name__)
                elif s1 is not None and d in ('mysql', 'sqlite') and "\\'" in s1 and problem.startswith('re-parse raises'):
                    key = 'roundtrip:printer:%s:string-constant-quote-escaped-for-a-lexer-without-escapes' % d
                elif s1 is not None and (type(a).__name__ not in ('Select', 'Union', 'Intersect', 'Except', 'Insert', 'Update', 'Delete') or ' USING ' in s1) and '\\' in sql \
                        and s1.count('\\') > sql.count('\\') and problem == 'tree differs after re-parse':
                    # option values (USING / SET k = 'text', ENGINE 'text') are printed with json.dumps / repr(): every back-slash of the value
                    # comes out doubled, and the lexer keeps a back-slash pair as two characters
                    key = 'roundtrip:printer:%s:%s:option-string-back-slashes-doubled' % (d, type(a).__name__)
                elif s1 is not None and type(a).__name__ == 'CreateAgent' and 'model=None' in s1:
                    key = 'roundtrip:printer:%s:CreateAgent:missing-model-printed-as-None' % d
                elif s1 is not None and type(a).__name__ == 'Show' and re.fullmatch(r'SHOW ENGINE \S+ (MUTEX|STATUS)', ' '.join(sql.split())) \
                        and not re.search(r'(MUTEX|STATUS)$', s1.strip()):
                    key = 'roundtrip:printer:%s:Show:engine-status-or-mutex-word-dropped' % d
                elif s1 is not None and type(a).__name__ == 'Show' and d == 'mindsdb' and re.fullmatch(r'SHOW ENGINE( \S+)?', ' '.join(sql.split())):
                    key = 'roundtrip:printer:mindsdb:Show:engine-category'
                elif s1 is not None and type(a).__name__ == 'Show' and d == 'mindsdb' and len(sql.split()) == 4 and len(s1.split()) == 3 \
                        and problem == 'tree differs after re-parse':
                    key = 'roundtrip:printer:mindsdb:Show:name-dropped-for-unlisted-category'
                elif s1 is not None and type(a).__name__ == 'CreateTable' and re.search(r'\(\s*\)\s*$', s1) and 'PRIMARY_KEY' in sql:
                    key = 'roundtrip:printer:%s:CreateTable:only-primary-key-prints-empty-column-list' % d
                elif s1 is not None and type(a).__name__ == 'CreateDatabase' and re.match(r'CREATE (OR REPLACE )?PROJECT', sql.upper()) and re.match(r'CREATE (OR REPLACE )?DATABASE', s1.upper()):
                    key = 'roundtrip:printer:mindsdb:CreateDatabase:project-printed-as-database'
                elif s1 is not None and re.search(r'\(\s*\(\s*SELECT\b[^()]*\b(UNION|EXCEPT|INTERSECT)\b', sql) and re.search(r'(UNION|EXCEPT|INTERSECT)', s1) \
                        and problem.startswith('re-parse raises'):
                    # a set operation written in its own parentheses inside the parentheses of a subquery position: the enclosing printer
                    # writes one pair only and the text no longer parses
                    key = 'roundtrip:printer:%s:%s:parenthesised-set-operation-as-subquery' % (d, type(a).__name__)
                elif type(a).__name__ == 'CreateTable' and s1 is not None and re.search(r'(UNION|EXCEPT|INTERSECT)', s1) and problem.startswith('re-parse raises'):
                    key = 'roundtrip:printer:%s:CreateTable:parenthesised-set-operation-as-subquery' % d
                elif s1 is not None and problem.startswith('re-parse raises') and re.search(r'\bOFFSET\b', s1) and not re.search(r'\bLIMIT\b', s1) \
                        and type(a).__name__ in ('Select', 'Union', 'Intersect', 'Except'):
                    # OFFSET without LIMIT: accepted in some positions, but the printed `.. OFFSET n` directly after a select list / table is not
                    key = 'roundtrip:printer:%s:%s:offset-without-limit-not-reparsable' % (d, type(a).__name__)
                elif s1 is not None and d == 'mindsdb' and re.search(r'FROM \( EVALUATE\b', ' '.join(sql.split())) and problem.startswith('re-parse raises'):
                    key = 'roundtrip:printer:mindsdb:Select:evaluate-as-from-subquery'
                elif type(a).__name__ == 'Show':
                    # the Show printer (one get_string for ~40 SHOW forms): category words, names and IN / FROM / LIKE / WHERE modifiers
                    key = 'roundtrip:printer:%s:Show:%s' % (d, problem.split(':')[0].replace(' ', '-'))
                else:
                    key = 'roundtrip:%s:%s' % (d, ' '.join(sql.split())[:120])
                run.counterexample(key, '%s: %r prints as %r: %s' % (d, ' '.join(sql.split())[:150], s1, problem),
                                   {'dialect': d, 'sql': sql, 'origin': origin, 'printed': s1, 'printed_again': s2, 'problem': problem}, True)
            else:
                n_ok += 1
        run.ob('skeletons:%s' % d, 'counterexample' if n_bad else 'discharged',
               'statements round-tripped=%d failing=%d not accepted with representative lexemes=%d (productions=%d, corpus=%d)' %
               (n_ok, n_bad, n_skip, len(sents), len(corpus[d])))
        run.extra['skeleton_statements_%s' % d] = n_ok + n_bad


def specs():
    return [
        dict(fn='ident_atom', twin='ident_atom_reach', replay=r_ident),
        dict(fn='ident_atom_known', twin=None, replay=r_ident, name='ident_atom[known-finding class]'),
        dict(fn='path_atom', twin=None, replay=r_ident),
        dict(fn='var_atom', twin=None, replay=r_var),
        dict(fn='var_atom_known', twin=None, replay=r_var, name='var_atom[known-finding class]'),
    ]


def run(tier):
    run = Run('C01', tier)
    n = 4 if tier == 'quick' else 6
    os.environ['VERIF_STRLEN'] = str(n)
    run.bounds = {'identifier_word_len_max_LEXZ3': 16 if tier == 'quick' else 24, 'alphabet_LEXZ3': 'ASCII 0x00-0x7F',
                  'atom_value_len_max_CH': n, 'skeletons': 'one shortest sentence per production + test corpus (concrete)'}
    run.functions = ['SQLLexer/MySQLLexer/MindsDBLexer._rules (live patterns -> z3 Re)', 'Identifier.parts_to_str/get_reserved_words',
                     'Variable.get_string', 'VARIABLE/SYSTEM_VARIABLE lexer actions', 'parse_sql / to_string / to_tree / copy (skeletons, concrete)']
    run.assumptions = ['decomposition skeleton x atom lemma (DESIGN C01): if every printed atom is self-delimiting, the token stream of a printed tree is the skeleton\'s with atoms substituted',
                       'string-constant atoms are C07\'s obligations (const_to_string, insert_value_node); numeric atoms: digits start no other rule (LEXZ3), formatting is CPython\'s',
                       'skeleton part is concrete execution of bounded program structure (one sentence per production + corpus), not a solver verdict',
                       'LEXZ3: leading/trailing \\b of keyword rules hold for identifier-shaped words followed by a separator; non-ASCII letters outside the alphabet']
    try:
        lex_part(run, tier)
    except Exception as e:  # noqa
        import traceback
        run.error('LEXZ3 part crashed: %r %s' % (e, traceback.format_exc()[-300:]))
    ch_obligations(run, HARNESS, specs(), cond_to=150 if tier == 'quick' else 900)
    ident_boundary(run)
    try:
        skeleton_part(run, tier)
    except Exception as e:  # noqa
        run.error('skeleton part crashed: %r' % e)
    run.finish()


def replay(path):
    r = json.load(open(path))
    print(json.dumps(r, indent=1))
    rp = r['replay']
    if 'sql' in rp:
        from mindsdb_sql import parse_sql
        a = parse_sql(rp['sql'], rp['dialect'])
        s1 = a.to_string()
        try:
            b = parse_sql(s1, rp['dialect'])
            bad = b.to_tree() != a.to_tree() or b.to_string() != s1
        except Exception as e:  # noqa
            bad = True
        print('native replay now: reproduced=%s printed=%r' % (bad, s1))
        return 1 if bad else 0
    for s in specs():
        if s.get('name', s['fn']) == rp.get('harness'):
            rep, info, key, what = s['replay'](rp['args'])
            print('native replay now: reproduced=%s %s' % (rep, json.dumps(info, default=repr)))
            return 1 if rep else 0
    return 2
