"""Shared pieces for the planner checks (C09, C10, C14): catalog forms, statement families, generic plan walker."""
import copy

try:
    from crosshair.tracers import NoTracing
except ImportError:
    import contextlib
    NoTracing = contextlib.nullcontext


def cb(b):
    return True if b else False


def ci(n, hi):
    for v in range(hi + 1):
        if n == v:
            return v
    return hi


# ---- catalogs ---------------------------------------------------------------------------------------

def catalog(as_dicts=False, legacy_meta=False, default_ns=True, api=False, ts=False, target_form=0):
    """planner keyword arguments for one catalog *form* (same content, supplied differently)"""
    ints = ['int1', 'int2', 'files']
    if as_dicts:
        integrations = [{'name': n, 'type': 'data'} for n in ints]
        integrations.append({'name': 'proj', 'type': 'project'})
        if api:
            integrations.append({'name': 'apidb', 'type': 'data', 'class_type': 'api'})
    else:
        integrations = list(ints)
        if api:
            integrations.append({'name': 'apidb', 'type': 'data', 'class_type': 'api'})
    preds = [
        {'name': 'pred', 'integration_name': 'mindsdb', 'to_predict': ['p']},
        {'name': 'pred2', 'integration_name': 'proj', 'to_predict': ['p2']},
        # a model whose target name CONTAINS the names of its input columns x, y, z; the target is supplied as a one-element list, a plain
        # string, or a list of several targets (target_form 0 / 1 / 2)
        {'name': 'predx', 'integration_name': 'mindsdb', 'to_predict': (['xyz_p'], 'xyz_p', ['w', 'xyz_p'])[target_form]},
    ]
    if ts:
        preds.append({'name': 'tspred', 'integration_name': 'mindsdb', 'timeseries': True, 'window': 3, 'horizon': 2,
                      'order_by_column': 'ts', 'group_by_columns': ['g']})
    if legacy_meta:
        meta = {}
        for p in preds:
            p = dict(p)
            name = p.pop('name')
            meta[name] = p
    else:
        meta = [dict(p) for p in preds]
    kw = dict(integrations=integrations, predictor_namespace='mindsdb', predictor_metadata=meta)
    if default_ns:
        kw['default_namespace'] = 'mindsdb'
    return kw


def spell(word, bits):
    """re-spell a qualifier: upper-case the i-th letter when bits[i]"""
    out, k = [], 0
    for ch in word:
        if ch.isalpha():
            out.append(ch.upper() if (k < len(bits) and bits[k]) else ch)
            k += 1
        else:
            out.append(ch)
    return ''.join(out)


# ---- generic plan walker -------------------------------------------------------------------------------

def all_steps(plan_steps):
    """every step object of a plan, including the sub-steps of MapReduceStep.step / MultipleSteps.steps, with its
    position (index in the top-level list, nested flag)"""
    from mindsdb_sql.planner.steps import PlanStep
    out = []

    def rec(step, top_index, nested):
        out.append((step, top_index, nested))
        for k, v in vars(step).items():
            if isinstance(v, PlanStep):
                rec(v, top_index, True)
            elif isinstance(v, (list, tuple)):
                for x in v:
                    if isinstance(x, PlanStep):
                        rec(x, top_index, True)
    for i, s in enumerate(plan_steps):
        rec(s, i, False)
    return out


def results_in(obj, seen=None, top=True):
    """every Result reachable from a step's fields: in fields, lists, dicts, embedded ASTs (Parameter(Result)), sub-steps"""
    from mindsdb_sql.planner.step_result import Result
    from mindsdb_sql.planner.steps import PlanStep
    from mindsdb_sql.parser.ast.base import ASTNode
    if seen is None:
        seen = set()
    out = []
    if id(obj) in seen:
        return out
    if isinstance(obj, Result):
        return [obj]
    if isinstance(obj, PlanStep) and not top:
        return out      # sub-steps of a container are walked on their own (all_steps), as nested steps
    if isinstance(obj, (str, int, float, bool, type(None))):
        return out
    seen.add(id(obj))
    if isinstance(obj, dict):
        for v in obj.values():
            out += results_in(v, seen, False)
    elif isinstance(obj, (list, tuple, set)):
        for v in obj:
            out += results_in(v, seen, False)
    elif isinstance(obj, (PlanStep, ASTNode)) or hasattr(obj, '__dict__'):
        for k, v in vars(obj).items():
            if k == 'result_data':
                continue
            out += results_in(v, seen, False)
    return out


def wellformed(plan):
    """list of problems of a QueryPlan w.r.t. C09"""
    problems = []
    steps = plan.steps
    for i, s in enumerate(steps):
        if s.step_num != i:
            problems.append('step %d (%s) is numbered %r' % (i, type(s).__name__, s.step_num))
    for step, top, nested in all_steps(steps):
        for r in results_in(step):
            n = r.step_num
            if isinstance(n, str):
                # a reference into a partition "<k>_<j>": only legal from inside the same container, to an earlier sub-step
                try:
                    k, j = n.split('_')
                    k, j = int(k), int(j)
                except Exception:  # noqa
                    problems.append('%s refers to malformed result %r' % (type(step).__name__, n))
                    continue
                if not (nested and k == top):
                    problems.append('%s at %d refers to sub-step result %r from outside its container' % (type(step).__name__, top, n))
                continue
            if not isinstance(n, int):
                problems.append('%s refers to result %r' % (type(step).__name__, n))
            elif n >= top and not (nested and n == top and False):
                problems.append('%s at position %d refers to result of step %d (not strictly earlier)' % (type(step).__name__, top, n))
    if not steps:
        problems.append('empty plan')
    return problems


def answer_closure(plan):
    """the steps the LAST step's result is computed from (the last step, its sub-steps, and everything they refer to, transitively)"""
    steps = plan.steps
    if not steps:
        return []
    todo, seen, out = [len(steps) - 1], set(), []
    while todo:
        i = todo.pop()
        if i in seen or not isinstance(i, int) or not (0 <= i < len(steps)):
            continue
        seen.add(i)
        for st, _, _ in all_steps([steps[i]]):
            out.append(st)
            for r in results_in(st):
                if isinstance(r.step_num, int):
                    todo.append(r.step_num)
    return out


def answer_sources(plan):
    """-> ({integration: {lower-cased table names}}, [(namespace, lower-cased predictor parts)]) read by the steps the answer is computed from"""
    from mindsdb_sql.planner import steps as S
    tabs, preds = {}, []
    for st in answer_closure(plan):
        if isinstance(st, S.FetchDataframeStep) and st.query is not None:
            for t in tables_of(st.query):
                tabs.setdefault(st.integration, set()).add(str(t.parts[-1]).lower())
        if isinstance(st, (S.ApplyPredictorStep, S.ApplyPredictorRowStep, S.ApplyTimeseriesPredictorStep)):
            preds.append((st.namespace, [str(x).lower() for x in st.predictor.parts]))
    return tabs, preds


def fetches(plan):
    from mindsdb_sql.planner.steps import FetchDataframeStep
    return [s for s, _, _ in all_steps(plan.steps) if isinstance(s, FetchDataframeStep)]


def tables_of(query):
    """table identifiers of a query (positions flagged is_table by the walker)"""
    from mindsdb_sql.planner.utils import query_traversal
    from mindsdb_sql.parser.ast import Identifier
    out = []

    def cb_(node, is_table=False, **kw):
        if is_table and isinstance(node, Identifier):
            out.append(node)
    if query is not None:
        query_traversal(copy.deepcopy(query), cb_)
    return out


def plan_sql(sql, **catalog_kw):
    from mindsdb_sql import parse_sql
    from mindsdb_sql.planner import plan_query
    return plan_query(parse_sql(sql, 'mindsdb'), **catalog_kw)
