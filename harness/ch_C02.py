"""CrossHair units for C02 (value-dependent grammar actions): every production of the mindsdb grammar whose right-hand
side contains an option list (kw_parameter_list) is applied, through SLY's real YaccProduction, to a SYMBOLIC option
dictionary (symbolic keys and values) and default values for the other children; the action must return a value or raise
ParsingException - never an internal error."""
import os
from mindsdb_sql.parser.dialects.mindsdb.parser import MindsDBParser
from mindsdb_sql.parser.ast import Identifier, Select, Star, Constant
from mindsdb_sql.exceptions import ParsingException
from engines.prodstub import apply_action

N = int(os.environ.get('VERIF_STRLEN', '3'))
_parser = MindsDBParser()
from mindsdb_sql.parser.dialects.mindsdb.lexer import MindsDBLexer
_RAW = list(MindsDBLexer().tokenize('select 1 from t'))
KEYWORDS = ['type', 'model', 'database', 'agent', 'storage', 'engine', 'skills', 'name', 'zz', 'TYPE']


def option_productions():
    out = []
    for prod in MindsDBParser._grammar.Productions[1:]:
        syms = [str(s) for s in prod.prod]
        if 'kw_parameter_list' in syms and prod.name not in ('kw_parameter_list', 'object'):
            out.append(prod)
    return out


PRODS = option_productions()


def default_child(sym):
    if sym == 'identifier':
        return Identifier(parts=['x'])
    if sym in ('if_not_exists_or_empty', 'replace_or_empty', 'if_exists_or_empty'):
        return False
    if sym in ('select', 'query'):
        return Select(targets=[Star()], from_table=Identifier(parts=['t']))
    if sym in ('id', 'ID'):
        return 'x'
    if sym in ('string', 'quote_string', 'dquote_string'):
        return 's'
    if sym == 'integer':
        return 1
    if sym in ('json', 'json_value'):
        return {}
    if sym == 'raw_query':
        return list(_RAW)
    if sym in ('create_predictor', 'create_anomaly_detection_model'):
        from mindsdb_sql.parser.dialects.mindsdb.create_predictor import CreatePredictor, CreateAnomalyDetectionModel
        cls = CreatePredictor if sym == 'create_predictor' else CreateAnomalyDetectionModel
        return cls(name=Identifier(parts=['m']), targets=[Identifier(parts=['y'])])
    if sym == 'expr':
        return Constant(1)
    if sym == 'result_columns':
        return [Identifier(parts=['y'])]
    if sym == 'ordering_terms':
        return []
    if sym == 'expr_list':
        return [Identifier(parts=['g'])]
    if sym == 'join_tables' or sym == 'from_table' or sym == 'from_table_aliased':
        return Identifier(parts=['t'])
    if sym == 'update_parameter_list':
        return {'a': Constant(1)}
    return sym      # terminals: their own name stands for the lexeme


def _value(kind, s, n):
    if kind == 0:
        return s
    if kind == 1:
        return n
    if kind == 2:
        return Identifier(parts=['v'])
    if kind == 3:
        return n > 0
    if kind == 4:
        return None
    return [s]


def apply(idx, k1, k2, two, kind1, kind2, s, n):
    prod = PRODS[idx]
    params = {k1: _value(kind1, s, n)}
    if two:
        params[k2] = _value(kind2, s, n)
    values = [params if str(sym) == 'kw_parameter_list' else default_child(str(sym)) for sym in prod.prod]
    try:
        apply_action(_parser, prod, values)
    except ParsingException:
        pass
    return True


# ---- U1: the lexer's error reporter is total on every illegal character -------------------------------------------
from sly.lex import Token, LexError


def _illegal_ascii():
    out = set()
    for c in range(128):
        try:
            list(MindsDBLexer().tokenize(chr(c)))
        except LexError:
            out.add(chr(c))
        except Exception:  # noqa
            out.add(chr(c))
    return out


ILLEGAL_ASCII = _illegal_ascii()
FOLD = 'ſKİı'     # non-ASCII letters that re.IGNORECASE folds onto ASCII letters (can start a keyword)


def _is_illegal(ch):
    if len(ch) != 1:
        return False
    if ord(ch) < 128:
        return ch in ILLEGAL_ASCII
    return not ch.isdecimal() and ch not in FOLD


def _representatives():
    """every illegal ASCII character + one or two code points of every Unicode general category (assigned or not)"""
    import unicodedata
    out = sorted(ILLEGAL_ASCII)
    seen = {}
    for cp in list(range(128, 0x3000)) + [0xD800, 0xDFFF, 0xE000, 0xF8FF, 0xFFFE, 0xFFFF, 0x10000, 0x1F600, 0xE0001, 0xF0000, 0x10FFFF, 0x0378]:
        ch = chr(cp)
        cat = unicodedata.category(ch)
        if seen.get(cat, 0) < 2 and _is_illegal(ch):
            seen[cat] = seen.get(cat, 0) + 1
            out.append(ch)
    return out


CHARS = _representatives()


def lexer_error_leaf(k, pre_len, post_len, nl):
    ch = CHARS[k]
    prefix = 'a' * pre_len
    if nl and pre_len > 0:
        prefix = prefix[:pre_len - 1] + '\n'
    text = prefix + ch + 'b' * post_len
    lx = MindsDBLexer()
    lx.text = text
    lx.index = len(prefix)
    lx.lineno = 1 + prefix.count('\n')
    t = Token()
    t.type, t.value, t.lineno, t.index, t.end = 'ERROR', text[len(prefix):], lx.lineno, len(prefix), len(text)
    try:
        lx.error(t)
    except LexError as e:
        msg = str(e.args[0])
        return 'Illegal character' in msg and '^' in msg
    return False


def lexer_error_unit(k: int, pre_len: int, post_len: int, nl: bool) -> bool:
    """
    pre: 0 <= k < NCHARS
    pre: 0 <= pre_len <= 3 and 0 <= post_len <= 2
    post: _
    """
    from harness.planlib import ci, cb, NoTracing
    k, pre_len, post_len, nl = ci(k, NCHARS - 1), ci(pre_len, 3), ci(post_len, 2), cb(nl)
    with NoTracing():
        return lexer_error_leaf(k, pre_len, post_len, nl)


NCHARS = len(CHARS)
