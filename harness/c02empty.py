"""C02 - input that leaves the parser without any token: the empty token stream through the real parse_sql tail (SYMTOK space i has K >= 1
tokens), and texts made of what the live lexers skip (members of every ignore_* rule found by z3 on the LEXZ3 translation of the rule, ignored
characters, the trailing semicolons parse_sql strips).  Each must end in ParsingException - constructing the message must not fail."""
import itertools
import z3
from engines import sweep as SW
from engines.lexz3 import LexerModel


def _zstr(t):
    """z3 prints non-printable characters as \\u{hex}"""
    import re
    return re.sub(r'\\u\{([0-9a-fA-F]+)\}', lambda m: chr(int(m.group(1), 16)), t)


def ignore_members(L, per_rule=4, maxlen=10):
    """distinct members of each ignore_* rule of the live lexer: z3 models of 'text in L(rule), |text| <= maxlen', blocking the ones already found
    and asking for different lengths / a line break inside where the rule allows one"""
    lm = LexerModel(L)
    out, queries = [], 0
    for name, pat, r, lb, tb in lm.rules:
        if not name.startswith('ignore') or r is None:
            continue
        s = z3.String('s')
        found = []
        wishes = [z3.BoolVal(True), z3.Contains(s, z3.StringVal('\n')), z3.Length(s) >= 6, z3.Contains(s, z3.StringVal("'")), z3.Contains(s, z3.StringVal(';'))]
        for w in wishes:
            if len(found) >= per_rule:
                break
            cs = [z3.InRe(s, r), z3.Length(s) <= maxlen, w] + [s != z3.StringVal(f) for f in found]
            res, m = lm.check(*cs, timeout_ms=20000)
            queries += 1
            if res == 'sat':
                found.append(_zstr(m[s].as_string()))
        out += [(name, f) for f in found]
    return out, queries, lm.solver_s


def add(run, tier):
    from mindsdb_sql import parse_sql
    from mindsdb_sql.exceptions import ParsingException
    import re
    for d in SW.DIALECTS:
        L, P = SW.dialect_classes(d)
        # (a) the empty token stream through the real tail (parse loop, error(), ErrorHandling un-stubbed)
        r = SW.run_tail(d, L, P, [])
        if r.outcome == 'reject':
            run.ob('U3U4:empty-token-stream:%s' % d, 'discharged', 'ParsingException: %s' % (r.message or '')[:60])
        else:
            # replay through the public API: the empty text
            try:
                parse_sql('', d)
                rep, what = True, 'returns a value'
            except ParsingException:
                rep, what = False, 'ParsingException'
            except Exception as e:  # noqa
                rep, what = True, 'raises %s: %s' % (type(e).__name__, e)
            if rep:
                run.counterexample('no-tokens:%s:empty-text' % d, "%s: parse_sql('') %s" % (d, what), {'no_tokens': {'dialect': d, 'text': ''}}, True)
                run.ob('U3U4:empty-token-stream:%s' % d, 'counterexample', what)
            else:
                run.ob('U3U4:empty-token-stream:%s' % d, 'inconclusive', 'tail outcome %s (%r) with an empty stream, but the empty text is rejected properly' % (r.outcome, r.exc))
        # (b) texts of skipped material only
        members, q, ss = ignore_members(L)
        run.add_stats({'paths': 0, 'solver_calls': q, 'solver_s': ss})
        segs = [m for _, m in members] + [c for c in L.ignore] + [';', '']
        n_seg = 2 if tier == 'quick' else 3
        texts = set()
        for k in range(1, n_seg + 1):
            for combo in itertools.product(segs, repeat=k):
                for sep in ('', '\n'):
                    texts.add(sep.join(combo))
        bad, n, skipped = {}, 0, 0
        for t in sorted(texts):
            stripped = re.sub(r'[\s;]+$', '', t)
            try:
                if list(L().tokenize(stripped)):
                    skipped += 1
                    continue
            except Exception:  # noqa
                skipped += 1
                continue
            n += 1
            try:
                res = parse_sql(t, d)
                what = 'returns %r' % (res,)
            except ParsingException:
                continue
            except Exception as e:  # noqa
                what = 'raises %s: %s' % (type(e).__name__, str(e)[:80])
            bad.setdefault(what, []).append(t)
        for what, ts in sorted(bad.items()):
            ts.sort(key=len)
            run.counterexample('no-tokens:%s:%s' % (d, what.split(':')[0]), '%s: parse_sql(%r) %s (%d texts without a token fail this way)' % (d, ts[0], what, len(ts)),
                               {'no_tokens': {'dialect': d, 'text': ts[0]}}, True)
        run.ob('U3U4:texts-without-tokens:%s:%d texts from %d ignore-rule members (z3) x ignored characters x semicolons, <= %d segments' % (d, n, len(members), n_seg),
               'counterexample' if bad else 'discharged', '%d texts, %d skipped (a token after all)' % (n, skipped))
        run.sample({'space': 'no-tokens:%s' % d, 'ignore_rule_members': members[:8]})
    run.validated += 1


def replay(r):
    from mindsdb_sql import parse_sql
    from mindsdb_sql.exceptions import ParsingException
    a = r['replay']['no_tokens']
    try:
        res = parse_sql(a['text'], a['dialect'])
        print('native replay now: reproduced=True returns %r' % (res,))
        return 1
    except ParsingException as e:
        print('native replay now: reproduced=False ParsingException %s' % str(e)[:80])
        return 0
    except Exception as e:  # noqa
        print('native replay now: reproduced=True raises %s: %s' % (type(e).__name__, e))
        return 1
