"""C02 size family (concrete, stated as such): every directly recursive production A -> x A y of each live grammar is pumped N times
inside the shortest sentential context of A (lists, operator chains, nestings of every statement kind), plus a few indirect nestings
(subqueries, CASE, function calls).  The real parse_sql must return a tree or raise ParsingException / LexError - in particular no
RecursionError - and must come back within a time limit.  N is the resource bound of the claim ("reasonably sized")."""
import time, multiprocessing as mp
from engines import sweep as SW


def _tables(parser_cls):
    g = parser_cls._grammar
    prods = [p for p in g.Productions[1:]]
    nonterms = set(p.name for p in prods)
    start = str(g.Productions[0].prod[0])
    best, changed = {}, True
    while changed:
        changed = False
        for p in prods:
            total, ok = [], True
            for s in map(str, p.prod):
                if s in nonterms:
                    if s not in best:
                        ok = False
                        break
                    total.extend(best[s])
                else:
                    total.append(s)
            if ok and (p.name not in best or len(total) < len(best[p.name])):
                best[p.name] = tuple(total)
                changed = True
    ctx, changed = {start: ((), ())}, True
    while changed:
        changed = False
        for p in prods:
            if p.name not in ctx:
                continue
            pre0, suf0 = ctx[p.name]
            syms = [str(s) for s in p.prod]
            if any(s in nonterms and s not in best for s in syms):
                continue
            exp = [best[s] if s in nonterms else (s,) for s in syms]
            for i, s in enumerate(syms):
                if s in nonterms:
                    pre = pre0 + tuple(x for e in exp[:i] for x in e)
                    suf = tuple(x for e in exp[i + 1:] for x in e) + suf0
                    if s not in ctx or len(pre) + len(suf) < len(ctx[s][0]) + len(ctx[s][1]):
                        ctx[s] = (pre, suf)
                        changed = True
    return prods, nonterms, best, ctx


def pumped(parser_cls, N):
    """-> [(label, token types)]"""
    prods, nonterms, best, ctx = _tables(parser_cls)
    out = []
    for p in prods:
        syms = [str(s) for s in p.prod]
        if p.name not in ctx or any(s in nonterms and s not in best for s in syms):
            continue
        for i, s in enumerate(syms):
            if s != p.name:
                continue
            pre = [x for t in syms[:i] for x in (best[t] if t in nonterms else (t,))]
            suf = [x for t in syms[i + 1:] for x in (best[t] if t in nonterms else (t,))]
            if not pre and not suf:
                continue
            c0, c1 = ctx[p.name]
            out.append(('%s -> %s [slot %d] x %d' % (p.name, ' '.join(syms), i, N), list(c0) + pre * N + list(best[p.name]) + suf * N + list(c1)))
    return out


def indirect(N):
    """texts with indirect recursion (through several nonterminals)"""
    n = max(2, N // 10)
    return [
        ('subquery in FROM x %d' % n, 'SELECT * FROM (' * n + 'SELECT a FROM t' + ') AS s' * n),
        ('subquery in IN x %d' % n, 'SELECT a FROM t WHERE a IN (' * n + 'SELECT a FROM t' + ')' * n),
        ('scalar subquery in targets x %d' % n, 'SELECT (' * n + 'SELECT 1' + ')' * n),
        ('CASE nested x %d' % n, 'SELECT ' + 'CASE WHEN a = 1 THEN ' * n + '0' + ' ELSE 1 END' * n + ' FROM t'),
        ('function calls nested x %d' % N, 'SELECT ' + 'f(' * N + 'a' + ')' * N + ' FROM t WHERE ' + 'g(' * N + 'a' + ')' * N + ' = 1'),
        ('WHERE OR chain x %d' % N, 'SELECT a FROM t WHERE ' + ' OR '.join('id = %d' % i for i in range(N))),
        ('HAVING AND chain x %d' % N, 'SELECT a FROM t GROUP BY a HAVING ' + ' AND '.join('count(b) > %d' % i for i in range(N))),
        ('DELETE WHERE chain x %d' % N, 'DELETE FROM t WHERE ' + ' OR '.join('id = %d' % i for i in range(N))),
        ('UPDATE WHERE chain x %d' % N, 'UPDATE t SET a = 1 WHERE ' + ' AND '.join('id != %d' % i for i in range(N))),
        ('JOIN chain x %d' % N, 'SELECT * FROM t0 ' + ' '.join('JOIN t%d ON t%d.id = t0.id' % (i, i) for i in range(1, N))),
        ('UNION chain x %d' % N, ' UNION '.join('SELECT %d' % i for i in range(N))),
        ('parenthesised arithmetic x %d' % N, 'SELECT ' + '(' * N + 'a' + ' + 1)' * N + ' FROM t'),
        ('NOT chain x %d' % N, 'SELECT a FROM t WHERE ' + 'NOT ' * N + 'a'),
        ('unary minus chain x %d' % N, 'SELECT ' + '- ' * N + 'a FROM t'),
        ('long string constant', "SELECT '%s'" % ('x' * (N * 50))),
        ('wide INSERT x %d' % N, 'INSERT INTO t (a, b) VALUES ' + ', '.join('(%d, %d)' % (i, i) for i in range(N))),
    ]


def _one(args):
    d, label, sql = args
    import sys, warnings
    warnings.filterwarnings('ignore')
    from mindsdb_sql import parse_sql
    from mindsdb_sql.exceptions import ParsingException
    from mindsdb_sql.parser.ast.base import ASTNode
    from sly.lex import LexError
    t0 = time.time()
    try:
        r = parse_sql(sql, d)
        res = 'tree' if isinstance(r, ASTNode) else 'non-tree %r' % (r,)
    except (ParsingException, LexError) as e:
        res = 'rejected'
    except BaseException as e:  # noqa  RecursionError, MemoryError included
        res = 'internal %s: %s' % (type(e).__name__, str(e)[:100])
    return d, label, res, round(time.time() - t0, 2), len(sql)


def family(tier):
    from harness.C05 import to_sql
    N = 600 if tier == 'quick' else 900
    jobs = []
    for d in SW.DIALECTS:
        L, P = SW.dialect_classes(d)
        for label, types in pumped(P, N):
            jobs.append((d, label, to_sql(d, types)))
        for label, sql in indirect(N):
            jobs.append((d, label, sql))
    return N, jobs


def add(run, tier, limit_s=60):
    from engines.common import NCPU
    N, jobs = family(tier)
    with mp.get_context('fork').Pool(NCPU) as pool:
        res = pool.map(_one, jobs, chunksize=4)
    sqls = {(d, label): sql for d, label, sql in jobs}
    bad = [r for r in res if r[2].startswith(('internal', 'non-tree')) or r[3] > limit_s]
    run.extra['size_family'] = {'pump_count': N, 'statements': len(res), 'trees': sum(r[2] == 'tree' for r in res), 'rejected': sum(r[2] == 'rejected' for r in res),
                                'slowest_s': max(r[3] for r in res), 'longest_chars': max(r[4] for r in res)}
    groups = {}
    for r in bad:
        groups.setdefault((r[0], r[2][:60] if r[3] <= limit_s else 'slow'), []).append(r)
    for (d, what), rs in groups.items():
        r = rs[0]
        sql = sqls[(r[0], r[1])]
        run.counterexample('size:%s:%s:%s' % (d, what, r[1].split(' x ')[0]), '%s: parse_sql on %s (%d characters) -> %s in %.1fs (%d statements of the size family fail this way)' % (d, r[1], r[4], r[2], r[3], len(rs)),
                           {'size_family': {'dialect': d, 'label': r[1], 'sql_head': sql[:300], 'sql_len': len(sql)}}, True)
    run.ob('size-family:%d statements pumped x %d' % (len(res), N), 'counterexample' if bad else 'discharged',
           '%d trees, %d rejected with ParsingException, slowest %.1fs' % (sum(r[2] == 'tree' for r in res), sum(r[2] == 'rejected' for r in res), max(r[3] for r in res)))
