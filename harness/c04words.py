"""C04 - a plain identifier in the SQL text is ONE token holding exactly that text.  The CrossHair units take the ID rule on its own; which rule
of the lexer's master pattern wins at a position is a property of the whole rule list (order, look-aheads, word boundaries).  Two parts:
(z3) for every rule R that stands before ID in the live rule list, z3 searches a word of the ID language (<= 8 characters) with a proper prefix in
L(R) - a candidate for "R takes the beginning of an identifier"; (native) every candidate, and every word of <= 5 / 6 characters over a boundary
alphabet (letters incl. e / E and those of the reserved words AS / SET, digits, _ and $) that the live ID pattern matches, is lexed by the real lexer: it must come back as one token
spanning the word - an ID whose value is the word, or a word token (reserved word) spelled exactly like it."""
import re, itertools
import z3
from engines import sweep as SW
from engines.lexz3 import LexerModel

ALPHABET = ['a', 'e', 'E', 'x', 's', 't', '_', '$', '0', '7', '5']


def _zstr(t):
    return re.sub(r'\\u\{([0-9a-fA-F]+)\}', lambda m: chr(int(m.group(1), 16)), t)


def z3_candidates(L, maxlen=8, per_rule=2):
    lm = LexerModel(L)
    idx = lm.index_of('ID')
    idre = lm.rules[idx][2]
    out, unsupported = [], []
    if idre is None:
        return out, ['ID'], lm
    for name, pat, r, lb, tb in lm.rules[:idx]:
        if name.startswith('ignore'):
            continue
        if re.fullmatch(r'(\\b)?[A-Za-z_\[\]\\s|()?:+ ]+(\\b)?', pat):
            continue        # a word token (reserved word): whole-word captures are what reserved means; prefix captures before `$` are found natively
        if r is None:
            unsupported.append(name)
            continue
        p_, q_ = z3.String('p'), z3.String('q')
        found = []
        for _ in range(per_rule):
            res, m = lm.check(z3.InRe(z3.Concat(p_, q_), idre), z3.InRe(p_, r), z3.Length(q_) >= 1, z3.Length(p_) >= 1, z3.Length(p_) + z3.Length(q_) <= maxlen,
                              *[z3.Concat(p_, q_) != z3.StringVal(f) for f in found], timeout_ms=15000)
            if res != 'sat':
                break
            found.append(_zstr(m.eval(z3.Concat(p_, q_), model_completion=True).as_string()))
        out += [(name, w) for w in found]
    return out, unsupported, lm


def lex_problem(L, idpat, word):
    """None if `word` lexes as one token spanning it (ID with that value, or a word token spelled like it)"""
    try:
        toks = list(L().tokenize(word))
    except Exception as e:  # noqa
        return 'lexer raises %s' % type(e).__name__
    if len(toks) != 1:
        return 'lexed as %s' % [(t.type, str(t.value)) for t in toks][:4]
    t = toks[0]
    if t.type == 'ID':
        return None if str(t.value) == word else 'ID with value %r' % (t.value,)
    if str(t.value).upper() == word.upper() or re.fullmatch(r'[A-Za-z_]+', word):
        return None         # a reserved word / word operator spelled like the word
    return 'one %s token with value %r' % (t.type, t.value)


def _job(args):
    d, nmax = args
    import warnings
    warnings.filterwarnings('ignore')
    L, P = SW.dialect_classes(d)
    idpat = None
    for name, rule in L._rules:
        if name == 'ID':
            idpat = re.compile(rule.pattern if callable(rule) else rule, getattr(L, 'reflags', 0))
    cands, unsupported, lm = z3_candidates(L)
    n, bad = 0, {}
    for rname, w in cands:
        if idpat.fullmatch(w) and not w.startswith('`'):
            n += 1
            pr = lex_problem(L, idpat, w)
            if pr:
                bad.setdefault(pr.split(' ')[0] + ' ' + pr.split(' ')[1], []).append((w, pr, 'z3 candidate: a prefix is in L(%s)' % rname))
    for k in range(1, nmax + 1):
        for tup in itertools.product(ALPHABET, repeat=k):
            w = ''.join(tup)
            if not idpat.fullmatch(w):
                continue
            n += 1
            pr = lex_problem(L, idpat, w)
            if pr:
                cls = pr.split(' ')[0] + ' ' + pr.split(' ')[1]
                m_ = re.match(r"lexed as \[\('([A-Z_]+)', '([A-Za-z_]+)'\), \('ID', '\$", pr)
                if m_ and w.upper().startswith(m_.group(2).upper() + '$'):
                    cls = 'reserved-word-before-dollar'
                bad.setdefault(cls, []).append((w, pr, 'boundary alphabet'))
    return d, n, len(cands), unsupported, lm.queries, lm.solver_s, {k: sorted(v, key=lambda x: len(x[0]))[:3] + [len(v)] for k, v in bad.items()}


def add(run, tier):
    import multiprocessing as mp
    nmax = 5 if tier == 'quick' else 6
    with mp.get_context('fork').Pool(3) as pool:
        res = pool.map(_job, [(d, nmax) for d in SW.DIALECTS])
    for d, n, nc, unsupported, q, ss, bad in res:
        run.add_stats({'solver_calls': q, 'solver_s': ss})
        run.validated += n
        for cls, items in sorted(bad.items()):
            w, pr, origin = items[0]
            run.counterexample('identifier-word-not-one-token:%s:%s' % (d, cls), '%s: the identifier %r is %s (%d words fail this way; %s)' % (d, w, pr, items[-1], origin),
                               {'id_word': {'dialect': d, 'word': w}}, True)
        run.ob('identifier-words:%s:%d words of the live ID pattern (<= %d characters over an 11-character boundary alphabet, %d z3 candidates with a prefix in an earlier rule)' % (d, n, nmax, nc),
               'counterexample' if bad else 'discharged', ('rules before ID not translated (covered by the native words only): %s' % unsupported) if unsupported else None)


def replay(r):
    a = r['replay']['id_word']
    L, P = SW.dialect_classes(a['dialect'])
    pr = lex_problem(L, None, a['word'])
    print('native replay now: reproduced=%s %s' % (bool(pr), pr))
    return 1 if pr else 0
