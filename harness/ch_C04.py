"""CrossHair harness functions for C04 (token -> value kernels). Each function carries one PEP316
post-condition over calls of the REAL lexer / grammar actions; `*_reach` twins must be violated."""
import re
from sly.lex import Token
from mindsdb_sql.parser.lexer import SQLLexer
from mindsdb_sql.parser.parser import SQLParser
from mindsdb_sql.parser.dialects.mysql.lexer import MySQLLexer
from mindsdb_sql.parser.dialects.mysql.parser import MySQLParser
from mindsdb_sql.parser.dialects.mindsdb.lexer import MindsDBLexer
from mindsdb_sql.parser.dialects.mindsdb.parser import MindsDBParser
from mindsdb_sql.parser.ast.select.identifier import Identifier
from mindsdb_sql.parser.ast.select.constant import Constant
from engines.prodstub import find_production, apply_action
from refs.readers import read_quoted_mindsdb, read_quoted_plain, read_backquoted, split_path
import os

# Stub (recorded in the evidence): CrossHair realises the argument of a str-subclass constructor, so the lexer's
# Lexeme(value, raw) -- a str that also remembers its source text -- is modelled as its plain value here; the
# decoded value is what C04 is about (C16 checks .raw).
import mindsdb_sql.parser.dialects.mindsdb.lexer as _mlex
if hasattr(_mlex, 'Lexeme'):
    _mlex.Lexeme = lambda value, raw=None: value

N = int(os.environ.get('VERIF_STRLEN', '5'))
NDIG = int(os.environ.get('VERIF_NDIG', '6'))
DIG_RE = re.compile(r'[0-9]+')
ID_RE = re.compile(r'[a-zA-Z_$0-9]*[a-zA-Z_$]+[a-zA-Z_$0-9]*')

LEX = {'sqlite': SQLLexer, 'mysql': MySQLLexer, 'mindsdb': MindsDBLexer}
PAR = {'sqlite': SQLParser, 'mysql': MySQLParser, 'mindsdb': MindsDBParser}
_lexers = {k: v() for k, v in LEX.items()}
_parsers = {k: v() for k, v in PAR.items()}


def rule_of(dialect, name):
    """the live rule (pattern or action function) of the dialect's lexer"""
    for n, r in LEX[dialect]._rules:
        if n == name:
            return r
    raise KeyError(name)


def lex_action(dialect, name, lexeme):
    """apply the real lexer action of token `name` to a lexeme (SLY calls it with the Token)."""
    r = rule_of(dialect, name)
    t = Token()
    t.type, t.value, t.lineno, t.index, t.end = name, lexeme, 1, 0, len(lexeme)
    if callable(r):
        t = r(_lexers[dialect], t)
    return t


def decode_string(dialect, name, lexeme):
    t = lex_action(dialect, name, lexeme)
    act = PAR[dialect].quote_string if name == 'QUOTE_STRING' else PAR[dialect].dquote_string
    return act(_parsers[dialect], [t.value])


# ---- mindsdb quoted strings ----------------------------------------------------------------------

def sq_mindsdb(s: str) -> bool:
    """
    pre: len(s) <= N
    pre: read_quoted_mindsdb(s, "'") is not None
    post: _
    """
    return decode_string('mindsdb', 'QUOTE_STRING', s) == read_quoted_mindsdb(s, "'")


def sq_mindsdb_reach(s: str) -> bool:
    """
    pre: len(s) <= N
    pre: read_quoted_mindsdb(s, "'") is not None
    post: False
    """
    return decode_string('mindsdb', 'QUOTE_STRING', s) == read_quoted_mindsdb(s, "'")


def dq_mindsdb(s: str) -> bool:
    """
    pre: len(s) <= N
    pre: read_quoted_mindsdb(s, '"') is not None
    post: _
    """
    return decode_string('mindsdb', 'DQUOTE_STRING', s) == read_quoted_mindsdb(s, '"')


def dq_mindsdb_reach(s: str) -> bool:
    """
    pre: len(s) <= N
    pre: read_quoted_mindsdb(s, '"') is not None
    post: False
    """
    return decode_string('mindsdb', 'DQUOTE_STRING', s) == read_quoted_mindsdb(s, '"')


# ---- sqlite / mysql quoted strings (no escapes) -----------------------------------------------------

def q_plain(s: str, which: int) -> bool:
    """
    pre: len(s) <= N + 1
    pre: 0 <= which < 4
    pre: read_quoted_plain(s, "'" if which % 2 == 0 else '"') is not None
    post: _
    """
    d = 'sqlite' if which < 2 else 'mysql'
    q, name = ("'", 'QUOTE_STRING') if which % 2 == 0 else ('"', 'DQUOTE_STRING')
    return decode_string(d, name, s) == read_quoted_plain(s, q)


def q_plain_reach(s: str, which: int) -> bool:
    """
    pre: len(s) <= N + 1
    pre: 0 <= which < 4
    pre: read_quoted_plain(s, "'" if which % 2 == 0 else '"') is not None
    post: False
    """
    d = 'sqlite' if which < 2 else 'mysql'
    q, name = ("'", 'QUOTE_STRING') if which % 2 == 0 else ('"', 'DQUOTE_STRING')
    return decode_string(d, name, s) == read_quoted_plain(s, q)


# ---- integers --------------------------------------------------------------------------------------

def _const_from_int_lexeme(dialect, lexeme, negate):
    P, p = PAR[dialect], _parsers[dialect]
    v = apply_action(p, find_production(P, 'integer', ['INTEGER']), [lexeme])
    c = apply_action(p, find_production(P, 'constant', ['integer']), [v])
    if negate:
        c = apply_action(p, minus_constant(dialect), ['-', c])
    return c


def minus_constant(dialect):
    """the real production `constant : MINUS constant` of the live grammar (None if the dialect has none)"""
    return find_production(PAR[dialect], 'constant', ['MINUS', 'constant'])


def _digits(s):
    if len(s) == 0:
        return False
    for ch in s:
        if not ('0' <= ch <= '9'):
            return False
    return True


def _ref_int(s):
    v = 0
    for ch in s:
        v = v * 10 + (ord(ch) - 48)
    return v


def int_value(s: str, which: int, negate: bool) -> bool:
    """
    pre: len(s) <= NDIG
    pre: 0 <= which < 3
    pre: DIG_RE.fullmatch(s) is not None
    post: _
    """
    d = ('sqlite', 'mysql', 'mindsdb')[which]
    if negate and minus_constant(d) is None:
        return True
    c = _const_from_int_lexeme(d, s, negate)
    n = _ref_int(s)
    return type(c.value) is int and c.value == (-n if negate else n)


def int_value_reach(s: str, which: int, negate: bool) -> bool:
    """
    pre: len(s) <= NDIG
    pre: 0 <= which < 3
    pre: DIG_RE.fullmatch(s) is not None
    post: False
    """
    d = ('sqlite', 'mysql', 'mindsdb')[which]
    c = _const_from_int_lexeme(d, s, negate and minus_constant(d) is not None)
    return type(c.value) is int


# ---- identifiers -----------------------------------------------------------------------------------

def _id_shape(s):
    """bare identifier token shape: [a-zA-Z_$0-9]* with at least one of [a-zA-Z_$] (written without re)"""
    if len(s) == 0:
        return False
    has = False
    for ch in s:
        if ('a' <= ch <= 'z') or ('A' <= ch <= 'Z') or ch == '_' or ch == '$':
            has = True
        elif '0' <= ch <= '9':
            pass
        else:
            return False
    return has


def id_token(s: str, which: int) -> bool:
    """
    pre: len(s) <= N
    pre: 0 <= which < 3
    pre: ID_RE.fullmatch(s) is not None or read_backquoted(s) is not None
    post: _
    """
    d = ('sqlite', 'mysql', 'mindsdb')[which]
    t = lex_action(d, 'ID', s)
    node = apply_action(_parsers[d], _identifier_action(d, 'id'), [t.value])
    want = [s] if s[0] != '`' else [read_backquoted(s)]
    return node.parts == want


def id_token_reach(s: str, which: int) -> bool:
    """
    pre: len(s) <= N
    pre: 0 <= which < 3
    pre: ID_RE.fullmatch(s) is not None or read_backquoted(s) is not None
    post: False
    """
    d = ('sqlite', 'mysql', 'mindsdb')[which]
    t = lex_action(d, 'ID', s)
    node = apply_action(_parsers[d], _identifier_action(d, 'id'), [t.value])
    return node.parts == [s]


def path_str(s: str) -> bool:
    """
    pre: len(s) <= N + 1
    pre: split_path(s) is not None
    post: _
    """
    return Identifier(s).parts == split_path(s)


def path_str_reach(s: str) -> bool:
    """
    pre: len(s) <= N + 1
    pre: split_path(s) is not None
    post: False
    """
    return Identifier(s).parts == split_path(s)


def _identifier_action(dialect, symbol):
    """the real production `identifier : id | dquote_string` (looked up in the live grammar)"""
    return find_production(PAR[dialect], 'identifier', [symbol])


class _P1:
    """stub production with one child, addressable by index and by name"""
    def __init__(self, name, value):
        self._n, self._v = name, value
        setattr(self, name, value)

    def __getitem__(self, i):
        if i != 0:
            raise IndexError(i)
        return self._v

    def __len__(self):
        return 1


def dq_identifier(s: str, which: int) -> bool:
    """
    pre: len(s) <= N
    pre: 0 <= which < 2
    pre: len(s) >= 3
    pre: read_quoted_plain(s, '"') is not None
    pre: (chr(92) not in s) and ('`' not in s)
    post: _
    """
    # a double-quoted name used as an identifier: one part, exactly the characters between the quotes
    d = ('mysql', 'mindsdb')[which]
    act = _identifier_action(d, 'dquote_string')
    if act is None:
        return True
    t = lex_action(d, 'DQUOTE_STRING', s)
    val = PAR[d].dquote_string(_parsers[d], [t.value])
    node = apply_action(_parsers[d], act, [val])
    return node.parts == [s[1:len(s) - 1]]


def dq_identifier_reach(s: str, which: int) -> bool:
    """
    pre: len(s) <= N
    pre: 0 <= which < 2
    pre: len(s) >= 3
    pre: read_quoted_plain(s, '"') is not None
    pre: (chr(92) not in s) and ('`' not in s)
    post: False
    """
    d = ('mysql', 'mindsdb')[which]
    act = _identifier_action(d, 'dquote_string')
    t = lex_action(d, 'DQUOTE_STRING', s)
    val = PAR[d].dquote_string(_parsers[d], [t.value])
    node = apply_action(_parsers[d], act, [val])
    return node.parts == [s[1:len(s) - 1]]


# ---- variables -------------------------------------------------------------------------------------

def _var_pattern(dialect, name):
    r = rule_of(dialect, name)
    return re.compile(r.pattern if callable(r) else r)


VAR_RE = {(d, n): _var_pattern(d, n) for d in ('mysql', 'mindsdb') for n in ('VARIABLE', 'SYSTEM_VARIABLE')}


def _var_name(s, nsig):
    """what the variable token denotes: text after the sigil(s), minus one pair of enclosing quotes"""
    rest = s[nsig:]
    if rest[0] == "'" or rest[0] == '"' or rest[0] == '`':
        return rest[1:len(rest) - 1]
    return rest


def variable_token(s: str, which: int) -> bool:
    """
    pre: len(s) <= N + 1
    pre: 0 <= which < 4
    pre: VAR_RE[(('mysql', 'mindsdb')[which % 2], ('VARIABLE', 'SYSTEM_VARIABLE')[which // 2])].fullmatch(s) is not None
    post: _
    """
    d, name = ('mysql', 'mindsdb')[which % 2], ('VARIABLE', 'SYSTEM_VARIABLE')[which // 2]
    t = lex_action(d, name, s)
    return t.value == _var_name(s, 1 + which // 2)


def variable_token_reach(s: str, which: int) -> bool:
    """
    pre: len(s) <= N + 1
    pre: 0 <= which < 4
    pre: VAR_RE[(('mysql', 'mindsdb')[which % 2], ('VARIABLE', 'SYSTEM_VARIABLE')[which // 2])].fullmatch(s) is not None
    post: False
    """
    d, name = ('mysql', 'mindsdb')[which % 2], ('VARIABLE', 'SYSTEM_VARIABLE')[which // 2]
    t = lex_action(d, name, s)
    return t.value == _var_name(s, 1 + which // 2)


# ---- joining of dotted paths: identifier DOT (identifier | integer | dquote_string) ---------------------------------
def _dot_action(dialect, tail):
    return find_production(PAR[dialect], 'identifier', ['identifier', 'DOT', tail])


def _dot_join(d, tail_symbol, tail_value):
    act = _dot_action(d, tail_symbol)
    if act is None:
        return None
    head = Identifier(parts=['h1', 'h2'])
    node = apply_action(_parsers[d], act, [head, '.', tail_value])
    return node.parts


def dot_dquote(s: str, which: int) -> bool:
    """
    pre: len(s) <= N
    pre: 0 <= which < 2
    pre: len(s) >= 3
    pre: read_quoted_plain(s, '"') is not None
    pre: (chr(92) not in s)
    post: _
    """
    # h1.h2."text": the quoted text is ONE further part, whatever it contains (dots, back-quotes, spaces)
    d = ('mysql', 'mindsdb')[which]
    if _dot_action(d, 'dquote_string') is None:
        return True
    t = lex_action(d, 'DQUOTE_STRING', s)
    val = PAR[d].dquote_string(_parsers[d], [t.value])
    return _dot_join(d, 'dquote_string', val) == ['h1', 'h2', s[1:len(s) - 1]]


def dot_identifier(s: str, which: int) -> bool:
    """
    pre: len(s) <= N
    pre: 0 <= which < 3
    pre: ID_RE.fullmatch(s) is not None or read_backquoted(s) is not None
    post: _
    """
    # h1.h2.name: the ID token is one further part (back-quotes removed once, nothing else split)
    d = ('sqlite', 'mysql', 'mindsdb')[which]
    if _dot_action(d, 'identifier') is None:
        return True
    t = lex_action(d, 'ID', s)
    tail = apply_action(_parsers[d], _identifier_action(d, 'id'), [t.value])
    want = [s] if s[0] != '`' else [read_backquoted(s)]
    return _dot_join(d, 'identifier', tail) == ['h1', 'h2'] + want


def dot_integer(n: int, which: int) -> bool:
    """
    pre: 0 <= n < 100000
    pre: 0 <= which < 3
    post: _
    """
    d = ('sqlite', 'mysql', 'mindsdb')[which]
    if _dot_action(d, 'integer') is None:
        return True
    return _dot_join(d, 'integer', n) == ['h1', 'h2', str(n)]


def dot_reach(s: str, which: int) -> bool:
    """
    pre: len(s) <= N
    pre: 0 <= which < 2
    pre: len(s) >= 3
    pre: read_quoted_plain(s, '"') is not None
    pre: (chr(92) not in s)
    post: False
    """
    d = ('mysql', 'mindsdb')[which]
    t = lex_action(d, 'DQUOTE_STRING', s)
    val = PAR[d].dquote_string(_parsers[d], [t.value])
    return _dot_join(d, 'dquote_string', val) == ['h1', 'h2', s[1:len(s) - 1]]


# ---- what the real parse_sql does to the text BEFORE lexing: a quoted literal / quoted name in the statement reaches the lexer unchanged -------------
class _RecLexer:
    def __init__(self, rec):
        self.rec = rec

    def tokenize(self, text):
        self.rec.append(text)
        return iter(())


class _NullParser:
    def parse(self, tokens):
        from mindsdb_sql.parser.ast.select.select import Select
        return Select(targets=[])


def _prelex(sql):
    import mindsdb_sql
    rec = []
    mindsdb_sql.get_lexer_parser = lambda d: (_RecLexer(rec), _NullParser())
    mindsdb_sql.parse_sql(sql, 'mindsdb')
    return rec[0]


def _prelex_sql(body, q, tail):
    quote = ("'", '"', '`')[q]
    return 'SELECT ' + quote + body + quote + ('', ';', ' ;\n', '\n')[tail]


def prelex_quoted(body: str, q: int, tail: int) -> bool:
    """
    pre: len(body) <= 4
    pre: 0 <= q <= 2
    pre: 0 <= tail <= 3
    post: _
    """
    quote = ("'", '"', '`')[q]
    return _prelex(_prelex_sql(body, q, tail)) == 'SELECT ' + quote + body + quote


def prelex_quoted_reach(body: str, q: int, tail: int) -> bool:
    """
    pre: len(body) <= 4
    pre: 0 <= q <= 2
    pre: 0 <= tail <= 3
    post: False
    """
    return len(_prelex(_prelex_sql(body, q, tail))) >= 0
