"""C04 — tokens keep exactly the denoted value.  Engine: CH (CrossHair on the real lexer actions and grammar
actions, lexeme symbolic, constrained by the live lexer's own regex), see DESIGN 4/C04."""
import os, json
from engines.common import Run, ch_obligations, VERIF
from refs.readers import read_quoted_mindsdb, read_quoted_plain, split_path, printable_string_value

HARNESS = os.path.join(VERIF, 'harness', 'ch_C04.py')
DIALECTS = ('sqlite', 'mysql', 'mindsdb')


def _parse(sql, dialect):
    from mindsdb_sql import parse_sql
    try:
        return parse_sql(sql, dialect), None
    except Exception as e:  # noqa
        return None, e


def _internal(e):
    from mindsdb_sql.exceptions import ParsingException
    from sly.lex import LexError
    return e is not None and not isinstance(e, (ParsingException, LexError))


def replay_string(q, dialect, ref):
    def f(args):
        s = args['s']
        d = dialect if dialect else ('sqlite', 'sqlite', 'mysql', 'mysql')[args['which']]
        qq = q if q else ("'" if args['which'] % 2 == 0 else '"')
        want = ref(s, qq)
        ast, err = _parse('SELECT ' + s, d)
        info = {'sql': 'SELECT ' + s, 'dialect': d, 'denoted': want}
        if ast is None:
            info['error'] = repr(err)[:200]
            return _internal(err), info, 'string-literal:%s:%s:internal-error' % (d, 'sq' if qq == "'" else 'dq'), \
                'literal %r crashes the parser' % s
        got = getattr(ast.targets[0], 'value', None)
        info['observed'] = got
        key = 'string-literal:%s:%s:%s' % (d, 'sq' if qq == "'" else 'dq', classify_string_lexeme(s))
        return got != want, info, key, 'literal %s denotes %r but the tree holds %r (%s)' % (s, want, got, d)
    return f


def classify_string_lexeme(s):
    body = s[1:-1]
    if body.startswith(s[0]) or body.endswith(s[0]):
        return 'quote-at-edge'
    if '\\' in body:
        return 'backslash'
    return 'other'


def replay_int(args):
    d = DIALECTS[args['which']]
    s, neg = args['s'], args['negate']
    sql = 'SELECT %s%s' % ('-' if neg else '', s)
    ast, err = _parse(sql, d)
    want = -int(s) if neg else int(s)
    info = {'sql': sql, 'dialect': d, 'denoted': want}
    if ast is None:
        info['error'] = repr(err)[:200]
        return _internal(err), info, 'integer:%s:internal-error' % d, 'integer literal crashes'
    t = ast.targets[0]
    got = getattr(t, 'value', None)
    info['observed'] = repr(t)
    return got != want, info, 'integer:%s' % d, 'integer literal %s denotes %r, tree holds %r' % (sql, want, got)


def replay_id(args):
    d = DIALECTS[args['which']]
    s = args['s']
    sql = 'SELECT %s FROM t' % s
    ast, err = _parse(sql, d)
    want = [s] if s[0] != '`' else [s[1:-1]]
    info = {'sql': sql, 'dialect': d, 'denoted': want}
    if ast is None:
        info['error'] = repr(err)[:200]
        return _internal(err), info, 'identifier:%s:internal-error' % d, 'identifier crashes'
    got = getattr(ast.targets[0], 'parts', None)
    info['observed'] = got
    # a keyword-shaped word is legitimately not an identifier; only a kept-but-changed name counts
    return got is not None and got != want, info, 'identifier:%s' % d, 'identifier %s parsed as parts %r' % (s, got)


def replay_path(args):
    from mindsdb_sql.parser.ast import Identifier
    s = args['s']
    want = split_path(s)
    try:
        got = Identifier(s).parts
    except Exception as e:  # noqa
        got = repr(e)
    return got != want, {'path_str': s, 'denoted': want, 'observed': got}, 'identifier-path-str', \
        'Identifier(%r).parts == %r, expected %r' % (s, got, want)


def replay_dq_identifier(args):
    d = ('mysql', 'mindsdb')[args['which']]
    s = args['s']
    sql = 'SELECT * FROM %s' % s
    ast, err = _parse(sql, d)
    want = [s[1:-1]]
    info = {'sql': sql, 'dialect': d, 'denoted': want}
    if ast is None:
        info['error'] = repr(err)[:200]
        return _internal(err), info, 'dquote-identifier:%s:internal-error' % d, \
            'double-quoted identifier %s raises %s' % (s, type(err).__name__)
    got = getattr(ast.from_table, 'parts', None)
    info['observed'] = got
    return got != want, info, 'dquote-identifier:%s:split' % d, 'double-quoted identifier %s parsed as parts %r' % (s, got)


def replay_dot(kind):
    def replay(args):
        which = args['which']
        if kind == 'dquote':
            d = ('mysql', 'mindsdb')[which]
            tail, want = args['s'], [args['s'][1:-1]]
        elif kind == 'identifier':
            d = ('sqlite', 'mysql', 'mindsdb')[which]
            tail = args['s']
            want = [tail] if tail[0] != '`' else [tail[1:-1]]
        else:
            d = ('sqlite', 'mysql', 'mindsdb')[which]
            tail, want = str(args['n']), [str(args['n'])]
        sql = 'SELECT * FROM h1.h2.%s' % tail
        ast, err = _parse(sql, d)
        want = ['h1', 'h2'] + want
        info = {'sql': sql, 'dialect': d, 'denoted': want}
        if ast is None:
            info['error'] = repr(err)[:200]
            return _internal(err), info, 'dotted-path:%s:%s:internal-error' % (d, kind), 'dotted path %s raises %s' % (sql, type(err).__name__)
        got = getattr(ast.from_table, 'parts', None)
        info['observed'] = got
        return got != want, info, 'dotted-path:%s:%s' % (d, kind), '%s: %s parsed as parts %r, denoted %r' % (d, sql, got, want)
    return replay


def replay_variable(args):
    d = ('mysql', 'mindsdb')[args['which'] % 2]
    s = args['s']
    nsig = 1 + args['which'] // 2
    rest = s[nsig:]
    want = rest[1:-1] if rest[0] in '\'"`' else rest
    sql = 'SELECT %s' % s
    ast, err = _parse(sql, d)
    info = {'sql': sql, 'dialect': d, 'denoted': want}
    if ast is None:
        info['error'] = repr(err)[:200]
        return _internal(err), info, 'variable:%s:internal-error' % d, 'variable crashes'
    got = getattr(ast.targets[0], 'value', None)
    info['observed'] = got
    return got != want, info, 'variable:%s' % d, 'variable %s holds %r' % (s, got)


def replay_prelex(args):
    """first through the public API (the literal's value in the tree of the real parser, when the content has no quote / back-slash
    characters and the statement parses); otherwise the text the real parse_sql hands to the lexer"""
    body, q, tail = args['body'], args['q'], args['tail']
    quote = ("'", '"', '`')[q]
    info = {'body': body, 'quote': quote}
    end = ('', ';', ' ;\n', '\n')[tail]
    if not any(ch in body for ch in '\'"`\\'):
        sql = ('SELECT 1 FROM ' if q == 2 else 'SELECT ') + quote + body + quote + end
        ast, err = _parse(sql, 'mindsdb')
        if ast is not None:
            node = ast.from_table if q == 2 else ast.targets[0]
            got = node.parts[-1] if hasattr(node, 'parts') else getattr(node, 'value', None)
            if got != body:
                info.update(sql=sql, observed=got)
                return True, info, 'prelex', 'literal %r in %r holds %r' % (body, sql, got)
    import importlib
    import mindsdb_sql
    m = importlib.import_module('harness.ch_C04')
    sql = m._prelex_sql(body, q, tail)
    saved = mindsdb_sql.get_lexer_parser
    try:
        text = m._prelex(sql)
    finally:
        mindsdb_sql.get_lexer_parser = saved
    info.update(sql=sql, text_handed_to_lexer=text)
    return text != 'SELECT ' + quote + body + quote, info, 'prelex', 'parse_sql hands %r to the lexer for %r' % (text, sql)


def specs(tier):
    return [
        dict(fn='prelex_quoted', twin='prelex_quoted_reach', replay=replay_prelex),
        dict(fn='sq_mindsdb', twin='sq_mindsdb_reach', replay=replay_string("'", 'mindsdb', read_quoted_mindsdb)),
        dict(fn='dq_mindsdb', twin='dq_mindsdb_reach', replay=replay_string('"', 'mindsdb', read_quoted_mindsdb)),
        dict(fn='q_plain', twin='q_plain_reach', replay=replay_string(None, None, read_quoted_plain)),
        dict(fn='int_value', twin='int_value_reach', replay=replay_int),
        dict(fn='id_token', twin='id_token_reach', replay=replay_id),
        dict(fn='path_str', twin='path_str_reach', replay=replay_path),
        dict(fn='dq_identifier', twin='dq_identifier_reach', replay=replay_dq_identifier),
        dict(fn='variable_token', twin='variable_token_reach', replay=replay_variable),
        dict(fn='dot_dquote', twin='dot_reach', replay=replay_dot('dquote')),
        dict(fn='dot_identifier', twin='dot_reach', replay=replay_dot('identifier')),
        dict(fn='dot_integer', twin='dot_reach', replay=replay_dot('integer')),
    ]


def run(tier):
    run = Run('C04', tier)
    n = 5 if tier == 'quick' else 7
    os.environ['VERIF_STRLEN'] = str(n)
    os.environ['VERIF_NDIG'] = '6' if tier == 'quick' else '9'
    run.bounds = {'lexeme_len_max': n, 'digits_max': int(os.environ['VERIF_NDIG']), 'alphabet': 'all Unicode code points (CrossHair str)'}
    run.functions = ['MindsDBLexer.QUOTE_STRING/DQUOTE_STRING/ID/VARIABLE/SYSTEM_VARIABLE (live rule actions)',
                     'SQLLexer/MySQLLexer same rules', '<Parser>.quote_string', '<Parser>.dquote_string',
                     'mindsdb_sql.parse_sql (the text handed to the lexer)', '<Parser>.integer', 'constant: integer', 'constant: MINUS constant', 'identifier: id',
                     'identifier: dquote_string', 'Identifier.__init__/path_str_to_parts']
    run.assumptions = [
        'lexeme is constrained by the live lexer rule of its kind (re.fullmatch of the rule pattern) or by the reference reader accepting it as exactly one literal',
        'a quoted lexeme that the reference reader does not read as exactly one complete literal (ambiguous back-slash/quote pairing) is outside the claim',
        'which rule of the master regex takes a lexeme: for identifier-shaped words the identifier-word part (native over a boundary alphabet + z3 candidates for non-keyword rules before ID); for printed atoms C01 (LEXZ3)',
        'float literals: conversion is CPython float(); not reasoned about symbolically',
    ]
    ch_obligations(run, HARNESS, specs(tier), cond_to=100 if tier == 'quick' else 600)
    # the converse direction (a value placed in a tree prints to text that denotes it): the identifier lemmas are shared with C01
    os.environ['VERIF_STRLEN'] = '4' if tier == 'quick' else '5'
    ch_obligations(run, print_side()[0], print_side()[1], cond_to=150 if tier == 'quick' else 900)
    from harness import C01
    C01.ident_boundary(run, name='print-side:ident_atom[native boundary alphabet]')
    # which rule of the live rule list takes an identifier-shaped word
    try:
        from harness import c04words
        c04words.add(run, tier)
        run.functions.append('<Lexer>.tokenize on identifier-shaped words (live rule order, look-aheads, word boundaries)')
    except Exception as e:  # noqa
        import traceback
        run.error('identifier-word part crashed: %r %s' % (e, traceback.format_exc()[-300:]))
    run.finish()


def print_side():
    from harness import C01
    return C01.HARNESS, [dict(fn='ident_atom', twin='ident_atom_reach', replay=C01.r_ident, name='print-side:ident_atom'),
                         dict(fn='path_atom', twin=None, replay=C01.r_ident, name='print-side:path_atom')]


def replay(path):
    r = json.load(open(path))
    print(json.dumps(r, indent=1))
    if r['replay'].get('id_word'):
        from harness import c04words
        return c04words.replay(r)
    h = r['replay']['harness']
    for s in specs('quick') + print_side()[1]:
        if s['fn'] == h or s.get('name') == h:
            rep, info, key, what = s['replay'](r['replay']['args'])
            print('native replay now: reproduced=%s %s' % (rep, json.dumps(info, default=repr)))
            return 1 if rep else 0
    return 2
