"""CrossHair harness for C16: real tokens_to_string over tokens produced by the real lexer actions."""
import os, re
from sly.lex import Token
from mindsdb_sql.parser.utils import tokens_to_string
from mindsdb_sql.parser.dialects.mindsdb.lexer import MindsDBLexer
from refs.readers import read_quoted_mindsdb

N = int(os.environ.get('VERIF_STRLEN', '4'))
_lx = MindsDBLexer()

# Stub (recorded in the evidence): CrossHair realises the argument of a str-subclass constructor, so in the
# symbolic content harnesses the lexer's Lexeme(value, raw) is replaced by a plain holder with the same .raw;
# the layout harness below runs the real class natively.
import mindsdb_sql.parser.dialects.mindsdb.lexer as _mlex
_RealLexeme = getattr(_mlex, 'Lexeme', None)


class _Holder:
    def __init__(self, value, raw=None):
        self.value, self.raw = value, raw


def _stub_on():
    if _RealLexeme is not None:
        _mlex.Lexeme = _Holder


def _stub_off():
    if _RealLexeme is not None:
        _mlex.Lexeme = _RealLexeme


def rule_of(name):
    for n, r in MindsDBLexer._rules:
        if n == name:
            return r
    raise KeyError(name)


def tok(name, lexeme, lineno, index):
    t = Token()
    t.type, t.value, t.lineno, t.index, t.end = name, lexeme, lineno, index, index + len(lexeme)
    r = rule_of(name)
    if callable(r):
        t = r(_lx, t)
    return t


VAR_RE = re.compile(rule_of('VARIABLE').pattern)
SVAR_RE = re.compile(rule_of('SYSTEM_VARIABLE').pattern)
ID_RE = re.compile(r'[a-zA-Z_$0-9]*[a-zA-Z_$]+[a-zA-Z_$0-9]*')
NUM_RE = re.compile(r'[0-9]+(\.[0-9]+)?')


def _layout(mid_name, s, gap1, gap2, nl1, nl2, pos=1):
    """source text of three tokens `select`, LEXEME, `x` with the lexeme at position pos (0 first, 1 middle, 2 last), separated by
    <gap1> / <gap2> with optional line breaks, and the token list the lexer yields for it"""
    sep1 = ('\n' if nl1 else '') + ' ' * gap1
    sep2 = ('\n' if nl2 else '') + ' ' * gap2
    kinds = [('SELECT', 'select'), ('ID', 'x')]
    kinds.insert(pos, (mid_name, s))
    src, toks, line, idx = '', [], 1, 0
    for k, (name, lexeme) in enumerate(kinds):
        if k > 0:
            sep = sep1 if k == 1 else sep2
            src += sep
            idx += len(sep)
            line += 1 if (nl1 if k == 1 else nl2) else 0
        toks.append(tok(name, lexeme, line, idx))      # (the real lexer does not advance lineno for line breaks INSIDE a token)
        src += lexeme
        idx += len(lexeme)
    return src, toks


def _norm(text):
    return ' '.join(text.split())


def _ci(n, hi):
    for v in range(hi + 1):
        if n == v:
            return v
    return hi


def _check(mid_name, s, gap1, gap2, nl1, nl2, pos=1):
    gap1, gap2, nl1, nl2, pos = _ci(gap1, 2), _ci(gap2, 2), (True if nl1 else False), (True if nl2 else False), _ci(pos, 2)
    _stub_on()
    try:
        src, toks = _layout(mid_name, s, gap1, gap2, nl1, nl2, pos)
    finally:
        _stub_off()
    out = tokens_to_string(toks)
    # without comments the layout is reproduced exactly, so the stored text is the source text
    return out == src


def quote_string(s: str, pos: int) -> bool:
    """
    pre: 0 <= pos <= 2
    pre: len(s) <= N
    pre: read_quoted_mindsdb(s, "'") is not None
    post: _
    """
    return _check('QUOTE_STRING', s, 1, 1, False, False, pos)


def dquote_string(s: str, pos: int) -> bool:
    """
    pre: 0 <= pos <= 2
    pre: len(s) <= N
    pre: read_quoted_mindsdb(s, '"') is not None
    post: _
    """
    return _check('DQUOTE_STRING', s, 1, 1, False, False, pos)


def variable(s: str, pos: int) -> bool:
    """
    pre: 0 <= pos <= 2
    pre: len(s) <= N + 1
    pre: VAR_RE.fullmatch(s) is not None and chr(10) not in s
    post: _
    """
    return _check('VARIABLE', s, 1, 1, False, False, pos)


def system_variable(s: str, pos: int) -> bool:
    """
    pre: 0 <= pos <= 2
    pre: len(s) <= N + 2
    pre: SVAR_RE.fullmatch(s) is not None and chr(10) not in s
    post: _
    """
    return _check('SYSTEM_VARIABLE', s, 1, 1, False, False, pos)


def identifier(s: str, pos: int) -> bool:
    """
    pre: 0 <= pos <= 2
    pre: len(s) <= N
    pre: ID_RE.fullmatch(s) is not None
    post: _
    """
    return _check('ID', s, 1, 1, False, False, pos)


def number(s: str, pos: int) -> bool:
    """
    pre: 0 <= pos <= 2
    pre: len(s) <= N + 1
    pre: NUM_RE.fullmatch(s) is not None
    post: _
    """
    return _check('FLOAT' if '.' in s else 'INTEGER', s, 1, 1, False, False, pos)


def reach(s: str, pos: int) -> bool:
    """
    pre: 0 <= pos <= 2
    pre: len(s) <= N
    pre: read_quoted_mindsdb(s, "'") is not None and chr(10) not in s
    post: False
    """
    return _check('QUOTE_STRING', s, 1, 1, False, False, pos)


# ---- layout: concrete lexemes of every kind, symbolic geometry, real lexer natively on each leaf --------------
from crosshair.tracers import NoTracing
LEXEMES = ["'it''s'", "''", "'a\\'b'", '"d\\"q"', '@x', "@'a b'", '@@y', '1.50', '007', 'Na_me', '`a b`',
           "'first\n  second'", '"x\n\ny"', '`p\n q`', "'tab\there  two  spaces'"]
COMMENTS = ['', '/* c */', '-- c\n']


def layout_leaf(k, gap1, gap2, nl1, nl2, c1, c2, pos=1):
    lex = LEXEMES[k]
    sep1 = ' ' * gap1 + COMMENTS[c1] + ('\n' if nl1 else '') + ' ' * gap2
    sep2 = ' ' * gap2 + COMMENTS[c2] + ('\n\n' if nl2 else '') + ' ' * gap1
    if sep1 == '':
        sep1 = ' '
    if sep2 == '':
        sep2 = ' '
    src = [lex + sep1 + 'x' + sep2 + ', 2', 'select' + sep1 + lex + sep2 + 'x, 2', 'select' + sep1 + 'x,' + sep2 + lex][pos]
    return _verbatim(src)


def _verbatim(src):
    toks = list(MindsDBLexer().tokenize(src))
    out = tokens_to_string(toks)
    # every token's source text (the slice of the source the lexer matched, not what the token says about itself) must occur verbatim,
    # in order, in the stored text, separated only by whitespace
    pos = 0
    for t in toks:
        raw = src[t.index:t.end]
        while pos < len(out) and out[pos] in ' \t\r\n':
            pos += 1
        if not out.startswith(raw, pos):
            return False
        pos += len(raw)
    if out[pos:].strip() != '':
        return False
    # and the stored text tokenises to the same decoded values
    toks2 = list(MindsDBLexer().tokenize(out))
    return [(t.type, str(t.value)) for t in toks2] == [(t.type, str(t.value)) for t in toks]


# two value tokens in one inner query, including different spellings of the same value (quote style, escape style, sigils, number spelling)
PAIR_LEXEMES = LEXEMES + ["'O''Neil'", "'O\\'Neil'", '"O\'Neil"', "@'my var'", '@"my var"', '@@autocommit', '@autocommit', "'x'", '"x"', '@x', '@@x',
                          '1.5', '7', '""', "'1.5'", "'@x'", 'x', '`x`', '"a b"', "'a b'"]


def pair_leaf(ka, kb, gap, nl):
    a, b = PAIR_LEXEMES[ka], PAIR_LEXEMES[kb]
    sep = ' ' * gap + ('\n' if nl else '')
    # .. and the two tokens next to each other with nothing but blanks / a line break between them (b reads as an alias of a, or the query is
    # not valid SQL at all: a raw inner query is stored, not parsed)
    adj = sep if sep else ' '
    return _verbatim('select ' + a + sep + ',' + sep + ' ' + b + ' from t') and _verbatim('select f(' + b + ', ' + a + ') from t where c = ' + a) \
        and _verbatim('select ' + a + adj + b + ' from t') and _verbatim('select ' + a + adj + b + adj + a)


def pair(ka: int, kb: int, gap: int, nl: bool) -> bool:
    """
    pre: 0 <= ka < NPAIR and 0 <= kb < NPAIR and 0 <= gap <= 1
    post: _
    """
    ka, kb, gap = _ci(ka, NPAIR - 1), _ci(kb, NPAIR - 1), _ci(gap, 1)
    nl = True if nl else False
    with NoTracing():
        return pair_leaf(ka, kb, gap, nl)


def pair_reach(ka: int, kb: int, gap: int, nl: bool) -> bool:
    """
    pre: 0 <= ka < NPAIR and 0 <= kb < NPAIR and 0 <= gap <= 1
    post: False
    """
    return pair(ka, kb, gap, nl)


NPAIR = len(PAIR_LEXEMES)


def _layout_at(k, gap1, gap2, nl1, nl2, c1, c2, pos):
    k, gap1, gap2, c1, c2 = _ci(k, 14), _ci(gap1, 2), _ci(gap2, 2), _ci(c1, 2), _ci(c2, 2)
    nl1, nl2 = (True if nl1 else False), (True if nl2 else False)
    with NoTracing():
        return layout_leaf(k, gap1, gap2, nl1, nl2, c1, c2, pos)


def layout(k: int, gap1: int, gap2: int, nl1: bool, nl2: bool, c1: int, c2: int) -> bool:
    """
    pre: 0 <= k < 15 and 0 <= gap1 <= 2 and 0 <= gap2 <= 2 and 0 <= c1 <= 2 and 0 <= c2 <= 2
    post: _
    """
    return _layout_at(k, gap1, gap2, nl1, nl2, c1, c2, 1)


def layout_first(k: int, gap1: int, gap2: int, nl1: bool, nl2: bool, c1: int, c2: int) -> bool:
    """
    pre: 0 <= k < 15 and 0 <= gap1 <= 2 and 0 <= gap2 <= 2 and 0 <= c1 <= 2 and 0 <= c2 <= 2
    post: _
    """
    return _layout_at(k, gap1, gap2, nl1, nl2, c1, c2, 0)


def layout_last(k: int, gap1: int, gap2: int, nl1: bool, nl2: bool, c1: int, c2: int) -> bool:
    """
    pre: 0 <= k < 15 and 0 <= gap1 <= 2 and 0 <= gap2 <= 2 and 0 <= c1 <= 2 and 0 <= c2 <= 2
    post: _
    """
    return _layout_at(k, gap1, gap2, nl1, nl2, c1, c2, 2)


def layout_reach(k: int, gap1: int, gap2: int, nl1: bool, nl2: bool, c1: int, c2: int) -> bool:
    """
    pre: 0 <= k < 15 and 0 <= gap1 <= 2 and 0 <= gap2 <= 2 and 0 <= c1 <= 2 and 0 <= c2 <= 2
    post: False
    """
    return _layout_at(k, gap1, gap2, nl1, nl2, c1, c2, 2)


# ---- the stage after tokens_to_string: the AST constructors that take the raw text (found by reflection) must store it unchanged (up to white
# space outside the tokens); the text is `select <symbolic lexeme> x` (or with a second statement after a `;`)
def _constructors():
    import inspect
    import mindsdb_sql.parser.dialects.mindsdb as M
    from mindsdb_sql.parser import ast as A
    from mindsdb_sql.parser.ast.base import ASTNode
    out = []
    pool = dict(vars(A))
    pool.update(vars(M))
    for name in sorted(pool):
        c = pool[name]
        if not (inspect.isclass(c) and issubclass(c, ASTNode)):
            continue
        chain = [k for k in c.__mro__ if k is not object and '__init__' in vars(k)]
        params = {}
        for k in reversed(chain):
            params.update(inspect.signature(k.__init__).parameters)
        for q in [p_ for p_ in params if p_ in ('query_str', 'if_query_str', 'query') and (p_ != 'query' or params[p_].annotation is str)]:
            req = [p_ for p_, v in params.items() if v.default is inspect._empty and p_ not in ('self', 'args', 'kwargs', q) and v.kind in (v.POSITIONAL_OR_KEYWORD, v.KEYWORD_ONLY)]
            out.append((name, c, q, req))
    return out


CONSTRUCTORS = _constructors()


def stored_by(k, text):
    from mindsdb_sql.parser import ast as A
    name, c, q, req = CONSTRUCTORS[k]
    kw = {r: A.Identifier(parts=['x']) for r in req}
    if q == 'if_query_str':
        kw['query_str'] = 'select 1'
    kw[q] = text
    node = c(**kw)
    return getattr(node, q)


def _outside(text, s):
    i = text.find(s)
    return None if i < 0 else ' '.join((text[:i] + ' ' + text[i + len(s):]).split())


def _stored_ok(k, s, two):
    k = _ci(k, len(CONSTRUCTORS) - 1)
    text = 'select ' + s + ' x' + ('; select 2' if two else '')
    stored = stored_by(k, text)
    return isinstance(stored, str) and s in stored and _outside(stored, s) == _outside(text, s)


def stored_quote_string(s: str, k: int, two: bool) -> bool:
    """
    pre: 0 <= k < len(CONSTRUCTORS)
    pre: len(s) <= N + 1
    pre: read_quoted_mindsdb(s, "'") is not None
    post: _
    """
    return _stored_ok(k, s, two)


def stored_dquote_string(s: str, k: int, two: bool) -> bool:
    """
    pre: 0 <= k < len(CONSTRUCTORS)
    pre: len(s) <= N + 1
    pre: read_quoted_mindsdb(s, '"') is not None
    post: _
    """
    return _stored_ok(k, s, two)


def stored_reach(s: str, k: int, two: bool) -> bool:
    """
    pre: 0 <= k < len(CONSTRUCTORS)
    pre: len(s) <= N + 1
    pre: read_quoted_mindsdb(s, "'") is not None
    post: False
    """
    return _stored_ok(k, s, two)
