"""C09 — every emitted plan is a well-formed, forward-only dataflow program (family + walker in c0910lib/planlib)."""
from harness import C0910


def run(tier):
    C0910.run_for('C09', 9, tier)


def replay(path):
    return C0910.replay_for(9, path)
