"""C02 units (CrossHair): option-list grammar actions with symbolic keys/values; generated per production."""
import os
from engines.common import ch_obligations, VERIF

T = '''
def act_{i}(k1: str, k2: str, two: bool, kind1: int, kind2: int, s: str, n: int, kw1: int, kw2: int) -> bool:
    """
    pre: len(k1) <= N and len(k2) <= N and len(s) <= N
    pre: 0 <= kind1 <= 5 and 0 <= kind2 <= 5
    pre: -1 <= kw1 < {nk} and -1 <= kw2 < {nk}
    post: _
    """
    # a key is either one of the option names the actions look for (symbolic index) or an arbitrary symbolic string
    a = k1
    for j in range({nk}):
        if kw1 == j:
            a = KEYWORDS[j]
    b = k2
    for j in range({nk}):
        if kw2 == j:
            b = KEYWORDS[j]
    return apply({i}, a, b, two, kind1, kind2, s, n)
'''


def gen():
    from harness import ch_C02
    d = os.path.join(VERIF, '.scratch')
    os.makedirs(d, exist_ok=True)
    path = os.path.join(d, 'gen_ch_C02.py')
    with open(path, 'w') as f:
        f.write('from harness.ch_C02 import apply, KEYWORDS, N\n')
        for i, prod in enumerate(ch_C02.PRODS):
            f.write(T.format(i=i, nk=len(ch_C02.KEYWORDS)))
    return path, ch_C02.PRODS


def mk_replay(i):
    def replay(args):
        from harness import ch_C02
        from mindsdb_sql.exceptions import ParsingException
        prod = ch_C02.PRODS[i]
        a = ch_C02.KEYWORDS[args['kw1']] if args['kw1'] >= 0 else args['k1']
        b = ch_C02.KEYWORDS[args['kw2']] if args['kw2'] >= 0 else args['k2']
        try:
            ch_C02.apply(i, a, b, bool(args['two']), args['kind1'], args['kind2'], args['s'], args['n'])
            return False, {'production': str(prod)}, 'x', 'no error'
        except Exception as e:  # noqa
            name = str(prod).split('  [')[0]
            return True, {'production': name, 'options': {a: args['kind1'], b: args['kind2']} if args['two'] else {a: args['kind1']}, 'error': '%s: %s' % (type(e).__name__, e)}, \
                'action-internal-error:%s:%s' % (prod.func.__name__, type(e).__name__), 'grammar action of `%s` raises %s: %s for options %r' % (name, type(e).__name__, str(e)[:80], a)
    return replay


def add(run, tier):
    path, prods = gen()
    os.environ['VERIF_STRLEN'] = '3' if tier == 'quick' else '4'
    specs = [dict(fn='act_%d' % i, twin=None, replay=mk_replay(i), name='U2:%s' % str(p).split('  [')[0][:70]) for i, p in enumerate(prods)]
    run.functions.append('grammar actions of %d option-list productions (symbolic option dict) via SLY YaccProduction' % len(prods))
    run.assumptions.append('U2 units: option keys are arbitrary strings <= 3/4 chars or one of 8 option names; option values are str/int/Identifier/bool/None/list; other children take one default value each')
    ch_obligations(run, path, specs, cond_to=200 if tier == 'quick' else 600, path_to=40)
