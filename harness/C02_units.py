"""C02 units (CrossHair): option-list grammar actions with symbolic keys/values; generated per production."""
import os
from engines.common import ch_obligations, VERIF
HARNESS_STATIC = os.path.join(VERIF, 'harness', 'ch_C02.py')

T = '''
def act_{i}(two: bool, kind1: int, kind2: int, s: str, n: int, kw1: int, kw2: int) -> bool:
    """
    pre: len(s) <= N
    pre: 0 <= kind1 <= 5 and 0 <= kind2 <= 1
    pre: 0 <= kw1 < {nk} and 0 <= kw2 <= 2
    post: _
    """
    # option names are chosen by symbolic index from the vocabulary (concrete dict keys); option VALUES stay symbolic
    kw1, kw2, kind1, kind2 = ci(kw1, {nk} - 1), ci(kw2, 2), ci(kind1, 5), ci(kind2, 1)
    return apply({i}, KEYWORDS[kw1], ('model', 'storage', 'zz')[kw2], True if two else False, kind1, (0, 2)[kind2], s, n)
'''


def gen():
    from harness import ch_C02
    d = os.path.join(VERIF, '.scratch')
    os.makedirs(d, exist_ok=True)
    path = os.path.join(d, 'gen_ch_C02.py')
    with open(path, 'w') as f:
        f.write('from harness.ch_C02 import apply, KEYWORDS, N\nfrom harness.planlib import ci\n')
        for i, prod in enumerate(ch_C02.PRODS):
            f.write(T.format(i=i, nk=len(ch_C02.KEYWORDS)))
    return path, ch_C02.PRODS


def mk_replay(i):
    def replay(args):
        from harness import ch_C02
        from mindsdb_sql.exceptions import ParsingException
        prod = ch_C02.PRODS[i]
        a = ch_C02.KEYWORDS[args['kw1']]
        b = ('model', 'storage', 'zz')[args['kw2']]
        try:
            ch_C02.apply(i, a, b, bool(args['two']), args['kind1'], (0, 2)[args['kind2']], args['s'], args['n'])
            return False, {'production': str(prod)}, 'x', 'no error'
        except Exception as e:  # noqa
            name = str(prod).split('  [')[0]
            return True, {'production': name, 'options': {a: args['kind1'], b: args['kind2']} if args['two'] else {a: args['kind1']}, 'error': '%s: %s' % (type(e).__name__, e)}, \
                'action-internal-error:%s:%s' % (prod.func.__name__, type(e).__name__), 'grammar action of `%s` raises %s: %s for option %s = %r' % (name, type(e).__name__, str(e)[:80], a, ch_C02._value(args['kind1'], args['s'], args['n']))
    return replay


def add(run, tier):
    path, prods = gen()
    os.environ['VERIF_STRLEN'] = '1' if tier == 'quick' else '3'
    specs = [dict(fn='act_%d' % i, twin=None, replay=mk_replay(i), name='U2:%s' % str(p).split('  [')[0][:70]) for i, p in enumerate(prods)]
    run.functions.append('grammar actions of %d option-list productions (symbolic option dict) via SLY YaccProduction' % len(prods))
    run.assumptions.append('U2 units: option names come from a 10-word vocabulary (the names the actions look for + 2 unknown ones), chosen by symbolic index; option values are a symbolic str (<= 3/4 chars) / symbolic int / Identifier / bool / None / list; other children take one default value each')
    def r_lex(args):
        from mindsdb_sql import parse_sql
        from mindsdb_sql.exceptions import ParsingException
        from sly.lex import LexError
        import importlib
        ch = importlib.import_module('harness.ch_C02').CHARS[args['k']]
        args = dict(args, ch=ch)
        sql = 'select ' + ('a\n' if args['nl'] else 'a ') + ch + ' b'
        try:
            parse_sql(sql, 'mindsdb')
            return False, {'sql': sql}, 'x', 'accepted'
        except (LexError, ParsingException):
            return False, {'sql': sql}, 'x', 'lexer/parsing error as expected'
        except Exception as e:  # noqa
            return True, {'sql': sql, 'error': '%s: %s' % (type(e).__name__, e)}, 'lexer-error-reporter:%s' % type(e).__name__, \
                'illegal character %r makes parse_sql raise %s: %s' % (args['ch'], type(e).__name__, e)
    specs.append(dict(fn='lexer_error_unit', twin=None, replay=r_lex, name='U1:MindsDBLexer.error on every illegal ASCII character and 2 code points per Unicode category', module=HARNESS_STATIC))
    run.functions.append('MindsDBLexer.error (illegal character by symbolic index into the representative set, symbolic position / line break; native leaves)')
    static = [s_ for s_ in specs if s_.get('module')]
    ch_obligations(run, path, [s_ for s_ in specs if not s_.get('module')], cond_to=150 if tier == 'quick' else 600, path_to=40)
    ch_obligations(run, HARNESS_STATIC, static, cond_to=150 if tier == 'quick' else 600, path_to=40)
