"""C10 — routing by name resolution, independent of spelling and catalog form (family in c0910lib)."""
from harness import C0910


def run(tier):
    C0910.run_for('C10', 10, tier)


def replay(path):
    return C0910.replay_for(10, path)
