"""C19 — error location and suggestions.  Location: CrossHair over token geometry (real error_location /
MindsDBLexer.error).  Suggestions: SYMTOK error paths of the mindsdb dialect (engines/c19lib.py)."""
import os, json, random
from engines.common import Run, ch_obligations, VERIF
from engines import sweep as SW
from harness.C05 import to_sql

T = '''
def location_{a}{b}{c}(g0: int, g1: int, g2: int, b1: int, b2: int, lead_nl: int, bad: int) -> bool:
    """
    pre: 0 <= g0 <= 2 and 0 <= g1 <= 2 and 0 <= g2 <= 2
    pre: 0 <= b1 <= 2 and 0 <= b2 <= 2 and 0 <= lead_nl <= 1
    pre: g1 + b1 > 0 and g2 + b2 > 0
    pre: -1 <= bad <= 2
    post: _
    """
    return location({a}, {b}, {c}, g0, g1, g2, b1, b2, lead_nl, bad)
'''


def gen():
    d = os.path.join(VERIF, '.scratch')
    os.makedirs(d, exist_ok=True)
    path = os.path.join(d, 'gen_ch_C19.py')
    names = []
    with open(path, 'w') as f:
        f.write('from harness.ch_C19 import location, location_reach, lexer_error, lexer_error_segments\n')
        for a in range(3):
            for b in range(3):
                for c in range(3):
                    f.write(T.format(a=a, b=b, c=c))
                    names.append('location_%d%d%d' % (a, b, c))
    return path, names


def r_loc(args):
    import importlib
    m = importlib.import_module('harness.ch_C19')
    name = args.pop('_fn', None)
    l = [int(x) for x in name[-3:]] if name else [0, 1, 2]
    a = (l[0], l[1], l[2], args['g0'], args['g1'], args['g2'], args['b1'], args['b2'], args['lead_nl'], args['bad'])
    try:
        ok = m.location_leaf(*a) and m.lines_leaf(*a)
    except Exception as e:  # noqa
        ok = False
    toks, text = m._layout(*a[:9])
    return (not ok), {'source': text, 'bad_token_index': args['bad']}, 'error-location', 'carets do not mark the offending token for source %r (bad=%s)' % (text, args['bad'])


def r_lexerr(args):
    import importlib
    m = importlib.import_module('harness.ch_C19')
    ok = m.lexer_error(args['pre_len'], args['nl_at'], args['post_len'])
    return (not ok), {'args': args}, 'lexer-error-location', 'illegal-character message does not point at the character'


def r_lexseg(args):
    import importlib
    m = importlib.import_module('harness.ch_C19')
    a = (int(args['s0']), int(args['s1']), int(args['s2']), int(args['post_len']))
    ok = m.lexer_error_seg_leaf(*a)
    text = m.SEGMENTS[a[0]] + m.SEGMENTS[a[1]] + m.SEGMENTS[a[2]] + '#' + 'b' * a[3]
    return (not ok), {'source': text}, 'lexer-error-location:segments', 'illegal-character message for %r does not show the line of the character with the caret under it' % text


def handle_suggestions(run, name, res):
    bad = [f for f in res['findings'] if f['kind'].startswith('c19-')]
    if not bad:
        run.ob(name, 'discharged', 'error paths with suggestions=%d suggestions checked=%d' % (res['suggestion_paths'], res['suggestions_checked']))
        return
    groups = {}
    for f in bad:
        groups.setdefault((f['kind'], f.get('suggestion') or (f.get('message') or '')[:40]), []).append(f)
    n = 0
    for (kind, sug), fs in groups.items():
        fs.sort(key=lambda f: len(f['types']))
        f = fs[0]
        if kind == 'c19-message-without-location':
            rep, info = False, {}
            for g in fs[:8]:
                rep, info = replay_no_location(g)
                if rep:
                    f = g
                    break
            run.counterexample('%s:%s' % (kind, sug), 'the message for %r shows no source line with carets: %r' % (info.get('sql'), (info.get('message') or f.get('message'))[:120]),
                               {'finding': f, 'native': info}, rep)
            n += 1 if rep else 0
            continue
        rep, info = replay_suggestion(f)
        key = '%s:%s' % (kind, sug)
        run.counterexample(key, 'suggestion %r after "%s" is not accepted by the parser' % (sug, ' '.join(f['types'])), {'finding': f, 'native': info}, rep)
        n += 1 if rep else 0
    run.ob(name, 'counterexample' if n else 'inconclusive', '%d findings in %d groups' % (len(bad), len(groups)))


def replay_no_location(f):
    """natively: the path's text is rejected by the real parse_sql with a message without carets although the real parser reports a
    syntax error at a token of that text"""
    from mindsdb_sql import parse_sql
    from mindsdb_sql.exceptions import ParsingException
    from engines.c19lib import error_position
    if any(t.startswith('<any-of') for t in f['types']):
        return False, {'note': 'unfixed token class'}
    L, P = SW.dialect_classes('mindsdb')
    sql = SW.rebuild_text('mindsdb', f) if f.get('base_sql') else to_sql('mindsdb', f['types'], f.get('linenos'))
    try:
        toks = list(L().tokenize(sql))
    except Exception as e:  # noqa
        return False, {'sql': sql, 'note': 'lexer: %r' % e}
    pos = error_position(P, toks)
    try:
        parse_sql(sql, 'mindsdb')
        return False, {'sql': sql, 'note': 'accepted'}
    except ParsingException as e:
        msg = str(e)
    except Exception as e:  # noqa
        return False, {'sql': sql, 'note': 'internal %r' % e}
    return (pos is not None and pos >= 0 and '^' not in msg), {'sql': sql, 'message': msg[:300], 'parser_error_at_token': pos}


def replay_suggestion(f):
    """natively: text of the path (accepted prefix + offending rest) -> real parse_sql message contains the suggestion ->
    the real parser, given prefix + suggestion, stops at the suggestion"""
    from mindsdb_sql import parse_sql
    from mindsdb_sql.exceptions import ParsingException
    from engines.c19lib import error_position
    L, P = SW.dialect_classes('mindsdb')
    rest = f.get('rest') or []
    if any(t.startswith('<any-of') for t in f['types']):
        return False, {'note': 'unfixed prefix'}
    candidates = []
    if rest and not any(t.startswith('<any-of') for t in rest):
        candidates.append(to_sql('mindsdb', f['types'] + rest))
    prefix = to_sql('mindsdb', f['types'])
    for nxt in (';;', ')', '(', 'x', '1', 'select', ',', '.'):
        candidates.append((prefix + ' ' + nxt).strip())
    for sql in candidates:
        try:
            parse_sql(sql, 'mindsdb')
            continue
        except ParsingException as e:
            msg = str(e)
        except Exception:  # noqa
            continue
        last = msg.split('\n')[-1]
        if ('"%s"' % f['suggestion']) not in last:
            continue
        if f['kind'] == 'c19-suggestion-not-a-token':
            return True, {'sql': sql, 'message_tail': last}
        toks = list(L().tokenize(prefix + ' ' + f['suggestion']))
        e = len(toks) - 1
        pos = error_position(P, toks)
        rejected = pos is not None and pos != -1 and pos <= e
        return rejected, {'sql': sql, 'message_tail': last, 'prefix_plus_suggestion': prefix + ' ' + f['suggestion'], 'parser_stops_at_token': pos}
    return False, {'note': 'no native input reproduces the suggestion', 'prefix': prefix}


def run(tier):
    run = Run('C19', tier)
    path, names = gen()
    run.bounds = {'location': '3 tokens of length 1..3, gaps 0..2, 0..2 line breaks between tokens, leading blank line, bad token any or end-of-input',
                  'suggestions': 'SYMTOK spaces i (K<=%d) and iii' % (3 if tier == 'quick' else 4)}
    run.functions = ['ErrorHandling.error_location', 'ErrorHandling.make_suggestion/query_is_valid', 'MindsDBLexer.error', 'MindsDBParser.error', 'sly Parser.parse']
    run.assumptions = ['location: self-consistency (text under the carets == offending token) plus displayed lines are source lines; comments between tokens are whitespace to the lexer (positions are absolute)',
                       'suggestion check: the suggested keyword/symbol, placed after the accepted prefix, is shifted by the real parser',
                       'placeholders [identifier]/[number]/[string] are not concrete suggestions']
    specs = [dict(fn=n, twin=None, replay=(lambda a, n=n: r_loc(dict(a, _fn=n)))) for n in names]
    specs.append(dict(fn='location_reach', twin=None, replay=lambda a: (False, {}, 'x', 'x'), name='location_reach'))
    specs.append(dict(fn='lexer_error', twin=None, replay=r_lexerr))
    specs.append(dict(fn='lexer_error_segments', twin=None, replay=r_lexseg))
    res = ch_obligations(run, path, [s for s in specs if s['fn'] != 'location_reach'], cond_to=200 if tier == 'quick' else 600, path_to=60)
    # suggestions
    KS = (1, 2, 3) if tier == 'quick' else (1, 2, 3, 4)
    for K in KS:
        r, size = SW.sweep_space1('mindsdb', K, want_c19=True)
        run.add_stats({'paths': r['paths'], 'solver_calls': r['solver_calls'], 'solver_s': r['solver_s']})
        handle_suggestions(run, 'suggestions:space-i:K=%d' % K, r)
    corpus = SW.harvest_corpus()
    stmts = list(corpus['mindsdb'])
    random.Random(run.seed).shuffle(stmts)
    if tier == 'quick':
        stmts = stmts[:80]
    r, _ = SW.sweep_space3('mindsdb', stmts, want_c19=True)
    run.add_stats({'paths': r['paths'], 'solver_calls': r['solver_calls'], 'solver_s': r['solver_s']})
    handle_suggestions(run, 'suggestions:space-iii:%d-statements' % len(stmts), r)
    try:
        from harness import c19hist
        c19hist.add(run, tier)
    except Exception as e:  # noqa
        import traceback
        run.error('history part crashed: %r %s' % (e, traceback.format_exc()[-300:]))
    run.bounds['suggestions_after_history'] = 'corpus statements (400 / all) cut after every token, every second cut also with a wrong token appended; reported in forward and in reverse order in one interpreter'
    run.finish()


def replay(path):
    r = json.load(open(path))
    print(json.dumps(r, indent=1))
    if r['replay'].get('history'):
        from harness import c19hist
        return c19hist.replay(r)
    f = r['replay'].get('finding')
    if f:
        rep, info = replay_no_location(f) if f.get('kind') == 'c19-message-without-location' else replay_suggestion(f)
        print('native replay now: reproduced=%s %s' % (rep, json.dumps(info, default=repr)))
        return 1 if rep else 0
    return 2
