"""C18 steps: copy independence per node kind (symbolic mutation of the copy) and equality laws."""
from mindsdb_sql.parser import ast as A
from mindsdb_sql.parser.ast.base import ASTNode
from harness.c13lib import BUILDERS, Ctx
import copy as _copy
try:
    from crosshair.tracers import NoTracing
except ImportError:   # native replay without crosshair
    import contextlib
    NoTracing = contextlib.nullcontext

EXTRA = {
    'Identifier': lambda c: A.Identifier(parts=['a', 'b'][:1 + c.opt()], alias=A.Identifier(parts=['al']) if c.opt() else None),
    'Constant': lambda c: A.Constant(value='v' if c.opt() else 1, alias=A.Identifier(parts=['al']) if c.opt() else None),
    'Parameter': lambda c: A.Parameter('?'),
    'Variable': lambda c: A.Variable('v', is_system_var=c.opt()),
    'Star': lambda c: A.Star(),
    'NullConstant': lambda c: A.NullConstant(),
    # node kinds no parser produces alone or that hold plain Python containers (rows of an already fetched result, option dictionaries, raw text)
    'Data': lambda c: A.Data([{'a': 1, 'b': [1, 2]}, {'a': 2, 'b': []}][:1 + c.opt()], alias=A.Identifier(parts=['al']) if c.opt() else None),
    'NativeQuery': lambda c: A.NativeQuery(integration=A.Identifier(parts=['int1']), query='select 1', alias=A.Identifier(parts=['al']) if c.opt() else None),
    'Object': lambda c: A.Object('T', {'k': [1, 2], 'n': {'m': 1}} if c.opt() else {'k': 1}),
    'Interval': lambda c: A.Interval('2 day' if c.opt() else '3 month'),
    'Last': lambda c: A.Last(),
    'Latest': lambda c: A.Latest(),
    'Show': lambda c: A.Show(category='tables', from_table=A.Identifier(parts=['db']) if c.opt() else None, where=c.e() if c.opt() else None),
    'Describe': lambda c: A.Describe(value=A.Identifier(parts=['t', 'x'][:1 + c.opt()])),
    'Use': lambda c: A.Use(value=A.Identifier(parts=['db'])),
    'Set': lambda c: A.Set(name=A.Identifier(parts=['x']), value=c.e()),
    'DropTables': lambda c: A.DropTables(tables=[A.Identifier(parts=['t']), A.Identifier(parts=['u'])][:1 + c.opt()], if_exists=bool(c.opt())),
    'Explain': lambda c: A.Explain(target=A.Identifier(parts=['t'])),
}
ALL = dict(BUILDERS)
ALL.update(EXTRA)


def cb(b):
    """fork once on a symbolic bool; afterwards the value is concrete"""
    return True if b else False


def ci(n, hi):
    """fork once on a symbolic small int; afterwards the value is concrete"""
    for v in range(hi + 1):
        if n == v:
            return v
    return hi


def build(cls, mask, n1, n2):
    return ALL[cls](Ctx(mask, n1, n2))


def _lib_obj(o):
    """an object of a class defined by the library (AST nodes, and helper records such as TableColumn that trees hold)"""
    return hasattr(o, '__dict__') and not isinstance(o, type) and type(o).__module__.startswith('mindsdb_sql')


def reachable(obj, acc=None, depth=0):
    """ids of mutable objects (nodes, library records, lists, dicts) reachable through vars()"""
    if acc is None:
        acc = {}
    if isinstance(obj, ASTNode) or _lib_obj(obj):
        if id(obj) in acc:
            return acc
        acc[id(obj)] = obj
        for v in vars(obj).values():
            reachable(v, acc, depth + 1)
    elif isinstance(obj, (list, tuple)):
        if isinstance(obj, list):
            if id(obj) in acc:
                return acc
            acc[id(obj)] = obj
        for v in obj:
            reachable(v, acc, depth + 1)
    elif isinstance(obj, dict):
        if id(obj) in acc:
            return acc
        acc[id(obj)] = obj
        for v in obj.values():
            reachable(v, acc, depth + 1)
    return acc


def mutations(root):
    """single-attribute mutations applicable to the object graph under `root` (list of (label, thunk))"""
    out = []
    for o in list(reachable(root).values()):
        if isinstance(o, ASTNode) or _lib_obj(o):
            name = type(o).__name__
            if isinstance(o, ASTNode):
                out.append(('%s.alias=' % name, lambda o=o: setattr(o, 'alias', A.Identifier(parts=['zz']))))
                out.append(('%s.parentheses^' % name, lambda o=o: setattr(o, 'parentheses', not o.parentheses)))
            if isinstance(o, A.Identifier):
                out.append(('Identifier.parts[0]=', lambda o=o: o.parts.__setitem__(0, 'zz')))
                out.append(('Identifier.parts.append', lambda o=o: o.parts.append('zz')))
            for k, v in list(vars(o).items()):
                if isinstance(v, str):
                    out.append(('%s.%s=str' % (name, k), lambda o=o, k=k: setattr(o, k, 'zz')))
                elif isinstance(v, bool):
                    out.append(('%s.%s^' % (name, k), lambda o=o, k=k, v=v: setattr(o, k, not v)))
                elif v is None and k not in ('alias',):
                    pass
        elif isinstance(o, list):
            out.append(('list.append', lambda o=o: o.append(A.Identifier(parts=['zz']))))
            if o:
                out.append(('list.pop', lambda o=o: o.pop()))
                out.append(('list[0]=', lambda o=o: o.__setitem__(0, A.Identifier(parts=['zz']))))
        elif isinstance(o, dict):
            out.append(('dict[zz]=', lambda o=o: o.__setitem__('zz', A.Identifier(parts=['zz']))))
            if o:
                out.append(('dict.popitem', lambda o=o: o.popitem()))
    return out


_PADS = 40


def wrap_long(x):
    """x at the END of a statement that prints well over 500 characters (as the last select-list item, or as the FROM subquery of a
    long select list); None when x cannot stand there.  Laws about equality and printing must not depend on how long the text is."""
    pads = [A.Identifier(parts=['padding_column_%02d' % i]) for i in range(_PADS)]
    try:
        if isinstance(x, (A.Select, A.Union, A.Intersect, A.Except)):
            w = A.Select(targets=pads, from_table=x)
        elif isinstance(x, (A.Insert, A.Update, A.Delete, A.CreateTable, A.DropTables, A.Set, A.Show, A.Use)) or not isinstance(x, ASTNode):
            return None
        else:
            w = A.Select(targets=pads + [x])
        w.to_string(), w.to_tree()
        return w
    except Exception:  # noqa
        return None


def eq_print_law(a, b, tag):
    """`a == b` must be a symmetric bool, and equal trees must print the same SQL - also when a and b end a long statement"""
    problems = []
    for x, y, where in ((a, b, ''), (wrap_long(a), wrap_long(b), ' (at the end of a long statement)')):
        if x is None or y is None:
            continue
        try:
            sx, sy = x.to_string(), y.to_string()
            x.to_tree(), y.to_tree()
            xy, yx = (x == y), (y == x)
        except Exception:  # noqa
            continue        # the mutation made something no printer accepts: not a tree
        if bool(xy) != bool(yx):
            problems.append('== is not symmetric%s%s' % (where, tag))
        if xy is True and sx != sy:
            problems.append('equal trees print differently%s%s' % (where, tag))
    return problems


def copy_step(cls, mask, n1, n2, mut, deep):
    """returns list of problems.  mut = -1: none; 0..n-1: that single-attribute mutation applied to the COPY afterwards (independence);
    n..2n-1: mutation (mut-n) applied to the ORIGINAL first (flags, aliases, strings, list edits on every reachable node), so that
    every attribute value the mutation table can produce is in the copied tree"""
    full, deep = cb(mask), cb(deep)
    n1 = ci(n1, 3)
    n2 = n1
    nmut = len(mutations(build(cls, tuple([full] * 8), n1, n2)))
    mut = ci(mut + 1, 2 * nmut) - 1
    # all inputs are concrete on this path: run the real code natively
    with NoTracing():
        return _copy_concrete(cls, full, n1, n2, mut, deep)


def _copy_concrete(cls, full, n1, n2, mut, deep):
    node = build(cls, tuple([full] * 8), n1, n2)
    nmut = len(mutations(node))
    pre = None
    if mut >= nmut:
        label, thunk = mutations(node)[mut - nmut]
        thunk()
        pre = label
        mut = -1
        if any(isinstance(o, A.Identifier) and not o.parts for o in reachable(node).values()):
            return []       # an identifier without parts is not a tree any parser or constructor produces
    try:
        s0, t0 = node.to_string(), node.to_tree()
    except Exception:  # noqa
        if pre is not None:
            return []       # the pre-mutation did not yield a printable tree: not an input
        raise
    tag = (' [original prepared with %s]' % pre) if pre else ''
    try:
        cp = _copy.deepcopy(node) if deep else node.copy()
    except Exception as e:  # noqa
        return ['%s raises %s for a tree that prints%s' % ('deepcopy' if deep else 'copy()', type(e).__name__, tag)]
    problems = []
    if type(cp) is not type(node):
        return ['copy has another type' + tag]
    if not (cp == node):
        problems.append('copy != original' + tag)
    if cp.to_string() != s0 or cp.to_tree() != t0:
        problems.append('copy prints differently' + tag)
    if set(vars(cp)) != set(vars(node)):
        problems.append('copy has different attributes: %s%s' % (sorted(set(vars(cp)) ^ set(vars(node))), tag))
    for k, v in vars(node).items():
        if isinstance(v, (bool, str, int)) and k in vars(cp) and vars(cp)[k] != v:
            problems.append('copy has %s=%r, the original %r%s' % (k, vars(cp)[k], v, tag))
    shared = set(reachable(cp)) & set(reachable(node))
    if shared:
        problems.append('copy shares %d mutable object(s) with the original: %s%s' %
                        (len(shared), sorted(type(reachable(node)[i]).__name__ for i in shared)[:3], tag))
    muts = mutations(cp)
    if 0 <= mut < len(muts):
        label, thunk = muts[mut]
        thunk()
        if node.to_string() != s0 or node.to_tree() != t0:
            problems.append('mutating the copy (%s) changed the original' % label)
        problems += eq_print_law(cp, node, ' [copy mutated with %s]%s' % (label, tag))
    return problems


def eq_step(cls, mask_a, n_a, mask_b, n_b):
    mask_a, mask_b = tuple(cb(x) for x in mask_a), tuple(cb(x) for x in mask_b)
    n_a, n_b = ci(n_a, 2), ci(n_b, 2)
    with NoTracing():
        return _eq_concrete(cls, mask_a, n_a, mask_b, n_b)


def _eq_concrete(cls, mask_a, n_a, mask_b, n_b):
    a = build(cls, mask_a, n_a, n_a)
    b = build(cls, mask_b, n_b, n_b)
    problems = []
    if not (a == a):
        problems.append('not reflexive')
    ab, ba = (a == b), (b == a)
    if bool(ab) != bool(ba):
        problems.append('not symmetric')
    if ab not in (True, False):
        problems.append('== returned %r' % (ab,))
    if ab and str(a) != str(b):
        problems.append('equal trees print differently')
    if (a != b) == bool(ab):
        problems.append('!= inconsistent with ==')
    if a == 1 or a == None or a == 'x':   # noqa
        problems.append('equal to a non-node')
    problems += eq_print_law(a, b, '')
    return problems


def plan_step(kind, i, j, mask):
    """steps / plans / results built from symbolic small ints"""
    from mindsdb_sql.planner import steps as S
    from mindsdb_sql.planner.query_plan import QueryPlan
    from mindsdb_sql.planner.step_result import Result
    problems = []
    kind, i, j, mask = ci(kind, 4), ci(i, 3), ci(j, 3), tuple(cb(x) for x in mask)
    with NoTracing():
        return _plan_concrete(kind, i, j, mask)


def _plan_concrete(kind, i, j, mask):
    from mindsdb_sql.planner import steps as S
    from mindsdb_sql.planner.query_plan import QueryPlan
    from mindsdb_sql.planner.step_result import Result
    problems = []
    r1, r2 = Result(i), Result(j)
    try:
        h1, h2 = hash(r1), hash(r2)
        if not isinstance(h1, int):
            problems.append('hash(Result) is not an int')
        if r1 == r2 and h1 != h2:
            problems.append('equal Results hash differently')
    except Exception as e:  # noqa
        problems.append('hash(Result) raised %r' % e)
    if (r1 == r2) != (i == j) or (r1 == r2) != (r2 == r1) or not (r1 == r1):
        problems.append('Result equality unlawful')

    def mk(n, q):
        k = kind
        if k == 0:
            return S.FetchDataframeStep(integration='int%d' % n, query=q)
        if k == 1:
            return S.ProjectStep(columns=[A.Identifier(parts=['c%d' % n])], dataframe=Result(n))
        if k == 2:
            return S.JoinStep(left=Result(n), right=Result(n + 1), query=q)
        if k == 3:
            return S.LimitOffsetStep(dataframe=Result(n), limit=n, offset=0) if hasattr(S, 'LimitOffsetStep') else S.ProjectStep(columns=[], dataframe=Result(n))
        return S.UnionStep(left=Result(n), right=Result(n + 1), unique=(n >= 2))
    qa = build('Select', mask, 1, 1)
    qb = build('Select', mask, 1, 1)
    s1, s1b, s2 = mk(i, qa), mk(i, qb), mk(j, qb)
    if not (s1 == s1) or not (s1 == s1b) or not (s1b == s1):
        problems.append('equal steps do not compare equal')
    if (s1 == s2) != (s2 == s1):
        problems.append('step equality not symmetric')
    if i != j and (s1 == s2):
        problems.append('different steps compare equal')
    p1, p2, p3 = QueryPlan(steps=[s1, mk(i + 2, qa)]), QueryPlan(steps=[s1b, mk(i + 2, qb)]), QueryPlan(steps=[s2])
    if (p1 == p2) is not True or (p2 == p1) is not True or (p1 == p1) is not True:
        problems.append('plans built from equal steps do not compare equal (== returned %r)' % ((p1 == p2),))
    if (p1 == p3) not in (False,) :
        problems.append('different plans: == returned %r' % ((p1 == p3),))
    return problems


# ---- parsed-tree family: every statement kind the grammars can build, as the parsers build it ------------------------------------
def parsed_trees(dialect):
    """distinct trees obtained by parsing the grammar-derived sentences (production pairs and alternative derivations, see
    harness/c02u2.py): they carry what real trees carry (TableColumn records, option dicts, raw-query strings, flags)"""
    from harness import c02u2
    from mindsdb_sql import parse_sql
    dv = c02u2.env(dialect)[0]
    texts = []
    for i, p in enumerate(dv.prods):
        for j, cp, tree in dv.pair_trees(p):
            t_ = c02u2.node_sentence(dialect, tree, c02u2.VOCAB[0])
            if t_:
                texts.append(t_)
    out, seen = [], set()
    for t_ in texts:
        try:
            a = parse_sql(t_, dialect)
            key = a.to_tree()
        except Exception:  # noqa
            continue
        if key not in seen:
            seen.add(key)
            out.append((t_, a))
    return out


def parsed_copy_check(sql, node):
    """copy()/deepcopy of a parsed tree: equal, prints alike, shares nothing mutable, and no single-attribute mutation of the copy
    changes the original"""
    problems = []
    try:
        s0, t0 = node.to_string(), node.to_tree()
    except Exception:  # noqa
        return problems          # unprintable trees are C01's findings
    for deep in (False, True):
        n_mut = len(mutations(_copy.deepcopy(node)))
        for mut in range(-1, n_mut):
            cp = _copy.deepcopy(node) if deep else node.copy()
            if mut == -1:
                if not (cp == node):
                    problems.append('copy != original')
                try:
                    if cp.to_string() != s0 or cp.to_tree() != t0:
                        problems.append('copy prints differently')
                except Exception as e:  # noqa
                    problems.append('copy cannot be printed: %s' % type(e).__name__)
                shared = set(reachable(cp)) & set(reachable(node))
                if shared:
                    problems.append('copy shares %d mutable object(s) with the original: %s' %
                                    (len(shared), sorted(type(reachable(node)[i]).__name__ for i in shared)[:3]))
                continue
            muts = mutations(cp)
            if mut >= len(muts):
                continue
            label, thunk = muts[mut]
            try:
                thunk()
            except Exception:  # noqa
                continue
            try:
                changed = node.to_string() != s0 or node.to_tree() != t0
            except Exception:  # noqa
                changed = True
            if changed:
                problems.append('mutating the copy (%s) changed the original' % label)
            elif not problems:
                problems += eq_print_law(cp, node, ' [copy mutated with %s]' % label)
        if problems:
            break
    return ['%s (%s)' % (p, 'deepcopy' if deep else 'copy()') for p in problems[:3]]


def parsed_shard(a):
    dialect, k, n = a
    trees = parsed_trees(dialect)
    bad, cnt = [], 0
    for idx in range(k, len(trees), n):
        sql, node = trees[idx]
        pr = parsed_copy_check(sql, node)
        cnt += 1
        if pr:
            bad.append((sql, type(node).__name__, pr))
    return dialect, cnt, len(trees), bad


# ---- real plan steps: equality laws over the steps the planner really emits, and over their "class-cast twins" ------------------
def step_pool():
    """every distinct step object (sub-steps of containers included) in the plans of the planner skeletons of C09/C10"""
    from harness import planlib as PL, c0910lib
    from mindsdb_sql.planner import steps as S
    pool, seen = [], set()

    def add(st):
        if not isinstance(st, S.PlanStep):
            return
        key = (type(st).__name__, repr(st))
        if key not in seen:
            seen.add(key)
            pool.append(st)
        for v in vars(st).values():
            if isinstance(v, S.PlanStep):
                add(v)
            elif isinstance(v, (list, tuple)):
                for x in v:
                    add(x)
    for name in c0910lib.SK:
        try:
            plan = PL.plan_sql(c0910lib.text(name, (True,), (), ()), **PL.catalog(api='apidb' in c0910lib.SK[name][0], ts='tspred' in c0910lib.SK[name][0]))
        except Exception:  # noqa
            continue
        for st in plan.steps:
            add(st)
    return pool


def value_laws():
    """-> (comparisons, problems).  Constants holding every kind of Python value a program can put into a tree (bound parameters, data frame
    cells): special floats, decimals, booleans next to 0 / 1, dates, empty and number-like strings.  For the bare constant, for trees that hold
    it (select list, comparison, tuple, INSERT row, bound placeholder) and for steps / plans holding those trees: x == x, x == copy(x),
    x == deepcopy(x), copies print alike, == is symmetric over all pairs, objects that compare equal print the same SQL."""
    import copy as _cp, decimal, datetime as dt
    from mindsdb_sql import parse_sql
    from mindsdb_sql.parser.ast import Constant, Select, Identifier, BinaryOperation, Tuple, Insert
    from mindsdb_sql.planner import steps as S
    from mindsdb_sql.planner.step_result import Result
    from mindsdb_sql.planner.query_plan import QueryPlan
    from mindsdb_sql.planner.utils import query_traversal
    values = [float('nan'), float('inf'), float('-inf'), -0.0, 0.0, 1.5, 1e300, 1, 0, True, False, 2 ** 70, decimal.Decimal('NaN'), decimal.Decimal('1.50'), decimal.Decimal('1.5'),
              decimal.Decimal('Infinity'), '1', '', '1.5', 'nan', None, dt.date(2020, 1, 2), dt.datetime(2020, 1, 2, 3, 4, 5), dt.timedelta(days=1), 1 + 0j]

    def bound(v):
        q = parse_sql('select ? as x from t where a = ?', 'mindsdb')
        from mindsdb_sql.planner.utils import fill_query_params
        return fill_query_params(q, [v, v])
    forms = [('constant', lambda v: Constant(v)),
             ('select-list', lambda v: Select(targets=[Constant(v)], from_table=Identifier('t'))),
             ('comparison', lambda v: BinaryOperation('=', args=[Identifier('a'), Constant(v)])),
             ('tuple', lambda v: Tuple([Constant(v), Constant(1)])),
             ('insert-row', lambda v: Insert(table=Identifier('t'), columns=[Identifier('a')], values=[[Constant(v)]])),
             ('bound-placeholder', bound),
             ('project-step', lambda v: S.ProjectStep(dataframe=Result(0), columns=[Constant(v)])),
             ('fetch-step', lambda v: S.FetchDataframeStep(integration='int1', query=Select(targets=[Constant(v)], from_table=Identifier('t')))),
             ('plan', lambda v: QueryPlan(steps=[S.ProjectStep(dataframe=Result(0), columns=[Constant(v)])]))]
    problems, n = [], 0

    def show(x):
        try:
            return x.to_string() if hasattr(x, 'to_string') else repr(getattr(x, 'steps', x))
        except Exception as e:  # noqa
            return None
    for fname, mk in forms:
        objs = []
        for v in values:
            try:
                x = mk(v)
            except Exception:  # noqa
                continue
            objs.append((v, x))
            n += 1
            for what, y in (('itself', x), ('its copy()', x.copy() if hasattr(x, 'copy') and not isinstance(x, QueryPlan) else _cp.copy(x)), ('its deepcopy', _cp.deepcopy(x)),
                            ('a second object built the same way', mk(v))):
                try:
                    e1, e2 = (x == y), (y == x)
                except Exception as e:  # noqa
                    problems.append('%s holding %r: == with %s raises %s' % (fname, v, what, type(e).__name__))
                    continue
                if not e1 or not e2:
                    problems.append('%s holding %r is not equal to %s' % (fname, v, what))
                elif show(x) is not None and show(x) != show(y):
                    problems.append('%s holding %r prints differently from %s' % (fname, v, what))
        for i, (va, a) in enumerate(objs):
            for vb, b in objs[i + 1:]:
                n += 1
                try:
                    e1, e2 = (a == b), (b == a)
                except Exception as e:  # noqa
                    problems.append('%s holding %r / %r: == raises %s' % (fname, va, vb, type(e).__name__))
                    continue
                if bool(e1) != bool(e2):
                    problems.append('%s holding %r / %r: a == b is %r but b == a is %r' % (fname, va, vb, e1, e2))
                elif e1 and show(a) is not None and show(b) is not None and show(a) != show(b):
                    problems.append('%s holding %r / %r compare equal but print differently: %r vs %r' % (fname, va, vb, show(a), show(b)))
    return n, problems, len(values), [f for f, _ in forms]


def step_cast_laws():
    """-> (comparisons, problems).  For every real step s and every step class D that is a sub- or superclass of type(s): the twin of s
    is an instance of D carrying s's values in all attributes the two classes share.  Laws: == is symmetric; objects that compare equal
    print alike (also as one-step plans).  Plus the same laws on all pairs of real steps."""
    import copy as _cp
    from mindsdb_sql.planner import steps as S
    from mindsdb_sql.planner.query_plan import QueryPlan
    pool = step_pool()
    classes = [c for c in vars(S).values() if isinstance(c, type) and issubclass(c, S.PlanStep) and c is not S.PlanStep]
    donors = {}
    for st in pool:
        donors.setdefault(type(st), st)
    problems, n = [], 0

    def laws(a, b, what, print_law=True):
        nonlocal n
        n += 1
        try:
            e1, e2 = (a == b), (b == a)
        except Exception as e:  # noqa
            problems.append('%s: == raises %s' % (what, type(e).__name__))
            return
        if bool(e1) != bool(e2):
            problems.append('%s: a == b is %r but b == a is %r (%r vs %r)' % (what, e1, e2, a, b))
        elif e1 and print_law and repr(a) != repr(b):
            problems.append('%s: equal steps print differently: %r vs %r' % (what, a, b))
        try:
            p1, p2 = QueryPlan(steps=[a]), QueryPlan(steps=[b])
            q1, q2 = (p1 == p2), (p2 == p1)
            if bool(q1) != bool(q2):
                problems.append('%s: plan equality not symmetric' % what)
            elif q1 and print_law and repr(p1.steps) != repr(p2.steps):
                problems.append('%s: equal plans print differently' % what)
        except Exception as e:  # noqa
            problems.append('%s: plan == raises %s' % (what, type(e).__name__))
    for st in pool:
        for D in classes:
            if D is type(st) or not (issubclass(D, type(st)) or issubclass(type(st), D)) or D not in donors:
                continue
            twin = D.__new__(D)
            twin.__dict__ = _cp.deepcopy(vars(donors[D]))
            for k, v in vars(st).items():
                if k in twin.__dict__:
                    twin.__dict__[k] = _cp.deepcopy(v)
            laws(st, twin, '%s and its %s twin' % (type(st).__name__, D.__name__))
    for i, a in enumerate(pool):
        for b in pool[i:]:
            laws(a, b, 'steps %s / %s' % (type(a).__name__, type(b).__name__))
    # a step that holds an execution result (set_result, as an executor does): still equal to itself, and compared symmetrically with its
    # fresh copy - whichever way the library treats the stored result
    for st in pool:
        done = _cp.deepcopy(st)
        try:
            done.set_result({'rows': [1, 2]})
        except Exception:  # noqa
            continue
        n += 1
        try:
            if not (done == done):
                problems.append('%s holding a result is not equal to itself' % type(st).__name__)
            if not (QueryPlan(steps=[done]) == QueryPlan(steps=[done])):
                problems.append('a plan whose %s holds a result is not equal to itself' % type(st).__name__)
        except Exception as e:  # noqa
            problems.append('%s holding a result: == raises %s' % (type(st).__name__, type(e).__name__))
        laws(st, done, '%s and its copy holding a result' % type(st).__name__, print_law=False)    # repr shows the stored result, which is not SQL
    return n, problems, len(pool), sorted(set(type(s).__name__ for s in pool))
