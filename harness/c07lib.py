"""C07, typed constants: every kind of constant (int, float, bool, NULL, str) in every position, next to every other kind.
CrossHair/z3 split the finite-domain structure (position, kind of the first and of the second constant, dialect); each leaf
builds the tree, runs the real renderer and reads the literals back from the rendered text with an independent scanner
(refs/readers-style: the target's string rules, SQL number syntax); they must be the written values, in textual order."""
import re
import datetime as dt
try:
    from crosshair.tracers import NoTracing
except ImportError:
    import contextlib
    NoTracing = contextlib.nullcontext

DATE_VALUES = [dt.date(2020, 1, 2), dt.datetime(2020, 1, 2, 3, 4, 5), dt.datetime(2020, 1, 2, 3, 4, 5, 6),
               dt.datetime(2020, 1, 2, 3, 4, 5, tzinfo=dt.timezone(dt.timedelta(hours=-5, minutes=-30))), dt.timedelta(days=1, seconds=2),
               dt.timedelta(days=-1, microseconds=5), dt.date(1, 1, 1), dt.datetime(9999, 12, 31, 23, 59, 59, 999999)]
DIALECTS = ['mysql', 'postgresql', 'postgres', 'sqlite', 'mssql', 'oracle', 'Snowflake']
KINDS = ['int', 'float', 'bool', 'null', 'str', 'date']
VALUES = {
    'int': [0, 7, -3, 2 ** 40],
    'float': [2.5, 0.25, -0.5, 1e-07, 123456789.125, 3.0],
    'bool': [True, False],
    'null': [None],
    # strings: plain, a quote, number-like, empty, and the characters the property names (line break with blanks around it, double quote,
    # comment markers, back-slash, percent / colon / semicolon) - pairs of them meet in every position
    'str': ['x', "it's", '2.5', '', 'a \n b', 'q"q', '--c /*', 'x\\', '%s :p ;', "''",
            # what drivers and SQLAlchemy's own post-processing look for: named / positional / numbered parameter markers, format braces
            '%(a)s', '%(', ')s', ':name', '?', '$1', '%%', '{x}'],
    # dates: the property names them; the literal must read back as str(value) (the form both printers use)
    'date': DATE_VALUES,
}
POSITIONS = ['select-list', 'where-and', 'in-list', 'not-in-list-3', 'between', 'insert-rows', 'update-set-where', 'function-args', 'case', 'in-list-first-of-3', 'limit-offset', 'union-limit', 'subquery-limit']


def build(pos, v1, v2):
    """-> (tree, expected constants in textual order)"""
    from mindsdb_sql.parser import ast as A
    C = A.Constant
    c1, c2 = (lambda: A.NullConstant() if v1 is None else C(v1)), (lambda: A.NullConstant() if v2 is None else C(v2))
    I = A.Identifier
    t = I('t')
    if pos == 0:
        return A.Select(targets=[c1(), c2()], from_table=t), [v1, v2]
    if pos == 1:
        w = A.BinaryOperation('and', args=[A.BinaryOperation('=', args=[I('a'), c1()]), A.BinaryOperation('>', args=[I('b'), c2()])])
        return A.Select(targets=[I('a')], from_table=t, where=w), [v1, v2]
    if pos == 2:
        return A.Select(targets=[I('a')], from_table=t, where=A.BinaryOperation('in', args=[I('a'), A.Tuple([c1(), c2()])])), [v1, v2]
    if pos == 3:
        return A.Select(targets=[I('a')], from_table=t, where=A.BinaryOperation('not in', args=[I('a'), A.Tuple([c1(), c2(), c1()])])), [v1, v2, v1]
    if pos == 4:
        return A.Select(targets=[I('a')], from_table=t, where=A.BetweenOperation(args=[I('a'), c1(), c2()])), [v1, v2]
    if pos == 5:
        return A.Insert(table=t, columns=[I('a'), I('b')], values=[[c1(), c2()], [c2(), c1()]]), [v1, v2, v2, v1]
    if pos == 6:
        return A.Update(table=t, update_columns={'a': c1(), 'b': c2()}, where=A.BinaryOperation('=', args=[I('c'), c1()])), [v1, v2, v1]
    if pos == 7:
        return A.Select(targets=[A.Function('coalesce', args=[I('a'), c1(), c2()], alias=I('k'))], from_table=t), [v1, v2]
    if pos == 8:
        case = A.Case(rules=[[A.BinaryOperation('=', args=[I('a'), c1()]), c2()]], default=c1(), alias=I('k'))
        return A.Select(targets=[case], from_table=t), [v1, v2, v1]
    if pos == 9:
        return A.Select(targets=[I('a')], from_table=t, where=A.BinaryOperation('in', args=[I('a'), A.Tuple([c1(), c2(), c2()])])), [v1, v2, v2]
    if pos in (10, 11, 12):
        # counts: non-negative integers only
        if not (isinstance(v1, int) and not isinstance(v1, bool) and v1 >= 0 and isinstance(v2, int) and not isinstance(v2, bool) and v2 >= 0):
            return None, None
        if pos == 10:
            return A.Select(targets=[I('a')], from_table=t, order_by=[A.OrderBy(I('a'))], limit=C(v1), offset=C(v2)), {v1, v2}
        if pos == 11:
            u = A.Union(left=A.Select(targets=[I('a')], from_table=t), right=A.Select(targets=[I('a')], from_table=I('u'), order_by=[A.OrderBy(I('a'))], limit=C(v1)), unique=True)
            return u, {v1}
        sub = A.Select(targets=[I('a')], from_table=t, limit=C(v1), alias=I('s'))
        return A.Select(targets=[A.Star()], from_table=sub, limit=C(v2)), {v1, v2}
    raise ValueError(pos)


NUM = re.compile(r'[0-9]+(?:\.[0-9]*)?(?:[eE][+-]?[0-9]+)?|\.[0-9]+(?:[eE][+-]?[0-9]+)?')
WORD = re.compile(r'[A-Za-z_][A-Za-z_0-9$]*')


def literals(text, dialect):
    """independent scanner of the rendered text: the literal values in textual order (quoted identifiers, names and labels
    skipped).  Numbers as (int|float), strings as str, NULL as None, TRUE/FALSE as bool; a '-' directly before a number in operand
    position is its sign."""
    from refs.readers import read_sql_mysql, read_sql_standard
    out, i, prev = [], 0, None      # prev: kind of the previous significant token ('val', 'name', 'op', 'open', 'close')
    n = len(text)
    while i < n:
        ch = text[i]
        if ch.isspace():
            i += 1
            continue
        if ch in '"`[':
            close = {'"': '"', '`': '`', '[': ']'}[ch]
            j = text.index(close, i + 1)
            i, prev = j + 1, 'name'
            continue
        if ch == "'":
            j = i + 1
            while True:
                if j >= n:
                    raise ValueError('unterminated literal')
                if dialect == 'mysql' and text[j] == '\\':
                    j += 2
                    continue
                if text[j] == "'":
                    if j + 1 < n and text[j + 1] == "'":
                        j += 2
                        continue
                    break
                j += 1
            lit = text[i:j + 1]
            val = (read_sql_mysql if dialect == 'mysql' else read_sql_standard)(lit)
            out.append(val)
            i, prev = j + 1, 'val'
            continue
        m = NUM.match(text, i)
        if m and not (prev == 'name' and False):
            s = m.group(0)
            v = float(s) if any(c in s for c in '.eE') else int(s)
            if out and out[-1] == '-sign':
                out.pop()
                v = -v
            out.append(v)
            i, prev = m.end(), 'val'
            continue
        m = WORD.match(text, i)
        if m:
            w = m.group(0).upper()
            if w == 'NULL':
                out.append(None)
                prev = 'val'
            elif w in ('TRUE', 'FALSE'):
                out.append(w == 'TRUE')
                prev = 'val'
            else:
                prev = 'kw' if w in ('SELECT', 'WHERE', 'AND', 'OR', 'IN', 'NOT', 'BETWEEN', 'VALUES', 'SET', 'WHEN', 'THEN', 'ELSE', 'AS', 'FROM', 'CASE', 'END') else 'name'
                if prev == 'kw' and w == 'AS':
                    # a label follows: skip it (bare or quoted)
                    k = m.end()
                    while k < n and text[k].isspace():
                        k += 1
                    if k < n and text[k] in '"`[':
                        pass
                    else:
                        m2 = WORD.match(text, k)
                        if m2:
                            i = m2.end()
                            prev = 'name'
                            continue
            i = m.end()
            continue
        if ch == '-' and prev in (None, 'op', 'open', 'kw'):
            out.append('-sign')
            i, prev = i + 1, 'op'
            continue
        if ch in '(,':
            prev = 'open'
        elif ch == ')':
            prev = 'close'
        else:
            prev = 'op'
        i += 1
    return [x for x in out if x != '-sign']


def same(got, want):
    if isinstance(want, (dt.date, dt.timedelta)):
        want = str(want)
    if want is None or got is None:
        return got is None and want is None
    if isinstance(want, bool):
        return got is want or (isinstance(got, int) and not isinstance(got, bool) and got == int(want))
    if isinstance(want, str) or isinstance(got, str):
        return isinstance(want, str) and isinstance(got, str) and got == want
    if isinstance(want, int):
        return isinstance(got, (int, float)) and not isinstance(got, bool) and got == want and float(got) == float(want)
    return isinstance(got, (int, float)) and not isinstance(got, bool) and float(got) == want


def leaf(pos, k1, k2, d):
    from mindsdb_sql.render.sqlalchemy_render import SqlalchemyRender
    from sqlalchemy.exc import SQLAlchemyError
    problems, info, n = [], {'position': POSITIONS[pos], 'kinds': (KINDS[k1], KINDS[k2]), 'dialect': DIALECTS[d]}, 0
    dialect = DIALECTS[d]
    for v1 in VALUES[KINDS[k1]]:
        for v2 in VALUES[KINDS[k2]]:
            tree, want = build(pos, v1, v2)
            if tree is None:
                continue
            try:
                text = SqlalchemyRender(dialect).get_string(tree, with_failback=False)
            except (SQLAlchemyError, NotImplementedError):
                info['not_rendered'] = info.get('not_rendered', 0) + 1
                continue
            n += 1
            try:
                got = literals(text, dialect)
            except Exception as e:  # noqa
                problems.append('%r, %r in %s for %s: rendered text %r cannot be scanned (%s)' % (v1, v2, POSITIONS[pos], dialect, text, e))
                continue
            if isinstance(want, set):
                # LIMIT / OFFSET counts: each written count must appear as a literal (clause order and spelling differ per dialect;
                # a zero OFFSET may be added or omitted)
                missing = [w for w in want if not any(same(g, w) for g in got) and w != 0]
                if missing:
                    problems.append('%r, %r in %s for %s: rendered text %r lost the count(s) %r' % (v1, v2, POSITIONS[pos], dialect, ' '.join(text.split()), missing))
                continue
            if len(got) != len(want) or not all(same(g, w) for g, w in zip(got, want)):
                problems.append('%r, %r in %s for %s: rendered text %r carries the literals %r, written were %r' % (v1, v2, POSITIONS[pos], dialect, ' '.join(text.split()), got, want))
    info['renders'] = n
    return problems, info


def ci(n, hi):
    for v in range(hi + 1):
        if n == v:
            return v
    return hi


def step(pos, k1, k2, d):
    pos, k1, k2, d = ci(pos, len(POSITIONS) - 1), ci(k1, len(KINDS) - 1), ci(k2, len(KINDS) - 1), ci(d, len(DIALECTS) - 1)
    with NoTracing():
        pr, info = leaf(pos, k1, k2, d)
    return len(pr)
