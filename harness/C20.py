"""C20 — isolation.  What this family decides (DESIGN C20): call histories (SYMTOK paths after predecessor calls of every
class, through the real get_lexer_parser), a structural fingerprint of all library-global state before/after batteries of
parse/plan/render calls, and plan(q2) on catalog objects already used for q1 vs fresh ones.  NOT decided: real thread
interleavings and PYTHONHASHSEED (reported as a sanity sample only)."""
import os, sys, json, hashlib, subprocess, types
from engines.common import Run, ch_obligations, VERIF, PY
from engines import sweep as SW
PYPATH = (os.environ['VERIF_REPO'] + os.pathsep if os.environ.get('VERIF_REPO') else '') + VERIF      # scratch copies of the repository (seed trials) come first


# ---- structural fingerprint of library-global state -----------------------------------------------------
def fingerprint():
    import inspect
    seen = {}
    h = hashlib.sha1()

    def visit(o, depth):
        if depth > 7:
            return 'DEPTH'
        if isinstance(o, (str, int, float, bool, type(None), bytes)):
            return repr(o)
        if isinstance(o, (types.FunctionType, types.BuiltinFunctionType, types.MethodType, types.ModuleType, type, property,
                          staticmethod, classmethod)) or inspect.isroutine(o):
            return 'F:' + getattr(o, '__qualname__', type(o).__name__)
        if id(o) in seen:
            return 'REF%d' % seen[id(o)]
        seen[id(o)] = len(seen)
        if isinstance(o, dict):
            items = []
            for k, v in o.items():
                items.append((visit(k, depth + 1), visit(v, depth + 1)))
            return 'D{' + ','.join('%s:%s' % kv for kv in sorted(items)) + '}'
        if isinstance(o, (list, tuple)):
            return 'L[' + ','.join(visit(x, depth + 1) for x in o) + ']'
        if isinstance(o, (set, frozenset)):
            return 'S{' + ','.join(sorted(visit(x, depth + 1) for x in o)) + '}'
        if hasattr(o, '__dict__'):
            return 'O:%s{' % type(o).__name__ + ','.join('%s=%s' % (k, visit(v, depth + 1)) for k, v in sorted(vars(o).items())) + '}'
        if hasattr(o, '__slots__'):
            return 'O:%s{' % type(o).__name__ + ','.join('%s=%s' % (k, visit(getattr(o, k, None), depth + 1)) for k in o.__slots__) + '}'
        return 'X:' + type(o).__name__
    parts = {}
    for name, mod in sorted(sys.modules.items()):
        if not (name == 'sly' or name.startswith('sly.') or name == 'mindsdb_sql' or name.startswith('mindsdb_sql.')):
            continue
        if mod is None:
            continue
        for k, v in sorted(vars(mod).items()):
            if k.startswith('__'):
                continue
            if isinstance(v, type) and getattr(v, '__module__', None) == name:
                for ck, cv in sorted(vars(v).items()):
                    if ck.startswith('__') or callable(cv) and not isinstance(cv, type):
                        continue
                    parts['%s.%s.%s' % (name, k, ck)] = hashlib.sha1(visit(cv, 0).encode()).hexdigest()[:12]
            elif not isinstance(v, (types.ModuleType, type)) and not callable(v):
                parts['%s.%s' % (name, k)] = hashlib.sha1(visit(v, 0).encode()).hexdigest()[:12]
        # objects held as DEFAULT ARGUMENT VALUES of the library's functions and methods are created once per process and shared by every
        # call (and every thread): they are process-global state like a module attribute
        fns = []
        for k, v in sorted(vars(mod).items()):
            if isinstance(v, types.FunctionType) and getattr(v, '__module__', None) == name:
                fns.append(('%s.%s' % (name, k), v))
            elif isinstance(v, type) and getattr(v, '__module__', None) == name:
                for ck, cv in sorted(vars(v).items()):
                    f_ = cv.__func__ if isinstance(cv, (staticmethod, classmethod)) else cv
                    if isinstance(f_, types.FunctionType):
                        fns.append(('%s.%s.%s' % (name, k, ck), f_))
        for fname, f_ in fns:
            dflt = list(f_.__defaults__ or ()) + [x for _, x in sorted((f_.__kwdefaults__ or {}).items())]
            held = [x for x in dflt if not isinstance(x, (str, int, float, bool, type(None), bytes, frozenset)) and not callable(x) and not (isinstance(x, tuple) and not x)]
            if held:
                parts['%s.<default arguments>' % fname] = hashlib.sha1(visit(held, 0).encode()).hexdigest()[:12]
    return parts


def deep_repr(o, depth=0, seen=None):
    """structural text of an object (attributes, items), identities replaced by visit order"""
    seen = {} if seen is None else seen
    if depth > 5:
        return 'DEPTH'
    if isinstance(o, (str, int, float, bool, type(None), bytes)):
        return repr(o)
    if callable(o) or isinstance(o, (types.ModuleType, type)):
        return 'F:' + getattr(o, '__qualname__', type(o).__name__)
    if id(o) in seen:
        return 'REF%d' % seen[id(o)]
    seen[id(o)] = len(seen)
    if isinstance(o, dict):
        return 'D{' + ','.join(sorted('%s:%s' % (deep_repr(k, depth + 1, seen), deep_repr(v, depth + 1, seen)) for k, v in o.items())) + '}'
    if isinstance(o, (list, tuple)):
        return 'L[' + ','.join(deep_repr(x, depth + 1, seen) for x in o) + ']'
    if isinstance(o, (set, frozenset)):
        return 'S{' + ','.join(sorted(deep_repr(x, depth + 1, seen) for x in o)) + '}'
    if hasattr(o, '__dict__'):
        return 'O:%s{' % type(o).__name__ + ','.join('%s=%s' % (k, deep_repr(v, depth + 1, seen)) for k, v in sorted(vars(o).items())) + '}'
    if hasattr(o, '__slots__'):
        return 'O:%s{' % type(o).__name__ + ','.join('%s=%s' % (k, deep_repr(getattr(o, k, None), depth + 1, seen)) for k in o.__slots__) + '}'
    return 'X:' + type(o).__name__


def default_argument_objects():
    """(function name, object) for every mutable object held as a default argument value of a function / method of mindsdb_sql.* / sly.*"""
    out = []
    for name, mod in sorted(sys.modules.items()):
        if mod is None or not (name == 'sly' or name.startswith('sly.') or name == 'mindsdb_sql' or name.startswith('mindsdb_sql.')):
            continue
        fns = []
        for k, v in sorted(vars(mod).items()):
            if isinstance(v, types.FunctionType) and getattr(v, '__module__', None) == name:
                fns.append(('%s.%s' % (name, k), v))
            elif isinstance(v, type) and getattr(v, '__module__', None) == name:
                for ck, cv in sorted(vars(v).items()):
                    f_ = cv.__func__ if isinstance(cv, (staticmethod, classmethod)) else cv
                    if isinstance(f_, types.FunctionType):
                        fns.append(('%s.%s.%s' % (name, k, ck), f_))
        for fname, f_ in fns:
            dflt = list(f_.__defaults__ or ()) + [x for _, x in sorted((f_.__kwdefaults__ or {}).items())]
            for x in dflt:
                if not isinstance(x, (str, int, float, bool, type(None), bytes, frozenset)) and not callable(x) and not (isinstance(x, tuple) and not x):
                    out.append((fname, x))
    return out


def watch_slots():
    """module-level and class-level slots of mindsdb_sql.* / sly.*: scalars by value, containers by (identity, length)"""
    slots = []
    for name, mod in sorted(sys.modules.items()):
        if mod is None or not (name == 'sly' or name.startswith('sly.') or name == 'mindsdb_sql' or name.startswith('mindsdb_sql.')):
            continue
        dicts = [(name, vars(mod))]
        for k, v in list(vars(mod).items()):
            if isinstance(v, type) and getattr(v, '__module__', None) == name:
                dicts.append(('%s.%s' % (name, k), v.__dict__))
        for dn, dd in dicts:
            for k, v in list(dd.items()):
                if k.startswith('__'):
                    continue
                if isinstance(v, (str, int, float, bool, type(None), bytes)):
                    slots.append((dn, dd, k, 'v', v))
                elif isinstance(v, (dict, list, set)):
                    slots.append((dn, dd, k, 'c', (id(v), len(v))))
    # objects held as default argument values: shared by every call and every thread; watched by structure
    for fname, obj in default_argument_objects():
        slots.append((fname + '.<default argument>', {'x': obj}, 'x', 'd', deep_repr(obj)))
    return slots


def during_call_watch(every=5):
    """run the battery with a profile hook that compares the watch slots with their values before the battery at every `every`-th
    entry into a library function: state that a call changes and puts back (invisible to a before/after fingerprint) is visible to
    whatever runs concurrently.  -> (events seen, comparisons, first differences)"""
    slots = watch_slots()
    st = {'events': 0, 'checks': 0, 'diffs': []}
    roots = ('mindsdb_sql', 'sly')

    def hook(frame, event, arg):
        if event != 'call' or st['diffs']:
            return
        fn = frame.f_code.co_filename
        if '/mindsdb_sql/' not in fn and '/sly/' not in fn:
            return
        st['events'] += 1
        if st['events'] % every:
            return
        st['checks'] += 1
        for dn, dd, k, kind, base in slots:
            cur = dd.get(k, '<deleted>')
            if kind == 'd':
                now = deep_repr(cur)
                if now != base:
                    st['diffs'].append({'slot': dn, 'before': base[:80], 'during': now[:80], 'inside': frame.f_code.co_name})
            elif kind == 'v':
                if cur is not base and cur != base:
                    st['diffs'].append({'slot': '%s.%s' % (dn, k), 'before': repr(base)[:80], 'during': repr(cur)[:80], 'inside': frame.f_code.co_qualname if hasattr(frame.f_code, 'co_qualname') else frame.f_code.co_name})
            elif not isinstance(cur, (dict, list, set)) or (id(cur), len(cur)) != base:
                st['diffs'].append({'slot': '%s.%s' % (dn, k), 'before': 'container %r' % (base,), 'during': repr(cur)[:80], 'inside': frame.f_code.co_name})
    sys.setprofile(hook)
    try:
        battery()
    finally:
        sys.setprofile(None)
    return st['events'], st['checks'], st['diffs']


def render_history():
    """(runs in a fresh interpreter) every statement of a small family is rendered by renderers built from the SQLAlchemy
    dialect CLASSES first, then renderers for all dialect NAMES are created and used (plus failing parses/plans), then the
    first renderings are repeated; they must be identical"""
    from sqlalchemy.dialects import mysql, postgresql, sqlite, mssql, oracle
    from mindsdb_sql import parse_sql
    from mindsdb_sql.render.sqlalchemy_render import SqlalchemyRender
    from harness import c17lib
    classes = {'mysql.dialect': mysql.dialect, 'postgresql.dialect': postgresql.dialect, 'sqlite.dialect': sqlite.dialect,
               'mssql.dialect': mssql.dialect, 'oracle.dialect': oracle.dialect}
    sqls = [s for s in c17lib.EXTRA] + ["SELECT CAST(a AS FLOAT) FROM t", "SELECT CAST(a AS INT) AS x FROM t LIMIT 2", "INSERT INTO t (a) VALUES (1), (2)",
                                         "SELECT a FROM t ORDER BY a NULLS FIRST LIMIT 1 OFFSET 1", "SELECT TRUE, FALSE, NULL FROM t"]
    trees = []
    for s_ in sqls:
        try:
            trees.append((s_, parse_sql(s_, 'mindsdb')))
        except Exception:  # noqa
            pass

    def pass_(which):
        out = {}
        for cname, cls in classes.items():
            for s_, t in trees:
                try:
                    out[(cname, s_)] = SqlalchemyRender(cls).get_string(t)
                except Exception as e:  # noqa
                    out[(cname, s_)] = 'EXC %s' % type(e).__name__
        return out
    before = pass_(0)
    for name in c17lib.DIALECTS:
        r = SqlalchemyRender(name)
        for s_, t in trees:
            try:
                r.get_string(t)
                r.get_exec_params(t)
            except Exception:  # noqa
                pass
    battery()
    after = pass_(1)
    diffs = [{'dialect': k[0], 'sql': k[1], 'before': before[k], 'after': after[k]} for k in before if before[k] != after[k]]
    return {'compared': len(before), 'differences': diffs}


def _renamed(sql):
    """the same statement over differently named tables / CTEs / aliases (catalog names are kept)"""
    import re
    sql = re.sub(r'\btbl(\d)', r'tqq\1', sql)
    sql = re.sub(r'\b(c|w|s|s1|df)\b(?!\s*\()', lambda m: m.group(1) + 'q', sql)
    return sql


HASH_SEEDS = ('1', '777', '4242')


def results_digest():
    """{what: sha1 of the result} for parse / print / render / plan / prepare results of the corpus and the planner families (run in a fresh
    interpreter per PYTHONHASHSEED; the digests must not depend on the seed)"""
    import hashlib
    from mindsdb_sql import parse_sql
    from mindsdb_sql.render.sqlalchemy_render import SqlalchemyRender
    from harness import planlib as PL, c0910lib, c12lib

    def h(x):
        return hashlib.sha1(repr(x).encode()).hexdigest()[:12]
    out = {}
    corpus = SW.harvest_corpus()
    for d in SW.DIALECTS:
        for i, sql in enumerate(corpus[d][:150] + ['SELECT # x', 'SELECT FROM', '', 'SELECT 1 1', "SELECT 'unterminated", 'SELECT a b c FROM', 'CREATE MODEL m PREDICT']):
            try:
                ast = parse_sql(sql, d)
                r = [str(ast), ast.to_tree()]
                if d == 'mindsdb':
                    for dn in ('mysql', 'postgres', 'sqlite'):
                        r.append(SqlalchemyRender(dn).get_string(ast))
            except Exception as e:  # noqa
                r = ['%s: %s' % (type(e).__name__, e)]
            out['parse-print-render|%s|%d' % (d, i)] = h(r)
    for name in c0910lib.SK:
        p, e = c0910lib.plan_or_error(c0910lib.text(name, (), (), ()), PL.catalog(api=True, ts=True))
        out['plan|%s' % name] = h(p.steps if p else e)
        p2, e2 = c0910lib.plan_or_error(c0910lib.text(name, (), (), ()), PL.catalog(api=True, ts=True))
        if h(p2.steps if p2 else e2) != out['plan|%s' % name]:
            out['repeat-differs|plan|%s' % name] = [repr(p.steps if p else e)[:600], repr(p2.steps if p2 else e2)[:600]]
    for i in range(0, len(c0910lib.GEN), 5):
        p, e = c0910lib.plan_or_error(c0910lib.text(i, (), (), ()), PL.catalog())
        out['plan|gen%d' % i] = h(p.steps if p else e)
        p2, e2 = c0910lib.plan_or_error(c0910lib.text(i, (), (), ()), PL.catalog())
        if h(p2.steps if p2 else e2) != out['plan|gen%d' % i]:
            out['repeat-differs|plan|gen%d' % i] = [repr(p.steps if p else e)[:600], repr(p2.steps if p2 else e2)[:600]]
    for name, (tmpl, k) in c12lib.SKELETONS.items():
        for full in (True, False):
            mask = tuple([full] * k)
            prepared, inlined, vals, n = c12lib.texts(name, mask)
            try:
                planner = c12lib.make_planner()
                steps = []
                for st in (planner.prepare_steps(parse_sql(prepared, 'mindsdb')) or []):
                    steps.append(repr(st))
                    st.set_result(c12lib._columns_result(st))
                r = [steps, repr(planner.get_statement_info()), [repr(x) for x in planner.execute_steps(vals)]]
            except Exception as e:  # noqa
                r = ['%s: %s' % (type(e).__name__, e)]
            out['prepare|%s|%s' % (name, 'all' if full else 'none')] = h(r)
    return out


def battery(rename=False):
    """a battery of parse / plan / render calls over the corpus and the planner family, failures included.  rename=True runs the
    same statements with other table / CTE / alias names: lazily initialised state does not depend on names, leaked state does"""
    ren = _renamed if rename else (lambda x: x)
    from mindsdb_sql import parse_sql
    from mindsdb_sql.planner import plan_query
    from mindsdb_sql.render.sqlalchemy_render import SqlalchemyRender
    from harness import planlib as PL, c0910lib
    n = 0
    corpus = SW.harvest_corpus()
    for d in SW.DIALECTS:
        for sql in corpus[d][:150] + ['SELECT # x', 'SELECT FROM', '', 'SELECT 1 1', "SELECT 'unterminated"]:
            try:
                ast = parse_sql(ren(sql), d)
                str(ast); ast.to_tree(); ast.copy()
                if d == 'mindsdb':
                    for dn in ('mysql', 'postgres', 'sqlite'):
                        SqlalchemyRender(dn).get_string(ast)
            except Exception:  # noqa
                pass
            n += 1
    for name in c0910lib.SK:
        for ad in (False, True):
            try:
                PL.plan_sql(ren(c0910lib.text(name, (True,), (), ())), **PL.catalog(as_dicts=ad, api='apidb' in c0910lib.SK[name][0], ts='tspred' in c0910lib.SK[name][0]))
            except Exception:  # noqa
                pass
            n += 1
    # every other planner family of this framework (generated joins, federated, single-integration, table-model, time-series,
    # prepared statements): whatever global state some planning path writes, some member of these reaches it
    texts = [c0910lib.text(i, (), (), ()) for i in range(0, len(c0910lib.GEN), 7)]
    try:
        from harness import c08lib, c11lib, c12lib, c14lib, c15lib
        for mod in (c08lib, c11lib, c12lib, c14lib, c15lib):
            for attr in ('EXTRA', 'MEMBERS', 'FAMILY', 'SKELETONS', 'STATEMENTS'):
                v = getattr(mod, attr, None)
                if isinstance(v, dict):
                    v = list(v.values())
                for x in (v or []):
                    if isinstance(x, (tuple, list)) and x and isinstance(x[0], str):
                        x = x[0]
                    if isinstance(x, str) and x[:6].upper() in ('SELECT', 'INSERT', 'UPDATE', 'DELETE', 'CREATE', 'WITH c', 'WITH w') or (isinstance(x, str) and x.upper().startswith('WITH')):
                        texts.append(x)
    except Exception:  # noqa
        pass
    # rejected texts whose error messages try out suggestions (statements cut after a token, with and without a wrong token appended)
    try:
        from harness import c19hist
        for t in c19hist.texts('quick')[:400:2]:
            try:
                parse_sql(ren(t), 'mindsdb')
            except Exception:  # noqa
                pass
            n += 1
    except Exception:  # noqa
        pass
    for sql in texts:
        for kw in (PL.catalog(ts=True, api=True), dict(integrations=['int1', 'int2', 'int'], default_namespace='int', predictor_metadata=[{'name': 'pred', 'integration_name': 'mindsdb'}])):
            try:
                PL.plan_sql(ren(sql.replace('?', '1')), **kw)
            except Exception:  # noqa
                pass
            n += 1
    return n


def catalog_reuse(i, j, as_dicts, legacy):
    """plan(q_j) with catalog objects that already served q_i == plan(q_j) with fresh catalog objects; and a second planner
    built from the used catalog objects behaves like one built from fresh ones"""
    from harness import planlib as PL, c0910lib
    import copy
    names = list(c0910lib.SK)
    n1, n2 = names[i % len(names)], names[j % len(names)]
    api = True
    ts = True
    shared = PL.catalog(as_dicts=as_dicts, legacy_meta=legacy, api=api, ts=ts)
    q1, q2 = c0910lib.text(n1, (True, False, True), (), ()), c0910lib.text(n2, (), (), ())
    r1, e1 = c0910lib.plan_or_error(q1, shared)
    used, ue = c0910lib.plan_or_error(q2, shared)
    fresh, fe = c0910lib.plan_or_error(q2, PL.catalog(as_dicts=as_dicts, legacy_meta=legacy, api=api, ts=ts))
    problems = []
    if ue != fe:
        problems.append('planning %r after %r on the same catalog objects: %s, on fresh ones: %s' % (q2, q1, ue, fe))
    elif used is not None and repr(used.steps) != repr(fresh.steps):
        problems.append('plan of %r differs after %r was planned with the same catalog objects' % (q2, q1))
    return problems, {'first': q1, 'second': q2}


T = '''
def reuse_{lo}(i: int, j: int, as_dicts: bool, legacy: bool) -> int:
    """
    pre: {lo} <= i < {hi} and 0 <= j < {n}
    post: _ == 0
    """
    i, j, as_dicts, legacy = ci(i, {n}), ci(j, {n}), cb(as_dicts), cb(legacy)
    with NoTracing():
        return len(catalog_reuse(i, j, as_dicts, legacy)[0])
'''


def gen():
    from harness import c0910lib
    n = len(c0910lib.SK)
    d = os.path.join(VERIF, '.scratch')
    os.makedirs(d, exist_ok=True)
    path = os.path.join(d, 'gen_ch_C20.py')
    names = []
    with open(path, 'w') as f:
        f.write('from harness.C20 import catalog_reuse\nfrom harness.planlib import ci, cb, NoTracing\n')
        for lo in range(0, n, 2):
            f.write(T.format(lo=lo, hi=min(n, lo + 2), n=n))
            names.append('reuse_%d' % lo)
    return path, names


def r_reuse(args):
    pr, info = catalog_reuse(args['i'], args['j'], bool(args['as_dicts']), bool(args['legacy']))
    return bool(pr), dict(info, problems=pr), 'catalog-reuse:%s->%s' % (info['first'][:40], info['second'][:40]), pr[0] if pr else ''


def run(tier):
    run = Run('C20', tier, level='other')
    run.extra['explanation'] = ('Scope decided here: call histories (predecessor classes x every SYMTOK path of <= K tokens, through the real '
                                'get_lexer_parser), invariance of a structural fingerprint of all module/class-level state of mindsdb_sql and sly '
                                'under batteries of parse/plan/render calls, and plan equality on re-used vs fresh catalog objects. '
                                'Thread interleavings and PYTHONHASHSEED are NOT decided by this technique; a two-seed re-run is reported as a sample.')
    run.functions = ['parse_sql (real get_lexer_parser)', 'plan_query', 'SqlalchemyRender.get_string', 'module/class state of mindsdb_sql.* and sly.*']
    run.assumptions = ['non-interference lemma: if no call changes state reachable from the libraries\' globals or from its arguments (fingerprint unchanged) and no call temporarily mutates-and-restores shared objects, then concurrent calls cannot influence each other; the temporary-mutation assumption is not checked',
                       'schedules (real thread interleavings) and hash seeds are outside what CrossHair / our executors model']
    KS = (1, 2) if tier == 'quick' else (1, 2, 3)
    # ---- (a) histories
    for d in SW.DIALECTS:
        for K in KS:
            base = SW.sweep_history(d, K, 'none')
            run.add_stats({'paths': sum(r['paths'] for r in base), 'solver_calls': sum(r['solver_calls'] for r in base), 'solver_s': sum(r['solver_s'] for r in base)})
            for pred in SW.PREDECESSORS:
                if pred == 'none':
                    continue
                res = SW.sweep_history(d, K, pred)
                run.add_stats({'paths': sum(r['paths'] for r in res), 'solver_calls': sum(r['solver_calls'] for r in res), 'solver_s': sum(r['solver_s'] for r in res)})
                same = all(a['digest'] == b['digest'] and a['paths'] == b['paths'] for a, b in zip(base, res))
                name = 'history:%s:K=%d:after-%s' % (d, K, pred)
                if same:
                    run.ob(name, 'discharged', 'paths=%d' % sum(r['paths'] for r in res))
                else:
                    run.counterexample('history:%s:%s' % (d, pred), 'results of parse_sql(%s) on %d-token streams differ after a %s call' % (d, K, pred),
                                       {'dialect': d, 'K': K, 'predecessor': pred}, True)
                    run.ob(name, 'counterexample', None)
    # ---- (b) fingerprint
    try:
        battery()          # warm-up (lazy imports, reserved words)
        fp0 = fingerprint()
        n = battery(rename=True) + battery()
        fp1 = fingerprint()
        changed = sorted(k for k in set(fp0) | set(fp1) if fp0.get(k) != fp1.get(k))
        run.validated += n
        if changed:
            run.counterexample('global-state:%s' % changed[0], 'library-global state changed by parse/plan/render calls: %s' % changed[:5], {'changed': changed[:20]}, True)
            run.ob('fingerprint:globals-unchanged', 'counterexample', changed[:5])
        else:
            run.ob('fingerprint:globals-unchanged', 'discharged', '%d state roots, %d calls' % (len(fp0), n))
        run.sample({'fingerprint_roots': len(fp0), 'examples': sorted(fp0)[:5]})
    except Exception as e:  # noqa
        run.error('fingerprint part crashed: %r' % e)
    # ---- (b2) the same slots observed DURING the calls (temporarily changed and restored state)
    try:
        ev, ck, diffs = during_call_watch()
        run.validated += ck
        if diffs:
            d0 = diffs[0]
            run.counterexample('global-state-during-call:%s' % d0['slot'], 'library-global state %s is %s while a call is running (inside %s) and %s before it: concurrent calls see the changed value' %
                               (d0['slot'], d0['during'], d0['inside'], d0['before']), {'differences': diffs[:5]}, True)
            run.ob('fingerprint:globals-unchanged-during-calls', 'counterexample', diffs[:3])
        else:
            run.ob('fingerprint:globals-unchanged-during-calls', 'discharged', '%d library function entries, module/class slots compared at %d of them' % (ev, ck))
    except Exception as e:  # noqa
        run.error('during-call watch crashed: %r' % e)
    # ---- (c) catalog reuse
    path, names = gen()
    ch_obligations(run, path, [dict(fn=n_, twin=None, replay=r_reuse) for n_ in names], cond_to=300 if tier == 'quick' else 900, path_to=60)
    # ---- (d) render histories in a fresh interpreter: a renderer built from a dialect CLASS before / after other renderers
    try:
        code = ("import sys, json, warnings; warnings.filterwarnings('ignore'); sys.path.insert(0, %r)\n"
                "from harness.C20 import render_history\nprint('@@' + json.dumps(render_history()))\n") % VERIF
        o = subprocess.run([PY, '-c', code], capture_output=True, text=True, env=dict(os.environ, PYTHONPATH=PYPATH), timeout=600)
        line = [l for l in o.stdout.splitlines() if l.startswith('@@')]
        if not line:
            run.error('render history subprocess failed: %s' % (o.stderr[-300:],))
        else:
            res = json.loads(line[0][2:])
            run.validated += res['compared']
            if res['differences']:
                d0 = res['differences'][0]
                run.counterexample('render-history:%s' % d0['dialect'], 'rendering %r with %s gives %r before and %r after other renderers were used' %
                                   (d0['sql'], d0['dialect'], d0['before'], d0['after']), {'differences': res['differences'][:5]}, True)
                run.ob('render-history:dialect-class-vs-name', 'counterexample', len(res['differences']))
            else:
                run.ob('render-history:dialect-class-vs-name', 'discharged', '%d renderings compared' % res['compared'])
    except Exception as e:  # noqa
        run.error('render history part crashed: %r' % e)
    # ---- hash-seed sample (not a verdict): the results of the whole battery in fresh interpreters under several PYTHONHASHSEED values
    try:
        outs = {}
        for seed in HASH_SEEDS:
            code = "import sys; sys.path.insert(0, %r)\nfrom harness.C20 import results_digest\nimport json\nprint('DIGEST ' + json.dumps(results_digest()))\n" % VERIF
            o = subprocess.run([PY, '-W', 'ignore', '-c', code], capture_output=True, text=True, env=dict(os.environ, PYTHONHASHSEED=seed, PYTHONPATH=PYPATH), timeout=600)
            line = [l for l in o.stdout.splitlines() if l.startswith('DIGEST ')]
            outs[seed] = json.loads(line[-1][7:]) if line else {'ERR': o.stderr[-300:]}
        base = outs[HASH_SEEDS[0]]
        diff = sorted(k for s_ in HASH_SEEDS[1:] for k in set(base) | set(outs[s_]) if base.get(k) != outs[s_].get(k))
        run.extra['hash_seed_sample'] = {'seeds': list(HASH_SEEDS), 'results_compared': len(base), 'equal': not diff, 'note': 'sampling of %d process configurations, not a solver verdict' % len(HASH_SEEDS)}
        run.validated += len(base) * (len(HASH_SEEDS) - 1)
        for k in sorted(k for k in base if k.startswith('repeat-differs|'))[:3]:
            run.counterexample('same-input-twice:%s' % k.split('|')[1], 'planning the same statement twice in one process gives different plans (%s)' % k, {'what': k, 'results': base[k]}, True)
        if 'ERR' in base or any('ERR' in outs[s_] for s_ in HASH_SEEDS):
            run.extra['hash_seed_sample']['note'] += '; a child interpreter failed: %s' % [outs[s_].get('ERR') for s_ in HASH_SEEDS]
        elif diff:
            kinds = sorted(set(k.split('|')[0] for k in diff))
            for kd in kinds:
                ex = [k for k in diff if k.split('|')[0] == kd][0]
                run.counterexample('hash-seed:%s' % kd, 'result of %s differs between processes with different PYTHONHASHSEED (%s)' % (ex, ', '.join(HASH_SEEDS)),
                                   {'what': ex, 'per_seed': {s_: outs[s_].get(ex) for s_ in HASH_SEEDS}}, True)
    except Exception as e:  # noqa
        run.extra['hash_seed_sample'] = 'failed: %r' % e
    run.finish()


def replay(path):
    r = json.load(open(path))
    print(json.dumps(r, indent=1))
    return 2
