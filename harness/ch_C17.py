"""C17 units: the repo's mapping into SQLAlchemy with names / operators / arities chosen from vocabularies by symbolic
indexes (CrossHair/z3 split the index space; each leaf runs the real renderer natively).  Symbolic *strings* through
SQLAlchemy were measured to be out of reach (about 3 s of solver time per path: upper()/dict lookups on symbolic str)."""
from mindsdb_sql.parser.ast import (Select, TypeCast, Identifier, UnaryOperation, BinaryOperation, Constant, Function,
                                    CreateTable, TableColumn, Tuple)
from mindsdb_sql.render import sqlalchemy_render as R
from sqlalchemy.exc import SQLAlchemyError
from harness.planlib import NoTracing, ci, cb

DIALECTS = ('mysql', 'postgresql', 'postgres', 'sqlite', 'mssql', 'oracle', 'Snowflake')
_r0 = R.SqlalchemyRender('sqlite')
TYPES = sorted(_r0.types_map)[:40] + ['int', 'Int8', 'float32', 'FLOAT', 'serial', 'bool', '', 'foo', 'varchar(10)', 'int x', 'é', 'INT' * 3, 'DOUBLE PRECISION', 'text', 'json']
OPS = ['+', '-', '*', '/', '%', '=', '!=', '<>', '>', '<', '>=', '<=', 'is', 'is not', 'like', 'not like', 'in', 'not in', '||', 'and', 'or',
       'AND', 'Or', '->', '->>', '~', 'xor', '', 'not', 'NOT', '!', '<=>', 'between', '@@', ':=']
FUNCS = ['count', 'sum', 'coalesce', 'substring', 'my_fn', 'COUNT', '', 'a b', 'distinct', 'cast', '__class__', 'label', 'over']


def _contract(q, d):
    r = R.SqlalchemyRender(DIALECTS[d])
    tree0 = q.to_tree()
    out = r.get_string(q)               # fallback on: never raises, returns str
    if not isinstance(out, str):
        return False
    try:
        out2 = r.get_string(q, with_failback=False)
        if not isinstance(out2, str):
            return False
    except (SQLAlchemyError, NotImplementedError):
        pass
    return q.to_tree() == tree0


def leaf(kind, i, j, flag, d):
    a = Identifier(parts=['a'])
    t = Identifier(parts=['t'])
    if kind == 0:
        q = Select(targets=[TypeCast(type_name=TYPES[i % len(TYPES)], arg=a, precision=[j] if flag else None)], from_table=t)
    elif kind == 1:
        rhs = Tuple([Constant(1), Constant(2)]) if flag else (a if j == 1 else Constant(1))
        q = Select(targets=[a], from_table=t, where=BinaryOperation(OPS[i % len(OPS)], args=[Identifier(parts=['b']), rhs]))
    elif kind == 2:
        arg = Tuple([Constant(1), Constant(2)]) if flag else a
        q = Select(targets=[UnaryOperation(OPS[i % len(OPS)], args=[arg])], from_table=t)
    elif kind == 3:
        args = [Identifier(parts=['c%d' % k]) for k in range(j)]
        q = Select(targets=[Function(FUNCS[i % len(FUNCS)], args=args, distinct=flag, from_arg=Constant(2) if j == 3 else None)], from_table=t)
    elif kind == 4:
        col = TableColumn(name='a', type=TYPES[i % len(TYPES)], default='1' if flag else None, nullable=(j == 1), length=None)
        q = CreateTable(name=Identifier(parts=['x%d' % k for k in range(1 + j)]), columns=[col])
    else:
        tgt = Identifier(parts=['a%d' % k for k in range(1 + (i % 4))])
        if flag:
            tgt.alias = Identifier(parts=['x%d' % k for k in range(1 + j)])
        q = Select(targets=[tgt], from_table=Identifier(parts=['p%d' % k for k in range(1 + j)]))
    return _contract(q, d)


def unit(kind, i, j, flag, d):
    # no PEP316 contract here on purpose: CrossHair may short-circuit calls to contracted functions
    kind, i, j, d, flag = ci(kind, 5), ci(i, 55), ci(j, 3), ci(d, 6), cb(flag)
    with NoTracing():
        return leaf(kind, i, j, flag, d)
