"""Statement family shared by C09 (well-formed plans) and C10 (routing): skeletons with qualifier slots
{A}=int1 {B}=int2 {M}=mindsdb {P}=proj; symbolic inputs = spelling bits of the qualifiers, catalog form bits,
USING partition_size presence.  Leaves run the real parse_sql + plan_query natively."""
import re
from harness import planlib as PL

# name: (template, expected fetches {integration: {tables}}, expected predictors [(namespace, lower-cased parts)], targets of DML)
SK = {
    'from': ("SELECT a FROM {A}.tbl1 WHERE a = 1", {'int1': {'tbl1'}}, []),
    'join2': ("SELECT t1.a, t2.b FROM {A}.tbl1 AS t1 JOIN {B}.tbl2 AS t2 ON t1.id = t2.id WHERE t1.a > 1", {'int1': {'tbl1'}, 'int2': {'tbl2'}}, []),
    'join2-noalias': ("SELECT * FROM {A}.tbl1 JOIN {B}.tbl2 ON tbl1.id = tbl2.id", {'int1': {'tbl1'}, 'int2': {'tbl2'}}, []),
    'join3': ("SELECT t1.a FROM {A}.tbl1 AS t1 JOIN {B}.tbl2 AS t2 ON t1.id = t2.id LEFT JOIN {A}.tbl3 AS t3 ON t3.id = t1.id",
              {'int1': {'tbl1', 'tbl3'}, 'int2': {'tbl2'}}, []),
    'where-subquery': ("SELECT a FROM {A}.tbl1 WHERE a IN (SELECT b FROM {B}.tbl2)", {'int1': {'tbl1'}, 'int2': {'tbl2'}}, []),
    'target-subquery': ("SELECT (SELECT max(b) FROM {B}.tbl2) AS m, a FROM {A}.tbl1", {'int1': {'tbl1'}, 'int2': {'tbl2'}}, []),
    'case-operand-subquery': ("SELECT CASE (SELECT max(b) FROM {B}.tbl2) WHEN 1 THEN 2 END AS c FROM {A}.tbl1", {'int1': {'tbl1'}, 'int2': {'tbl2'}}, []),
    'function-arg-subquery': ("SELECT coalesce((SELECT max(b) FROM {B}.tbl2), a) AS c FROM {A}.tbl1", {'int1': {'tbl1'}, 'int2': {'tbl2'}}, []),
    'cte': ("WITH c AS (SELECT b FROM {B}.tbl2) SELECT * FROM c", {'int2': {'tbl2'}}, []),
    'from-subquery-join': ("SELECT * FROM (SELECT a, id FROM {A}.tbl1) AS s1 JOIN {B}.tbl2 AS t2 ON s1.id = t2.id", {'int1': {'tbl1'}, 'int2': {'tbl2'}}, []),
    'union': ("SELECT a FROM {A}.tbl1 UNION SELECT b FROM {B}.tbl2", {'int1': {'tbl1'}, 'int2': {'tbl2'}}, []),
    'insert-select': ("INSERT INTO {A}.tbl1 (a) SELECT b FROM {B}.tbl2", {'int2': {'tbl2'}}, []),
    'update-from': ("UPDATE {A}.tbl1 SET a = df.b FROM (SELECT * FROM {B}.tbl2) AS df WHERE tbl1.id = df.id", {'int2': {'tbl2'}}, []),
    'delete': ("DELETE FROM {A}.tbl1 WHERE a = 1", {}, []),
    'create-table-as': ("CREATE TABLE {A}.newt (SELECT b FROM {B}.tbl2)", {'int2': {'tbl2'}}, []),
    'model-join': ("SELECT t.a, m.p FROM {A}.tbl1 AS t JOIN {M}.pred AS m", {'int1': {'tbl1'}}, [('mindsdb', ['pred'])]),
    'model-join-version': ("SELECT t.a, m.p FROM {A}.tbl1 AS t JOIN {M}.pred.3 AS m", {'int1': {'tbl1'}}, [('mindsdb', ['pred', '3'])]),
    'model-join-project': ("SELECT t.a, m.p2 FROM {A}.tbl1 AS t JOIN {P}.pred2 AS m", {'int1': {'tbl1'}}, [('proj', ['pred2'])]),
    'model-join-using': ("SELECT t.a, m.p FROM {A}.tbl1 AS t JOIN {M}.pred AS m USING partition_size=7", {'int1': {'tbl1'}}, [('mindsdb', ['pred'])]),
    'model-join-table-using': ("SELECT * FROM {A}.tbl1 AS t JOIN {M}.pred AS m JOIN {B}.tbl2 AS t2 ON t2.id = t.id USING partition_size=5",
                               {'int1': {'tbl1'}, 'int2': {'tbl2'}}, [('mindsdb', ['pred'])]),
    'cte-join': ("WITH c AS (SELECT b, id FROM {B}.tbl2) SELECT * FROM c JOIN {A}.tbl1 AS t ON c.id = t.id", {'int1': {'tbl1'}, 'int2': {'tbl2'}}, []),
    'cte-model-join': ("WITH c AS (SELECT b, id FROM {B}.tbl2) SELECT * FROM c JOIN {M}.pred AS m", {'int2': {'tbl2'}}, [('mindsdb', ['pred'])]),
    'model-two-versions': ("SELECT * FROM {A}.tbl1 AS t JOIN {P}.pred2.1 AS m1 JOIN {P}.pred2.2 AS m2", {'int1': {'tbl1'}}, [('proj', ['pred2', '1']), ('proj', ['pred2', '2'])]),
    'model-version-and-plain': ("SELECT * FROM {A}.tbl1 AS t JOIN {M}.pred AS m1 JOIN {M}.pred.7 AS m2", {'int1': {'tbl1'}}, [('mindsdb', ['pred']), ('mindsdb', ['pred', '7'])]),
    'model-join-order-expr': ("SELECT t.a, m.p FROM {A}.tbl1 AS t JOIN {M}.pred AS m ORDER BY lower(t.s), 1 LIMIT 2", {'int1': {'tbl1'}}, [('mindsdb', ['pred'])]),
    'two-models-partition-sizes': ("SELECT * FROM {A}.tbl1 AS t JOIN {M}.pred AS m1 JOIN {P}.pred2 AS m2 USING m1.partition_size=10, m2.partition_size=20",
                                   {'int1': {'tbl1'}}, [('mindsdb', ['pred']), ('proj', ['pred2'])]),
    'two-models-partition-global-and-own': ("SELECT * FROM {A}.tbl1 AS t JOIN {M}.pred AS m1 JOIN {P}.pred2 AS m2 USING partition_size=10, m2.partition_size=7",
                                            {'int1': {'tbl1'}}, [('mindsdb', ['pred']), ('proj', ['pred2'])]),
    'cte-named-like-table': ("WITH tbl2 AS (SELECT * FROM {A}.tbl1) SELECT * FROM {B}.tbl2", {'int1': {'tbl1'}, 'int2': {'tbl2'}}, [], {'int2': {'tbl2'}}),
    'cte-named-like-table-join': ("WITH tbl2 AS (SELECT a, id FROM {A}.tbl1) SELECT * FROM tbl2 JOIN {B}.tbl2 AS u ON tbl2.id = u.id", {'int1': {'tbl1'}, 'int2': {'tbl2'}}, []),
    'cte-unused-named-like-table': ("WITH tbl1 AS (SELECT b FROM {B}.tbl2) SELECT a FROM {A}.tbl1 AS t JOIN {B}.tbl3 AS u ON t.id = u.id", {'int1': {'tbl1'}, 'int2': {'tbl3'}}, []),
    # a CTE named like the unqualified table (of the default namespace) that its own body reads: inside the body the name means the table
    'cte-shadows-default-table': ("WITH tbl9 AS (SELECT * FROM tbl9 WHERE a = 1) SELECT a FROM tbl9", {'mindsdb': {'tbl9'}}, []),
    'cte-shadows-default-table-nested': ("WITH c AS (WITH tbl9 AS (SELECT * FROM tbl9) SELECT a FROM tbl9) SELECT * FROM c JOIN {A}.tbl1 AS t ON t.a = c.a", {'mindsdb': {'tbl9'}, 'int1': {'tbl1'}}, []),
    'cte-shadows-default-table-join': ("WITH tbl9 AS (SELECT * FROM tbl9) SELECT * FROM tbl9 JOIN {A}.tbl1 AS t ON t.id = tbl9.id", {'mindsdb': {'tbl9'}, 'int1': {'tbl1'}}, []),
    # the answer is the LAST step's result: CTEs the outer query does not read (4th element = what the answer is computed from)
    'cte-two-select-first': ("WITH c1 AS (SELECT a FROM {A}.tbl1), c2 AS (SELECT b FROM {B}.tbl2) SELECT * FROM c1", {'int1': {'tbl1'}, 'int2': {'tbl2'}}, [], {'int1': {'tbl1'}}),
    'cte-two-select-second': ("WITH c1 AS (SELECT a FROM {A}.tbl1), c2 AS (SELECT b FROM {B}.tbl2) SELECT * FROM c2", {'int1': {'tbl1'}, 'int2': {'tbl2'}}, [], {'int2': {'tbl2'}}),
    'cte-two-select-first-where': ("WITH c1 AS (SELECT a FROM {A}.tbl1), c2 AS (SELECT b FROM {B}.tbl2) SELECT a FROM c1 WHERE a > 1", {'int1': {'tbl1'}, 'int2': {'tbl2'}}, [], {'int1': {'tbl1'}}),
    'cte-two-nested-select-first': ("WITH c1 AS (SELECT a FROM {A}.tbl1), c2 AS (SELECT b FROM {B}.tbl2) SELECT * FROM (SELECT * FROM c1) AS s", {'int1': {'tbl1'}, 'int2': {'tbl2'}}, [], {'int1': {'tbl1'}}),
    'cte-chain-select-first': ("WITH c1 AS (SELECT a, id FROM {A}.tbl1), c2 AS (SELECT * FROM c1 JOIN {M}.pred AS m) SELECT * FROM c1", {'int1': {'tbl1'}}, [('mindsdb', ['pred'])], {'int1': {'tbl1'}}),
    'cte-three-select-middle': ("WITH c1 AS (SELECT a FROM {A}.tbl1), c2 AS (SELECT b FROM {B}.tbl2), c3 AS (SELECT a FROM {A}.tbl3) SELECT * FROM c2",
                                {'int1': {'tbl1', 'tbl3'}, 'int2': {'tbl2'}}, [], {'int2': {'tbl2'}}),
    'cte-two-join-both': ("WITH c1 AS (SELECT a, id FROM {A}.tbl1), c2 AS (SELECT b, id FROM {B}.tbl2) SELECT * FROM c2 JOIN c1 ON c1.id = c2.id", {'int1': {'tbl1'}, 'int2': {'tbl2'}}, []),
    # the default namespace is a data integration (5th element = catalog arguments): unqualified names are its tables, also when a model of
    # the predictor namespace has the same name; models are reached by their qualified name only
    'default-int1-bare-table': ("SELECT * FROM {B}.tbl2 AS o JOIN tbl1 AS s ON o.id = s.id", {'int2': {'tbl2'}, 'int1': {'tbl1'}}, [], None, {'default_namespace': 'int1'}),
    'default-int1-bare-table-named-like-model': ("SELECT * FROM {B}.tbl2 AS o JOIN pred AS s ON o.id = s.id", {'int2': {'tbl2'}, 'int1': {'pred'}}, [], None, {'default_namespace': 'int1'}),
    'default-int1-bare-table-named-like-model-first': ("SELECT * FROM pred AS s LEFT JOIN {B}.tbl2 AS o ON o.id = s.id WHERE s.a > 1", {'int2': {'tbl2'}, 'int1': {'pred'}}, [], None, {'default_namespace': 'int1'}),
    'default-int1-qualified-like-model': ("SELECT * FROM {B}.tbl2 AS o JOIN {A}.pred AS s ON o.id = s.id", {'int2': {'tbl2'}, 'int1': {'pred'}}, [], None, {'default_namespace': 'int1'}),
    'default-int1-model-qualified': ("SELECT * FROM tbl1 AS t JOIN {M}.pred AS m", {'int1': {'tbl1'}}, [('mindsdb', ['pred'])], None, {'default_namespace': 'int1'}),
    'default-int1-table-like-model-and-model': ("SELECT * FROM pred AS t JOIN {M}.pred AS m", {'int1': {'pred'}}, [('mindsdb', ['pred'])], None, {'default_namespace': 'int1'}),
    'default-int1-subquery-like-model': ("SELECT a FROM {B}.tbl2 WHERE a IN (SELECT b FROM pred2)", {'int2': {'tbl2'}, 'int1': {'pred2'}}, [], None, {'default_namespace': 'int1'}),
    'default-int2-cte-like-model': ("WITH c AS (SELECT b, id FROM pred) SELECT * FROM c JOIN {A}.tbl1 AS t ON c.id = t.id", {'int1': {'tbl1'}, 'int2': {'pred'}}, [], None, {'default_namespace': 'int2'}),
    # integration.schema.table: only the FIRST name part decides where the table lives - also when the schema is named like another integration /
    # a project and the table like a model, and when the first part is the default namespace
    'schema-qualified-join': ("SELECT * FROM {A}.sch.tbl1 AS a JOIN {B}.tbl2 AS b ON a.id = b.id", {'int1': {'tbl1'}, 'int2': {'tbl2'}}, []),
    'schema-named-like-other-integration': ("SELECT * FROM {A}.int2.tbl1 AS a JOIN {B}.tbl2 AS b ON a.id = b.id", {'int1': {'tbl1'}, 'int2': {'tbl2'}}, []),
    'schema-named-like-project-table-like-model': ("SELECT * FROM {A}.proj.pred2 AS a JOIN {B}.tbl2 AS b ON a.id = b.id", {'int1': {'pred2'}, 'int2': {'tbl2'}}, []),
    'schema-like-model-and-model-join': ("SELECT * FROM {A}.mindsdb.pred AS a JOIN {M}.pred AS m", {'int1': {'pred'}}, [('mindsdb', ['pred'])]),
    'default-int1-qualified-schema-like-integration': ("SELECT * FROM {A}.int2.tbl1 AS a JOIN {B}.tbl2 AS b ON a.id = b.id", {'int1': {'tbl1'}, 'int2': {'tbl2'}}, [], None, {'default_namespace': 'int1'}),
    'default-int1-qualified-schema-like-files': ("SELECT * FROM {A}.files.f1 AS a JOIN {B}.tbl2 AS b ON a.id = b.id", {'int1': {'f1'}, 'int2': {'tbl2'}}, [], None, {'default_namespace': 'int1'}),
    'default-int1-qualified-schema-like-project-model-join': ("SELECT * FROM {A}.mindsdb.tbl1 AS a JOIN {M}.pred AS m", {'int1': {'tbl1'}}, [('mindsdb', ['pred'])], None, {'default_namespace': 'int1'}),
    # a FROM sub-query whose outer query holds another sub-query (WHERE / select list) on another integration, or a model inside the FROM sub-query
    'from-subquery-where-subquery': ("SELECT * FROM (SELECT * FROM {A}.tbl1) AS x WHERE x.a IN (SELECT b FROM {B}.tbl2)", {'int1': {'tbl1'}, 'int2': {'tbl2'}}, []),
    'from-subquery-target-subquery': ("SELECT x.a, (SELECT max(b) FROM {B}.tbl2) AS m FROM (SELECT * FROM {A}.tbl1) AS x", {'int1': {'tbl1'}, 'int2': {'tbl2'}}, []),
    'from-subquery-where-subquery-same-integration': ("SELECT * FROM (SELECT a, id FROM {A}.tbl1 WHERE a > 1) AS x WHERE x.id NOT IN (SELECT id FROM {A}.tbl3) AND x.a > 0", {'int1': {'tbl1', 'tbl3'}}, []),
    'from-model-subquery-where-subquery': ("SELECT * FROM (SELECT t.a, m.p FROM {A}.tbl1 AS t JOIN {M}.pred AS m) AS x WHERE x.a IN (SELECT b FROM {B}.tbl2)", {'int1': {'tbl1'}, 'int2': {'tbl2'}}, [('mindsdb', ['pred'])]),
    'two-models': ("SELECT * FROM {A}.tbl1 AS t JOIN {M}.pred AS m JOIN {P}.pred2 AS m2", {'int1': {'tbl1'}}, [('mindsdb', ['pred']), ('proj', ['pred2'])]),
    'select-from-model': ("SELECT p FROM {M}.pred WHERE x = 1", {}, [('mindsdb', ['pred'])]),
    'ts-model-join': ("SELECT * FROM {A}.tbl1 AS t JOIN {M}.tspred AS m WHERE t.ts > LATEST", {'int1': {'tbl1'}}, [('mindsdb', ['tspred'])]),
    'ts-model-join-subselect': ("SELECT * FROM (SELECT * FROM {A}.tbl1) AS t JOIN {M}.tspred AS m WHERE t.ts > LATEST", {'int1': {'tbl1'}}, [('mindsdb', ['tspred'])]),
    'ts-model-first-subselect': ("SELECT * FROM {M}.tspred AS m JOIN (SELECT * FROM {A}.tbl1) AS t WHERE t.ts > LATEST", {'int1': {'tbl1'}}, [('mindsdb', ['tspred'])]),
    'ts-model-first': ("SELECT * FROM {M}.tspred AS m JOIN {A}.tbl1 AS t WHERE t.ts > LATEST", {'int1': {'tbl1'}}, [('mindsdb', ['tspred'])]),
    'group-order-limit': ("SELECT t1.a, count(t2.b) FROM {A}.tbl1 AS t1 JOIN {B}.tbl2 AS t2 ON t1.id = t2.id GROUP BY t1.a ORDER BY t1.a LIMIT 3",
                          {'int1': {'tbl1'}, 'int2': {'tbl2'}}, []),
    'api-db': ("SELECT a FROM apidb.tbl5 WHERE a > 1 AND b = 2 ORDER BY a LIMIT 2", {'apidb': {'tbl5'}}, []),
    'files': ("SELECT * FROM files.f1 AS f JOIN {A}.tbl1 AS t ON f.id = t.id", {'files': {'f1'}, 'int1': {'tbl1'}}, []),
}
# ---- generated sub-family: two tables in two integrations, join kind x ON shape x WHERE shape x tail ---------------------
G_JOINS = ['JOIN', 'LEFT JOIN', 'RIGHT JOIN']
G_ONS = ['a.id = b.id', 'b.ref = id', 'id = b.ref', 'a.id = b.id AND b.kind = kind', 'a.id = b.id AND b.kind = 1', 'a.id = b.id AND 1 = b.kind',
         'a.id > b.id', 'upper(a.s) = b.s', 'a.id IN (1, 2)', 'a.id = b.id OR a.x = b.x', 'NOT a.id = b.id', 'a.id IS NULL',
         'a.id = b.id AND b.d = (SELECT max(z) FROM {A}.tbl3)', 'a.id BETWEEN b.lo AND b.hi', 'a.id = b.id AND a.s LIKE b.s', 'a.id = b.id AND b.kind = a.kind AND a.x = 0']
G_WHERES = [None, 'a.x > 1', 'x > 1', 'a.x = b.x', 'a.x IN (SELECT z FROM {B}.tbl4)', 'a.x > 1 OR b.y < 2', 'a.x = 0 AND b.y IS NULL']
G_TAILS = [('*', ''), ('a.x, b.y', ' ORDER BY a.x LIMIT 2'), ('a.x, count(*) AS n', ' GROUP BY a.x')]
GEN = []
for _j in G_JOINS:
    for _on in G_ONS:
        for _w in G_WHERES:
            for _tg, _tail in G_TAILS:
                GEN.append('SELECT %s FROM {A}.tbl1 AS a %s {B}.tbl2 AS b ON %s%s%s' % (_tg, _j, _on, (' WHERE ' + _w) if _w else '', _tail))
# second generated block: select-list / tail shapes that are not plain columns (positional and expression sort keys, aliases, DISTINCT,
# HAVING, OFFSET) on a reduced set of ON / WHERE shapes
G_TAILS2 = [('a.x, b.y', ' ORDER BY 1'), ('a.x, b.y', ' ORDER BY lower(a.s), b.y DESC'), ('a.x, b.y', ' ORDER BY a.x + 1 DESC LIMIT 3 OFFSET 1'),
            ('DISTINCT a.x', ''), ('a.x, max(b.y) AS m', ' GROUP BY a.x HAVING max(b.y) > 1 ORDER BY m'), ('a.x AS x1, b.y', ' ORDER BY x1 DESC, b.y'),
            ('a.x, b.y', ' ORDER BY a.y, lower(b.s)'), ('a.*, b.y', ' LIMIT 2 OFFSET 1')]
for _j in G_JOINS:
    for _on in G_ONS[:4]:
        for _w in G_WHERES[:3]:
            for _tg, _tail in G_TAILS2:
                GEN.append('SELECT %s FROM {A}.tbl1 AS a %s {B}.tbl2 AS b ON %s%s%s' % (_tg, _j, _on, (' WHERE ' + _w) if _w else '', _tail))

# third generated block: the joined tables live in ONE integration (the join itself could be sent there whole) while a subquery in WHERE / the
# select list / a CASE reads a table of another integration: placement of the tables x position of the foreign subquery x join kind
G_FOREIGN = [('*', 'a.x IN (SELECT z FROM {B}.tbl4)'), ('a.x, (SELECT max(z) FROM {B}.tbl4) AS m', None), ('*', 'a.x > (SELECT max(z) FROM {B}.tbl4) AND b.y = 1'),
             ('*', 'a.x NOT IN (SELECT z FROM {B}.tbl4 WHERE z IS NOT NULL)'), ('CASE WHEN a.x IN (SELECT z FROM {B}.tbl4) THEN 1 ELSE 0 END AS f', None),
             ('a.x, b.y', 'b.y = (SELECT min(z) FROM {B}.tbl4) OR a.x = 0'), ('coalesce((SELECT max(z) FROM {B}.tbl4), a.x) AS c', 'a.x > 0')]
for _j in G_JOINS:
    for _on in ('a.id = b.id', 'a.id > b.id'):
        for _tg, _w in G_FOREIGN:
            for _tail in ('', ' ORDER BY a.x LIMIT 2'):
                GEN.append('SELECT %s FROM {A}.tbl1 AS a %s {A}.tbl3 AS b ON %s%s%s' % (_tg, _j, _on, (' WHERE ' + _w) if _w else '', _tail))
for _tg, _w in G_FOREIGN:
    GEN.append('SELECT %s FROM {A}.tbl1 AS a, {A}.tbl3 AS b%s' % (_tg, (' WHERE ' + _w) if _w else ''))
    GEN.append('SELECT %s FROM (SELECT * FROM {A}.tbl1) AS a JOIN {A}.tbl3 AS b ON a.id = b.id%s' % (_tg, (' WHERE ' + _w) if _w else ''))


def gen_expected(tmpl):
    exp = {}
    for q, t in re.findall(r'\{([AB])\}\.(\w+)', tmpl):
        exp.setdefault({'A': 'int1', 'B': 'int2'}[q], set()).add(t)
    return exp


QUAL = {'A': 'int1', 'B': 'int2', 'M': 'mindsdb', 'P': 'proj'}
CATALOG_NAMES = {'int1', 'int2', 'files', 'apidb', 'mindsdb', 'proj'}


def text(name, bits_a, bits_b, bits_m):
    tmpl = GEN[name] if isinstance(name, int) else SK[name][0]
    return tmpl.format(A=PL.spell('int1', bits_a), B=PL.spell('int2', bits_b), M=PL.spell('mindsdb', bits_m), P=PL.spell('proj', bits_m))


def plan_or_error(sql, kw):
    from mindsdb_sql.exceptions import PlanningException
    try:
        return PL.plan_sql(sql, **kw), None
    except (PlanningException, NotImplementedError) as e:
        return None, type(e).__name__
    except Exception as e:  # noqa
        return None, 'INTERNAL %s: %s' % (type(e).__name__, str(e)[:120])


def leaf(name, bits_a, bits_b, bits_m, as_dicts, legacy_meta):
    """-> (problems_c09, problems_c10, info)"""
    from mindsdb_sql.planner import steps as S
    from mindsdb_sql.parser.ast import Identifier
    if isinstance(name, int):
        tmpl = GEN[name]
        exp_fetch, exp_pred = gen_expected(tmpl), []
    else:
        tmpl, exp_fetch, exp_pred = SK[name][:3]
    api = 'apidb' in tmpl
    ts = 'tspred' in tmpl
    kw = PL.catalog(as_dicts=as_dicts, legacy_meta=legacy_meta, api=api, ts=ts)
    ckw = PL.catalog(api=api, ts=ts)
    if not isinstance(name, int) and len(SK[name]) > 4:
        kw.update(SK[name][4])
        ckw.update(SK[name][4])
    sql = text(name, bits_a, bits_b, bits_m)
    canon_sql = text(name, (), (), ())
    plan, err = plan_or_error(sql, kw)
    canon, cerr = plan_or_error(canon_sql, ckw)
    p09, p10 = [], []
    info = {'sql': sql, 'catalog_form': {'as_dicts': as_dicts, 'legacy_meta': legacy_meta}}
    if err and err.startswith('INTERNAL'):
        p09.append('planning raises an internal error: %s' % err)
        return p09, p10, info
    if err != cerr:
        p10.append('planning outcome depends on spelling / catalog form: %s vs %s for the canonical spelling' % (err, cerr))
        return p09, p10, info
    if plan is None:
        info['rejected'] = err
        return p09, p10, info
    # ---- C09
    p09 += PL.wellformed(plan)
    # the last step produces the answer: every table / model the answer depends on is read by the steps the last step is computed from
    need = SK[name][3] if (not isinstance(name, int) and len(SK[name]) > 3 and SK[name][3] is not None) else exp_fetch
    src_tabs, src_preds = PL.answer_sources(plan)
    for integ, tabs in need.items():
        missing = sorted(t for t in tabs if t not in src_tabs.get(integ, set()))
        if missing and any(t in {x for f in PL.fetches(plan) if f.integration == integ for x in (str(i.parts[-1]).lower() for i in PL.tables_of(f.query))} for t in missing):
            p09.append('the last step is not computed from table(s) %s of %s, which the answer depends on (they are fetched, but only by steps the last step does not use)' % (missing, integ))
    for ns, parts in exp_pred:
        if need is exp_fetch and (ns, parts) not in src_preds and any((p.namespace, [str(x).lower() for x in p.predictor.parts]) == (ns, parts)
                                                                        for p, _, _ in PL.all_steps(plan.steps) if hasattr(p, 'predictor') and hasattr(p, 'namespace')):
            p09.append('the last step is not computed from model %s.%s, which the answer depends on' % (ns, '.'.join(parts)))
    # ---- C10
    if repr(plan.steps).lower() != repr(canon.steps).lower():
        p10.append('plan differs from the plan of the canonical spelling / catalog form')
    # names written as integration.schema.table: what stays after the integration part is removed may itself look like a catalog name
    remainders = {(a_.lower(), b_.lower()) for a_, b_ in re.findall(r'\{[AB]\}\.(\w+)\.(\w+)', tmpl)}
    seen = {}
    for f in PL.fetches(plan):
        integ = f.integration
        if integ not in exp_fetch:
            p10.append('fetch from integration %r which no table of the query resolves to' % (integ,))
            continue
        for t in PL.tables_of(f.query):
            parts = [str(x) for x in t.parts]
            if parts[0].lower() in CATALOG_NAMES and len(parts) > 1 and (parts[0].lower(), parts[1].lower()) not in remainders:
                p10.append('query sent to %s still carries qualifier %s: %s' % (integ, parts[0], f.query))
            tname = parts[-1].lower()
            if tname in exp_fetch[integ]:
                seen.setdefault(integ, set()).add(tname)
            elif not any(tname in v for v in exp_fetch.values()):
                pass        # derived names (cte / subquery aliases)
            else:
                p10.append('table %s is fetched from %s but belongs to another integration' % (tname, integ))
        # column qualifiers
        for m in re.finditer(r'\b(int1|int2|apidb)\s*\.', str(f.query), flags=re.I):
            if m.group(1).lower() in CATALOG_NAMES and m.group(1).lower() not in {a_ for a_, _ in remainders}:
                p10.append('query sent to %s mentions qualifier %s: %s' % (integ, m.group(1), f.query))
                break
    for integ, tabs in exp_fetch.items():
        missing = tabs - seen.get(integ, set())
        if missing:
            p10.append('table(s) %s of %s are not fetched from it' % (sorted(missing), integ))
    preds = [s for s, _, _ in PL.all_steps(plan.steps) if isinstance(s, (S.ApplyPredictorStep, S.ApplyPredictorRowStep))]
    got_pred = sorted((p.namespace, [str(x).lower() for x in p.predictor.parts]) for p in preds)
    if got_pred != sorted((ns, parts) for ns, parts in exp_pred):
        p10.append('model steps %s, expected %s' % (got_pred, sorted(exp_pred)))
    for f in PL.fetches(plan):
        for t in PL.tables_of(f.query):
            if str(t.parts[-1]).lower() in ('pred', 'pred2', 'tspred') and str(t.parts[-1]).lower() not in exp_fetch.get(f.integration, set()):
                p10.append('model %s sent to integration %s' % (t, f.integration))
    return p09, p10, info


def step(name, bits_a, bits_b, bits_m, as_dicts, legacy_meta, which):
    ba = tuple(PL.cb(b) for b in bits_a)
    bb = tuple(PL.cb(b) for b in bits_b)
    bm = tuple(PL.cb(b) for b in bits_m)
    as_dicts, legacy_meta = PL.cb(as_dicts), PL.cb(legacy_meta)
    with PL.NoTracing():
        p09, p10, info = leaf(name, ba, bb, bm, as_dicts, legacy_meta)
    return len(p09) if which == 9 else len(p10)


def step_gen(base, idx_bits, a0, b0, as_dicts, legacy_meta, which):
    idx = base
    for i, b in enumerate(idx_bits):
        if PL.cb(b):
            idx += (1 << i)
    a0, b0, as_dicts, legacy_meta = PL.cb(a0), PL.cb(b0), PL.cb(as_dicts), PL.cb(legacy_meta)
    if idx >= len(GEN):
        return 0
    with PL.NoTracing():
        p09, p10, info = leaf(idx, (a0, False, a0), (b0, b0, False), (False,), as_dicts, legacy_meta)
    return len(p09) if which == 9 else len(p10)
