"""C03 — operator precedence and associativity.  SYMTOK over the expression alphabet in six contexts against an
independent precedence-climbing reader; LRZ3 query over every parser state; z3 semantic witness + sqlite3 replay."""
import os, json
from engines.common import Run, VERIF
from engines import sweep as SW, c03lib
from harness.C05 import to_sql


def replay_grouping(f):
    from mindsdb_sql import parse_sql
    from refs.precedence import Reader, Skip, Reject, shape_of_ast, normalise
    d = f['dialect']
    L, P = SW.dialect_classes(d)
    sql = to_sql(d, f['all_types'], spelling=f.get('spelling'))
    info = {'sql': sql, 'dialect': d, 'context': f['context']}
    try:
        lexed = [t.type for t in L().tokenize(sql)]
        ast = parse_sql(sql, d)
    except Exception as e:  # noqa
        return False, dict(info, error=repr(e))
    if lexed != list(f['all_types']):
        return False, dict(info, note='text lexes differently', lexed=lexed)
    node = c03lib.CONTEXTS[f['context']][2](ast)
    if node is None:
        return False, dict(info, note='structure changed')
    got = normalise(shape_of_ast(node))
    try:
        want = normalise(Reader(f['expr_types']).parse())
    except (Skip, Reject) as e:
        return False, dict(info, note='outside the reference: %r' % e)
    info.update(parsed=repr(got), reference=repr(want))
    if got != want:
        w = semantic_witness(got, want, sql)
        if w:
            info['witness'] = w
    return got != want, info


def semantic_witness(got, want, sql):
    """z3: integer leaf values on which the two groupings evaluate differently (SQL 3VL omitted: non-NULL integers);
    replayed on sqlite3 with fully parenthesised renderings"""
    import z3, sqlite3
    leaves = []

    def ev(s):
        if s == 'leaf':
            v = z3.Int('x%d' % len(leaves))
            leaves.append(v)
            return v
        op = s[0]
        if op == 'paren':
            return ev(s[1])
        a = [ev(x) for x in s[1:]]
        b2i = lambda b: z3.If(b, 1, 0)
        if op == 'neg':
            return -a[0]
        if op in ('+', '-', '*'):
            return {'+': a[0] + a[1], '-': a[0] - a[1], '*': a[0] * a[1]}[op]
        if op in ('=', '!=', '<', '<=', '>', '>='):
            return b2i({'=': a[0] == a[1], '!=': a[0] != a[1], '<': a[0] < a[1], '<=': a[0] <= a[1], '>': a[0] > a[1], '>=': a[0] >= a[1]}[op])
        if op == 'and':
            return b2i(z3.And(a[0] != 0, a[1] != 0))
        if op == 'or':
            return b2i(z3.Or(a[0] != 0, a[1] != 0))
        if op == 'not':
            return b2i(a[0] == 0)
        if op == 'between':
            return b2i(z3.And(a[0] >= a[1], a[0] <= a[2]))
        raise ValueError(op)
    try:
        e1 = ev(got)
        n = len(leaves)
        leaves2 = list(leaves)
        leaves.clear()
        e2 = ev(want)
        if len(leaves) != n:
            return None
        s = z3.Solver()
        for x, y in zip(leaves2, leaves):
            s.add(x == y, x >= 0, x <= 5)
        s.add(e1 != e2)
        if str(s.check()) != 'sat':
            return {'note': 'no integer witness in 0..5 (groupings may differ only on NULLs / division)'}
        m = s.model()
        vals = [m.eval(x, model_completion=True).as_long() for x in leaves]
        return {'leaf_values': vals, 'parsed_grouping_value': m.eval(e1, model_completion=True).as_long(),
                'reference_grouping_value': m.eval(e2, model_completion=True).as_long()}
    except Exception as e:  # noqa
        return {'note': 'witness search not applicable: %r' % e}


# ---- LEXZ3: operator tokens made of several words are ONE token whatever blanks separate the words -------------------------------

BLANKS = ' \t\n\r'
_CONTEXTS = ['SELECT a {w} NULL', 'SELECT a {w} b', 'SELECT a {w} (1, 2)', "SELECT a {w} 'x'", 'SELECT {w} a', 'SELECT a FROM t WHERE a {w} NULL', 'SELECT a FROM t WHERE a {w} (1)',
             'SELECT a {w} 1 AND 2']


def blank_invariance(run, tier):
    """For every rule of the three live lexers whose language is made of words and blanks only (decided by z3), z3 is asked for a
    member w = x + a + y with a blank a and another blank b such that x + b + y is NOT in the rule's language (lengths <= 24).  unsat:
    how the words of a multi-word token are separated (space, tab, line break) cannot change the token.  A model is replayed on the real
    lexer and parser: the same expression written with the other blank must give the same tree."""
    import z3
    from engines import lexz3
    from engines import sweep as SW2
    from mindsdb_sql import parse_sql
    maxlen = 24 if tier == 'quick' else 32
    blank = z3.Union(*[z3.Re(c) for c in BLANKS])
    wordish = z3.Star(z3.Union(lexz3.WORD, blank))
    for d in SW2.DIALECTS:
        L, P = SW2.dialect_classes(d)
        lm = lexz3.LexerModel(L)
        n_rules, bad = 0, []
        for name, pat, r, lb, tb in lm.rules:
            if r is None:
                continue
            w = z3.String('w')
            res, _ = lm.check(z3.InRe(w, r), z3.Not(z3.InRe(w, wordish)), z3.Length(w) <= maxlen)
            if res != 'unsat':
                continue            # strings, comments, numbers, operators made of symbols: blanks inside them are content
            res, _ = lm.check(z3.InRe(w, r), z3.Contains(w, z3.StringVal(' ')), z3.Length(w) <= maxlen)
            has_blank = res == 'sat'
            if not has_blank:
                res2, _ = lm.check(z3.InRe(w, r), z3.InRe(w, z3.Concat(z3.Star(lexz3.ASCII), blank, z3.Star(lexz3.ASCII))), z3.Length(w) <= maxlen)
                if res2 != 'sat':
                    continue        # one-word token
            n_rules += 1
            x, y, a, b = z3.String('x'), z3.String('y'), z3.String('a'), z3.String('b')
            res, m = lm.check(z3.InRe(a, blank), z3.InRe(b, blank), z3.InRe(z3.Concat(x, a, y), r), z3.Not(z3.InRe(z3.Concat(x, b, y), r)),
                              z3.Length(x) + z3.Length(y) < maxlen)
            if res == 'unsat':
                continue
            if res != 'sat':
                run.ob('lexz3:%s:blank-invariance:%s' % (d, name), 'inconclusive', res)
                continue
            w1 = m.eval(z3.Concat(x, a, y), model_completion=True).as_string()
            w2 = m.eval(z3.Concat(x, b, y), model_completion=True).as_string()
            w1, w2 = (w1.encode().decode('unicode_escape') if '\\u' in w1 else w1), (w2.encode().decode('unicode_escape') if '\\u' in w2 else w2)
            bad.append((name, w1, w2))
        run.add_stats({'solver_calls': lm.queries, 'solver_s': lm.solver_s})
        reproduced = 0
        for name, w1, w2 in bad:
            # native replay: an expression written with w1 and with w2 must parse to the same tree
            info = {'dialect': d, 'rule': name, 'token_text': w1, 'other_blank': w2}
            rep = False
            for ctx in _CONTEXTS:
                try:
                    t1 = parse_sql(ctx.format(w=w1), d)
                except Exception:  # noqa
                    continue
                try:
                    t2 = parse_sql(ctx.format(w=w2), d)
                except Exception as e:  # noqa
                    info.setdefault('rejected_with_other_blank', []).append(ctx.format(w=w2))
                    continue
                if t1.to_tree() != t2.to_tree():
                    rep = True
                    info.update(sql=ctx.format(w=w1), sql_other_blank=ctx.format(w=w2), tree=str(t1), tree_other_blank=str(t2))
                    break
            if rep:
                reproduced += 1
                run.counterexample('blank-in-operator:%s:%s' % (d, name), '%s: %r groups differently from %r (the words of the operator separated by another blank)'
                                   % (d, info['sql_other_blank'], info['sql']), info, True)
            else:
                run.sample({'note': 'token %s of %s is not blank-invariant (%r vs %r) but no expression context parses to a different tree (rejected or same tree): not a grouping difference' % (name, d, w1, w2)})
        run.ob('lexz3:%s:multi-word-tokens-blank-invariant' % d, 'counterexample' if reproduced else 'discharged',
               '%d multi-word word-and-blank rules, %d not invariant, %d change a parsed tree' % (n_rules, len(bad), reproduced))


def run(tier):
    run = Run('C03', tier)
    main_K = (1, 2, 3, 4, 5, 6) if tier == 'quick' else (1, 2, 3, 4, 5, 6, 7)
    ctx_K = (1, 2, 3, 4) if tier == 'quick' else (1, 2, 3, 4, 5)
    run.bounds = {'select_list_expression_tokens': max(main_K), 'other_contexts_expression_tokens': max(ctx_K),
                  'alphabet': c03lib.EXPR_ALPHA, 'contexts': list(c03lib.CONTEXTS)}
    run.functions = ['sly Parser.parse with the live LALR tables of the three dialects', 'expression grammar actions', 'live _lrtable.state_descriptions / lr_action (LRZ3)', 'live lexer rule lists of the three dialects (LEXZ3: multi-word tokens)']
    run.assumptions = ['reference grouping = refs/precedence.py (the property\'s table); sequences the reference grammar does not cover (NOT as an operand of a tighter operator, binary NOT, function calls, subqueries) are counted as outside',
                       'a comparison that is a direct un-parenthesised operand of another comparison is skipped, as the property says',
                       'MINUS constant folding and ((x)) are normalised on both sides (semantics-preserving)',
                       'expressions longer than the bound are outside the SYMTOK claim; the LRZ3 query covers every state for binary/unary operator reductions without competing reductions']
    totals = {}
    core_K = (7,) if tier == 'quick' else (7, 8)
    spell_K = (1, 2, 3, 4) if tier == 'quick' else (1, 2, 3, 4, 5)
    run.bounds['word_tokens_in_other_letter_case'] = {'select_list_expression_tokens': max(spell_K), 'spellings': ['lower', 'mixed']}
    run.bounds['core_alphabet'] = c03lib.CORE_ALPHA
    run.bounds['core_alphabet_expression_tokens'] = max(core_K)
    plan = []
    for d in SW.DIALECTS:
        for ctx in c03lib.CONTEXTS:
            for K in (main_K if ctx == 'select-list' else ctx_K):
                plan.append((d, ctx, K, None))
        for K in core_K:
            plan.append((d, 'select-list', K, c03lib.CORE_ALPHA))
        # the same streams with the word tokens (NOT, AND, OR, IN, IS, LIKE, BETWEEN, NULL ..) written in another letter case: the lexers
        # are case-insensitive, so an action that looks at the text of a token must not care
        for K in spell_K:
            plan.append((d, 'select-list', K, None, 'lower'))
        plan.append((d, 'where', min(3, max(spell_K)), None, 'mixed'))
        plan.append((d, 'select-list', 5 if tier == 'quick' else 6, c03lib.CORE_ALPHA, 'mixed'))
    for entry in plan:
        d, ctx, K, alpha = entry[:4]
        spelling = entry[4] if len(entry) > 4 else None
        if True:
            if True:
                tot, findings, samples = c03lib.sweep(d, ctx, K, alpha=alpha, spelling=spelling)
                if not tot.get('paths'):
                    continue
                run.add_stats({'paths': tot['paths'], 'solver_calls': tot.get('solver_calls', 0), 'solver_s': tot.get('solver_s', 0)})
                for k in ('match', 'skip-chained-comparison', 'outside-reference-grammar', 'other-structure', 'accept', 'reject', 'covered'):
                    totals[k] = totals.get(k, 0) + tot.get(k, 0)
                name = 'symtok:%s:%s:K=%d%s%s' % (d, ctx, K, ':core-alphabet' if alpha else '', ':%s-case words' % spelling if spelling else '')
                bad = [f for f in findings if f['kind'] == 'grouping']
                if not bad:
                    run.ob(name, 'discharged', 'paths=%d accepted=%d compared=%d' % (tot['paths'], tot.get('accept', 0), tot.get('match', 0)))
                else:
                    groups = {}
                    for f in bad:
                        groups.setdefault((f['parsed'], f['reference']), f)
                    n = 0
                    for f in list(groups.values())[:6]:
                        rep, info = replay_grouping(f)
                        key = 'grouping:%s:%s' % (d, ' '.join(f['expr_types']))
                        run.counterexample(key, '%s parses %s as %s, SQL grouping is %s' % (d, info.get('sql'), f['parsed'], f['reference']),
                                           {'finding': f, 'native': info}, rep)
                        n += 1 if rep else 0
                    run.ob(name, 'counterexample' if n else 'inconclusive', '%d mismatching paths' % tot.get('MISMATCH', 0))
                for s in samples[:1]:
                    run.sample(s)
    run.extra['path_outcomes'] = totals
    for d in SW.DIALECTS:
        L, P = SW.dialect_classes(d)
        r, wit, st = c03lib.table_query(P)
        run.add_stats({'solver_calls': st['queries'], 'solver_s': st['solver_s']})
        name = 'lrz3:%s:all-states-operator-conflicts' % d
        if r == 'unsat' and not wit:
            run.ob(name, 'discharged', st)
        elif wit:
            for w in wit[:8]:
                # replay = read the live table natively
                lt = P._lrtable
                row = getattr(lt, '_symtok_orig', lt.lr_action)[w['state']]
                native = row.get(w['lookahead'], 0)
                run.counterexample('table:%s:%s|%s' % (d, w['production'].split('  [')[0], w['lookahead']),
                                   'LALR table of %s: after %s with lookahead %s the action is %s' % (d, w['production'], w['lookahead'], native),
                                   {'witness': w, 'native_action': native}, native == w['action'])
            run.ob(name, 'counterexample', '%d operator pairs' % len(wit))
        else:
            run.ob(name, 'inconclusive', r)
    try:
        blank_invariance(run, tier)
    except Exception as e:  # noqa
        import traceback
        run.error('blank-invariance crashed: %r %s' % (e, traceback.format_exc()[-300:]))
    run.finish()


def replay(path):
    r = json.load(open(path))
    print(json.dumps(r, indent=1))
    f = r['replay'].get('finding')
    if f:
        rep, info = replay_grouping(f)
        print('native replay now: reproduced=%s %s' % (rep, json.dumps(info, default=repr)))
        return 1 if rep else 0
    return 2
