"""C03 — operator precedence and associativity.  SYMTOK over the expression alphabet in six contexts against an
independent precedence-climbing reader; LRZ3 query over every parser state; z3 semantic witness + sqlite3 replay."""
import os, json
from engines.common import Run, VERIF
from engines import sweep as SW, c03lib
from harness.C05 import to_sql


def replay_grouping(f):
    from mindsdb_sql import parse_sql
    from refs.precedence import Reader, Skip, Reject, shape_of_ast, normalise
    d = f['dialect']
    L, P = SW.dialect_classes(d)
    sql = to_sql(d, f['all_types'])
    info = {'sql': sql, 'dialect': d, 'context': f['context']}
    try:
        lexed = [t.type for t in L().tokenize(sql)]
        ast = parse_sql(sql, d)
    except Exception as e:  # noqa
        return False, dict(info, error=repr(e))
    if lexed != list(f['all_types']):
        return False, dict(info, note='text lexes differently', lexed=lexed)
    node = c03lib.CONTEXTS[f['context']][2](ast)
    if node is None:
        return False, dict(info, note='structure changed')
    got = normalise(shape_of_ast(node))
    try:
        want = normalise(Reader(f['expr_types']).parse())
    except (Skip, Reject) as e:
        return False, dict(info, note='outside the reference: %r' % e)
    info.update(parsed=repr(got), reference=repr(want))
    if got != want:
        w = semantic_witness(got, want, sql)
        if w:
            info['witness'] = w
    return got != want, info


def semantic_witness(got, want, sql):
    """z3: integer leaf values on which the two groupings evaluate differently (SQL 3VL omitted: non-NULL integers);
    replayed on sqlite3 with fully parenthesised renderings"""
    import z3, sqlite3
    leaves = []

    def ev(s):
        if s == 'leaf':
            v = z3.Int('x%d' % len(leaves))
            leaves.append(v)
            return v
        op = s[0]
        if op == 'paren':
            return ev(s[1])
        a = [ev(x) for x in s[1:]]
        b2i = lambda b: z3.If(b, 1, 0)
        if op == 'neg':
            return -a[0]
        if op in ('+', '-', '*'):
            return {'+': a[0] + a[1], '-': a[0] - a[1], '*': a[0] * a[1]}[op]
        if op in ('=', '!=', '<', '<=', '>', '>='):
            return b2i({'=': a[0] == a[1], '!=': a[0] != a[1], '<': a[0] < a[1], '<=': a[0] <= a[1], '>': a[0] > a[1], '>=': a[0] >= a[1]}[op])
        if op == 'and':
            return b2i(z3.And(a[0] != 0, a[1] != 0))
        if op == 'or':
            return b2i(z3.Or(a[0] != 0, a[1] != 0))
        if op == 'not':
            return b2i(a[0] == 0)
        if op == 'between':
            return b2i(z3.And(a[0] >= a[1], a[0] <= a[2]))
        raise ValueError(op)
    try:
        e1 = ev(got)
        n = len(leaves)
        leaves2 = list(leaves)
        leaves.clear()
        e2 = ev(want)
        if len(leaves) != n:
            return None
        s = z3.Solver()
        for x, y in zip(leaves2, leaves):
            s.add(x == y, x >= 0, x <= 5)
        s.add(e1 != e2)
        if str(s.check()) != 'sat':
            return {'note': 'no integer witness in 0..5 (groupings may differ only on NULLs / division)'}
        m = s.model()
        vals = [m.eval(x, model_completion=True).as_long() for x in leaves]
        return {'leaf_values': vals, 'parsed_grouping_value': m.eval(e1, model_completion=True).as_long(),
                'reference_grouping_value': m.eval(e2, model_completion=True).as_long()}
    except Exception as e:  # noqa
        return {'note': 'witness search not applicable: %r' % e}


def run(tier):
    run = Run('C03', tier)
    main_K = (1, 2, 3, 4, 5, 6) if tier == 'quick' else (1, 2, 3, 4, 5, 6, 7)
    ctx_K = (1, 2, 3, 4) if tier == 'quick' else (1, 2, 3, 4, 5)
    run.bounds = {'select_list_expression_tokens': max(main_K), 'other_contexts_expression_tokens': max(ctx_K),
                  'alphabet': c03lib.EXPR_ALPHA, 'contexts': list(c03lib.CONTEXTS)}
    run.functions = ['sly Parser.parse with the live LALR tables of the three dialects', 'expression grammar actions', 'live _lrtable.state_descriptions / lr_action (LRZ3)']
    run.assumptions = ['reference grouping = refs/precedence.py (the property\'s table); sequences the reference grammar does not cover (NOT as an operand of a tighter operator, binary NOT, function calls, subqueries) are counted as outside',
                       'a comparison that is a direct un-parenthesised operand of another comparison is skipped, as the property says',
                       'MINUS constant folding and ((x)) are normalised on both sides (semantics-preserving)',
                       'expressions longer than the bound are outside the SYMTOK claim; the LRZ3 query covers every state for binary/unary operator reductions without competing reductions']
    totals = {}
    core_K = (7,) if tier == 'quick' else (7, 8)
    run.bounds['core_alphabet'] = c03lib.CORE_ALPHA
    run.bounds['core_alphabet_expression_tokens'] = max(core_K)
    plan = []
    for d in SW.DIALECTS:
        for ctx in c03lib.CONTEXTS:
            for K in (main_K if ctx == 'select-list' else ctx_K):
                plan.append((d, ctx, K, None))
        for K in core_K:
            plan.append((d, 'select-list', K, c03lib.CORE_ALPHA))
    for d, ctx, K, alpha in plan:
        if True:
            if True:
                tot, findings, samples = c03lib.sweep(d, ctx, K, alpha=alpha)
                if not tot.get('paths'):
                    continue
                run.add_stats({'paths': tot['paths'], 'solver_calls': tot.get('solver_calls', 0), 'solver_s': tot.get('solver_s', 0)})
                for k in ('match', 'skip-chained-comparison', 'outside-reference-grammar', 'other-structure', 'accept', 'reject', 'covered'):
                    totals[k] = totals.get(k, 0) + tot.get(k, 0)
                name = 'symtok:%s:%s:K=%d%s' % (d, ctx, K, ':core-alphabet' if alpha else '')
                bad = [f for f in findings if f['kind'] == 'grouping']
                if not bad:
                    run.ob(name, 'discharged', 'paths=%d accepted=%d compared=%d' % (tot['paths'], tot.get('accept', 0), tot.get('match', 0)))
                else:
                    groups = {}
                    for f in bad:
                        groups.setdefault((f['parsed'], f['reference']), f)
                    n = 0
                    for f in list(groups.values())[:6]:
                        rep, info = replay_grouping(f)
                        key = 'grouping:%s:%s' % (d, ' '.join(f['expr_types']))
                        run.counterexample(key, '%s parses %s as %s, SQL grouping is %s' % (d, info.get('sql'), f['parsed'], f['reference']),
                                           {'finding': f, 'native': info}, rep)
                        n += 1 if rep else 0
                    run.ob(name, 'counterexample' if n else 'inconclusive', '%d mismatching paths' % tot.get('MISMATCH', 0))
                for s in samples[:1]:
                    run.sample(s)
    run.extra['path_outcomes'] = totals
    for d in SW.DIALECTS:
        L, P = SW.dialect_classes(d)
        r, wit, st = c03lib.table_query(P)
        run.add_stats({'solver_calls': st['queries'], 'solver_s': st['solver_s']})
        name = 'lrz3:%s:all-states-operator-conflicts' % d
        if r == 'unsat' and not wit:
            run.ob(name, 'discharged', st)
        elif wit:
            for w in wit[:8]:
                # replay = read the live table natively
                lt = P._lrtable
                row = getattr(lt, '_symtok_orig', lt.lr_action)[w['state']]
                native = row.get(w['lookahead'], 0)
                run.counterexample('table:%s:%s|%s' % (d, w['production'].split('  [')[0], w['lookahead']),
                                   'LALR table of %s: after %s with lookahead %s the action is %s' % (d, w['production'], w['lookahead'], native),
                                   {'witness': w, 'native_action': native}, native == w['action'])
            run.ob(name, 'counterexample', '%d operator pairs' % len(wit))
        else:
            run.ob(name, 'inconclusive', r)
    run.finish()


def replay(path):
    r = json.load(open(path))
    print(json.dumps(r, indent=1))
    f = r['replay'].get('finding')
    if f:
        rep, info = replay_grouping(f)
        print('native replay now: reproduced=%s %s' % (rep, json.dumps(info, default=repr)))
        return 1 if rep else 0
    return 2
