"""C05 - nothing but blanks and comments is skipped between tokens.  The token stream is what the grammar sees; text the LEXER drops never
reaches it, so "no token is skipped, nothing following the statement is ignored" also needs: every character of an accepted text lies inside
the lexeme of a token or inside a blank / comment.  Reference for what may be skipped (written from the SQL comment syntax, not from the lexer):
blanks, `;`, `-- ..` up to the end of the line, `/* .. */` up to the FIRST `*/`.

Solver part: for every ignore_* rule R of the live lexers, z3 (on the LEXZ3 translation of R) searches texts of <= 12 characters in L(R) that
are NOT skippable according to the reference; such a text is only a candidate (a lazy `*?` body matches the shortest text in practice, its
language is larger), so each is appended to accepted statements and lexed by the real lexer: a finding is a gap between two real tokens (or
before the first / after the last) that the reference does not allow; it is a violation when the real parse_sql accepts the text.
Text part: the same gap test on every text of the layout family (statement, statement + `;` + comment + other tokens + comment, ..)."""
import re
import z3
from engines import sweep as SW
from engines.lexz3 import LexerModel, translate

# what may stand between two tokens / after the last one
REF_UNIT = r'(?:[ \t\r\n;]|--[^\n]*\n|/\*(?:[^*]|\*+[^*/])*\*+/)'
REF_SKIP = re.compile(r'%s*(?:--[^\n]*)?' % REF_UNIT)


def _zstr(t):
    return re.sub(r'\\u\{([0-9a-fA-F]+)\}', lambda m: chr(int(m.group(1), 16)), t)


def candidates(L, per_rule=3, maxlen=12):
    """z3 models of  s in L(R), s not skippable by the reference, |s| <= maxlen, made of printable ASCII  for every ignore rule R"""
    lm = LexerModel(L)
    ref, _, _ = translate(REF_SKIP.pattern, False)
    printable = z3.Star(z3.Union(z3.Range(' ', '~'), z3.Re('\n')))
    out, unsupported = [], []
    for name, pat, r, lb, tb in lm.rules:
        if not name.startswith('ignore'):
            continue
        if r is None:
            unsupported.append(name)
            continue
        s = z3.String('s')
        found = []
        for _ in range(per_rule):
            res, m = lm.check(z3.InRe(s, r), z3.Not(z3.InRe(s, ref)), z3.InRe(s, printable), z3.Length(s) <= maxlen, *[s != z3.StringVal(f) for f in found], timeout_ms=30000)
            if res != 'sat':
                break
            found.append(_zstr(m[s].as_string()))
        out += [(name, f) for f in found]
    return out, lm.queries, lm.solver_s, unsupported


def gaps_not_skippable(L, text):
    """gaps of the real token stream of `text` that hold something else than blanks / comments -> list of (gap text, position)"""
    toks = list(L().tokenize(text))
    bad, pos = [], 0
    for t in toks:
        gap = text[pos:t.index]
        if not REF_SKIP.fullmatch(gap):
            bad.append((gap, pos))
        pos = t.end if getattr(t, 'end', None) is not None else t.index + len(str(t.value))
    gap = text[pos:]
    if not REF_SKIP.fullmatch(gap):
        bad.append((gap, pos))
    return bad


BASES = ['SELECT 1', 'SELECT a FROM t', 'SELECT * FROM t WHERE a = 1', 'DROP TABLE t', 'SHOW TABLES']
JUNK = ['DROP TABLE x', 'x', ')', 'SELECT 2', 'FROM']
TAILS = ['; /* a */ {J} /* b */', ' /* a */ {J} /* b */', '; -- a\n{J} /* b */', ';/**/{J}/**/;', '; {J}', ' -- a\n {J}', '; /* a */ {J}', ';;  /* a */ -- b\n/* c */ {J} -- d']


def add(run, tier):
    from mindsdb_sql import parse_sql
    for d in SW.DIALECTS:
        L, P = SW.dialect_classes(d)
        cands, q, ss, unsupported = candidates(L)
        run.add_stats({'solver_calls': q, 'solver_s': ss})
        texts = []
        for b in BASES:
            for name, c in cands:
                texts += [(b + c, 'ignore-rule member %r (z3)' % c), (b + ' ' + c, 'ignore-rule member %r (z3)' % c), (b + ' ' + c + ' x', 'ignore-rule member %r (z3) + x' % c)]
            for t in TAILS:
                for j in JUNK:
                    texts.append((b + t.replace('{J}', j), 'statement + %r' % t))
        n, bad = 0, {}
        for text, origin in texts:
            try:
                g = gaps_not_skippable(L, re.sub(r'[\s;]+$', '', text))
            except Exception:  # noqa  (illegal character: rejected by the lexer, nothing is skipped silently)
                continue
            n += 1
            if not g:
                continue
            try:
                accepted = parse_sql(text, d) is not None
            except Exception:  # noqa
                accepted = False
            bad.setdefault(accepted, []).append((text, g[0][0], origin))
        for accepted, items in sorted(bad.items(), reverse=True):
            items.sort(key=lambda x: len(x[0]))
            text, gap, origin = items[0]
            if accepted:
                run.counterexample('lexer-skips-text:%s:accepted' % d, '%s: parse_sql accepts %r although the lexer silently skipped %r, which is neither blank nor comment (%d texts; %s)'
                                   % (d, text, gap, len(items), origin), {'skip': {'dialect': d, 'text': text}}, True)
            else:
                run.sample({'lexer_skips_text_but_statement_rejected': {'dialect': d, 'text': text, 'skipped': gap}})
        st = 'counterexample' if bad.get(True) else ('inconclusive' if unsupported else 'discharged')
        run.ob('lexer-skips-only-blanks-and-comments:%s:%d texts (%d z3 members of ignore rules outside the reference, %d statement tails)' % (d, n, len(cands), len(TAILS) * len(JUNK)), st,
               ('ignore rules not translated: %s' % unsupported) if unsupported else '%d candidate members; lexer gaps checked against the reference on every text' % len(cands))
        run.validated += n


def replay(r):
    from mindsdb_sql import parse_sql
    a = r['replay']['skip']
    L, P = SW.dialect_classes(a['dialect'])
    if a.get('kind') == 'keyword-text':
        from engines.earley import Earley
        try:
            acc = parse_sql(a['text'], a['dialect']) is not None
        except Exception:  # noqa
            acc = False
        try:
            sent = Earley(P).recognise([t.type for t in L().tokenize(re.sub(r'[\s;]+$', '', a['text']))])
        except Exception:  # noqa
            sent = False
        print('native replay now: reproduced=%s accepted=%s sentence=%s' % (acc and not sent, acc, sent))
        return 1 if (acc and not sent) else 0
    g = gaps_not_skippable(L, re.sub(r'[\s;]+$', '', a['text']))
    try:
        acc = parse_sql(a['text'], a['dialect']) is not None
    except Exception:  # noqa
        acc = False
    print('native replay now: reproduced=%s accepted=%s skipped=%r' % (bool(g) and acc, acc, g[:1]))
    return 1 if (g and acc) else 0


# ---- whole texts with a keyword where a name stands ------------------------------------------------------------------------------------
# SYMTOK substitutes tokens in token STREAMS (the text handed to parse_sql is a stand-in), so anything parse_sql does with the TEXT before the
# lexer runs - a shortcut for one statement kind, say - is outside its view.  Here the short sentences of the live grammar are written out,
# every name in them is replaced by every word token of the live lexer (reserved words, word operators), and the real parse_sql on that text
# may accept only what the Earley oracle derives from the real lexer's token types of the same text.

def _kw_job(args):
    d, tier_quick = args
    import warnings
    warnings.filterwarnings('ignore')
    from engines.earley import Earley
    from engines.sentences import shortest_sentences
    from engines.symtok import representatives
    from mindsdb_sql import parse_sql
    L, P = SW.dialect_classes(d)
    earley = Earley(P)
    rep, lexemes = representatives(L)
    words = sorted({lx for t, lx in lexemes.items() if t not in ('ID',) and re.fullmatch(r'[A-Za-z_]+(?: [A-Za-z_]+)*', lx)})
    sents, seen = [], set()
    from harness import c02u2
    dv = c02u2.env_names(d)[0]          # shortest derivations that prefer ID over keyword terminals: name positions hold names
    cands = [types for p, types in shortest_sentences(P)]
    for p in dv.prods:
        if p.name not in dv.ctx:
            continue
        try:
            pre, suf = dv.ctx[p.name]
            cands.append(list(pre) + dv.root_trees(p, [0] * len(dv.n_alternatives(p))).tokens() + list(suf))
        except Exception:  # noqa
            continue
    for types in cands:
        if 1 < len(types) <= (5 if tier_quick else 6) and 'ID' in types and tuple(types) not in seen:
            seen.add(tuple(types))
            sents.append(list(types))
    n, bad = 0, []
    for types in sents:
        for i, t in enumerate(types):
            if t != 'ID':
                continue
            for w in words:
                for w_ in (w, w.lower()):
                    text = ' '.join(w_ if j == i else lexemes.get(x, x) for j, x in enumerate(types))
                    n += 1
                    try:
                        ok = parse_sql(text, d) is not None
                    except Exception:  # noqa
                        ok = False
                    if not ok:
                        continue
                    try:
                        own = [tk.type for tk in L().tokenize(re.sub(r'[\s;]+$', '', text))]
                        sentence = earley.recognise(own)
                    except Exception:  # noqa
                        sentence = False
                    if not sentence:
                        bad.append(text)
    return d, n, len(sents), len(words), bad


def add_keyword_texts(run, tier):
    import multiprocessing as mp
    with mp.get_context('fork').Pool(3) as pool:
        res = pool.map(_kw_job, [(d, tier == 'quick') for d in SW.DIALECTS])
    for d, n, ns, nw, bad in res:
        run.validated += n
        if bad:
            bad.sort(key=len)
            run.counterexample('accept-non-sentence-text:%s' % d, '%s: parse_sql accepts %r although the token stream the lexer gives for it is not a sentence of the grammar (%d texts, e.g. %s)'
                               % (d, bad[0], len(bad), bad[1:4]), {'skip': {'dialect': d, 'text': bad[0], 'kind': 'keyword-text'}}, True)
        run.ob('keyword-where-a-name-stands:%s:%d texts (%d short sentences of the live grammar x name positions x %d word tokens x 2 letter cases)' % (d, n, ns, nw),
               'counterexample' if bad else 'discharged', None)
