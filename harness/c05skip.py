"""C05 - nothing but blanks and comments is skipped between tokens.  The token stream is what the grammar sees; text the LEXER drops never
reaches it, so "no token is skipped, nothing following the statement is ignored" also needs: every character of an accepted text lies inside
the lexeme of a token or inside a blank / comment.  Reference for what may be skipped (written from the SQL comment syntax, not from the lexer):
blanks, `;`, `-- ..` up to the end of the line, `/* .. */` up to the FIRST `*/`.

Solver part: for every ignore_* rule R of the live lexers, z3 (on the LEXZ3 translation of R) searches texts of <= 12 characters in L(R) that
are NOT skippable according to the reference; such a text is only a candidate (a lazy `*?` body matches the shortest text in practice, its
language is larger), so each is appended to accepted statements and lexed by the real lexer: a finding is a gap between two real tokens (or
before the first / after the last) that the reference does not allow; it is a violation when the real parse_sql accepts the text.
Text part: the same gap test on every text of the layout family (statement, statement + `;` + comment + other tokens + comment, ..)."""
import re
import z3
from engines import sweep as SW
from engines.lexz3 import LexerModel, translate

# what may stand between two tokens / after the last one
REF_UNIT = r'(?:[ \t\r\n;]|--[^\n]*\n|/\*(?:[^*]|\*+[^*/])*\*+/)'
REF_SKIP = re.compile(r'%s*(?:--[^\n]*)?' % REF_UNIT)


def _zstr(t):
    return re.sub(r'\\u\{([0-9a-fA-F]+)\}', lambda m: chr(int(m.group(1), 16)), t)


def candidates(L, per_rule=3, maxlen=12):
    """z3 models of  s in L(R), s not skippable by the reference, |s| <= maxlen, made of printable ASCII  for every ignore rule R"""
    lm = LexerModel(L)
    ref, _, _ = translate(REF_SKIP.pattern, False)
    printable = z3.Star(z3.Union(z3.Range(' ', '~'), z3.Re('\n')))
    out, unsupported = [], []
    for name, pat, r, lb, tb in lm.rules:
        if not name.startswith('ignore'):
            continue
        if r is None:
            unsupported.append(name)
            continue
        s = z3.String('s')
        found = []
        for _ in range(per_rule):
            res, m = lm.check(z3.InRe(s, r), z3.Not(z3.InRe(s, ref)), z3.InRe(s, printable), z3.Length(s) <= maxlen, *[s != z3.StringVal(f) for f in found], timeout_ms=30000)
            if res != 'sat':
                break
            found.append(_zstr(m[s].as_string()))
        out += [(name, f) for f in found]
    return out, lm.queries, lm.solver_s, unsupported


def gaps_not_skippable(L, text):
    """gaps of the real token stream of `text` that hold something else than blanks / comments -> list of (gap text, position)"""
    toks = list(L().tokenize(text))
    bad, pos = [], 0
    for t in toks:
        gap = text[pos:t.index]
        if not REF_SKIP.fullmatch(gap):
            bad.append((gap, pos))
        pos = t.end if getattr(t, 'end', None) is not None else t.index + len(str(t.value))
    gap = text[pos:]
    if not REF_SKIP.fullmatch(gap):
        bad.append((gap, pos))
    return bad


BASES = ['SELECT 1', 'SELECT a FROM t', 'SELECT * FROM t WHERE a = 1', 'DROP TABLE t', 'SHOW TABLES']
JUNK = ['DROP TABLE x', 'x', ')', 'SELECT 2', 'FROM']
TAILS = ['; /* a */ {J} /* b */', ' /* a */ {J} /* b */', '; -- a\n{J} /* b */', ';/**/{J}/**/;', '; {J}', ' -- a\n {J}', '; /* a */ {J}', ';;  /* a */ -- b\n/* c */ {J} -- d']


def add(run, tier):
    from mindsdb_sql import parse_sql
    for d in SW.DIALECTS:
        L, P = SW.dialect_classes(d)
        cands, q, ss, unsupported = candidates(L)
        run.add_stats({'solver_calls': q, 'solver_s': ss})
        texts = []
        for b in BASES:
            for name, c in cands:
                texts += [(b + c, 'ignore-rule member %r (z3)' % c), (b + ' ' + c, 'ignore-rule member %r (z3)' % c), (b + ' ' + c + ' x', 'ignore-rule member %r (z3) + x' % c)]
            for t in TAILS:
                for j in JUNK:
                    texts.append((b + t.replace('{J}', j), 'statement + %r' % t))
        n, bad = 0, {}
        for text, origin in texts:
            try:
                g = gaps_not_skippable(L, re.sub(r'[\s;]+$', '', text))
            except Exception:  # noqa  (illegal character: rejected by the lexer, nothing is skipped silently)
                continue
            n += 1
            if not g:
                continue
            try:
                accepted = parse_sql(text, d) is not None
            except Exception:  # noqa
                accepted = False
            bad.setdefault(accepted, []).append((text, g[0][0], origin))
        for accepted, items in sorted(bad.items(), reverse=True):
            items.sort(key=lambda x: len(x[0]))
            text, gap, origin = items[0]
            if accepted:
                run.counterexample('lexer-skips-text:%s:accepted' % d, '%s: parse_sql accepts %r although the lexer silently skipped %r, which is neither blank nor comment (%d texts; %s)'
                                   % (d, text, gap, len(items), origin), {'skip': {'dialect': d, 'text': text}}, True)
            else:
                run.sample({'lexer_skips_text_but_statement_rejected': {'dialect': d, 'text': text, 'skipped': gap}})
        st = 'counterexample' if bad.get(True) else ('inconclusive' if unsupported else 'discharged')
        run.ob('lexer-skips-only-blanks-and-comments:%s:%d texts (%d z3 members of ignore rules outside the reference, %d statement tails)' % (d, n, len(cands), len(TAILS) * len(JUNK)), st,
               ('ignore rules not translated: %s' % unsupported) if unsupported else '%d candidate members; lexer gaps checked against the reference on every text' % len(cands))
        run.validated += n


def replay(r):
    from mindsdb_sql import parse_sql
    a = r['replay']['skip']
    L, P = SW.dialect_classes(a['dialect'])
    g = gaps_not_skippable(L, re.sub(r'[\s;]+$', '', a['text']))
    try:
        acc = parse_sql(a['text'], a['dialect']) is not None
    except Exception:  # noqa
        acc = False
    print('native replay now: reproduced=%s accepted=%s skipped=%r' % (bool(g) and acc, acc, g[:1]))
    return 1 if (g and acc) else 0
