"""C16 — embedded queries are stored verbatim.  CrossHair on tokens_to_string o real lexer actions (symbolic lexeme
content), CrossHair path-splitting over layout geometry with native leaves through the real lexer, and a
concrete wiring check per embedding command."""
import os, json, re
from engines.common import Run, ch_obligations, VERIF

HARNESS = os.path.join(VERIF, 'harness', 'ch_C16.py')
INNER = ("select 'it''s', '', 'a\\'b', \"d\\\"q\", @x, @@y, @'a b', 1.50, 007, `a b`.c   -- note\n"
         "  from t1 /* c */ where (a = 'x' and b in (1, 2))\n\n   and f(g(1)) > 0")

COMMANDS = {
    'create-model': ('CREATE MODEL m FROM db ({q}) PREDICT y', ['query_str']),
    'create-predictor': ('CREATE PREDICTOR m FROM db ({q}) PREDICT y', ['query_str']),
    'retrain': ('RETRAIN m FROM db ({q})', ['query_str']),
    'finetune': ('FINETUNE m FROM db ({q})', ['query_str']),
    'evaluate': ('EVALUATE acc FROM ({q})', ['query_str']),
    'create-view': ('CREATE VIEW v ({q})', ['query_str']),
    'create-view-as': ('CREATE VIEW v AS ({q})', ['query_str']),
    'create-view-from': ('CREATE VIEW v FROM db ({q})', ['query_str']),
    'create-job-if': ('CREATE JOB j ({q}) EVERY hour IF ({q})', ['query_str', 'if_query_str']),
    'create-trigger': ('CREATE TRIGGER tr ON db.tbl ({q})', ['query_str']),
    'native-query': ('SELECT * FROM db ({q})', ['from_table.query']),
}


def strip_ws(t):
    return ' '.join(re.sub(r'/\*[\s\S]*?\*/|--[^\n]*', ' ', t).split())


def derived_inner_queries():
    """inner queries generated from the live grammar: every (parent, child) production pair below the nonterminals `select` and `union`
    (parenthesised members, set operations of parenthesised selects, clauses in every order the grammar allows)"""
    from harness import c02u2
    from engines import acttree as AT
    from mindsdb_sql import parse_sql
    dv, parser, rep, lexemes, _ = c02u2.env('mindsdb')
    out, seen = [], set()
    for p in dv.prods:
        if p.name not in ('select', 'union'):
            continue
        for j, cp, tree in dv.pair_trees(p):
            v = c02u2.VOCAB[0]
            pools = AT.Pools(list(v['ints']), list(v['ids']), list(v['strs']), v['fl'], v['var'])
            text = AT.text_of(tree, pools, lexemes)
            if text in seen:
                continue
            seen.add(text)
            try:
                parse_sql(text, 'mindsdb')
            except Exception:  # noqa
                continue
            out.append(text)
    return out


def wiring(run):
    from mindsdb_sql import parse_sql
    derived = derived_inner_queries()
    run.extra['derived_inner_queries'] = len(derived)
    for name, (tmpl, attrs) in COMMANDS.items():
        bad, n = None, 0
        for q in derived:
            try:
                ast = parse_sql(tmpl.format(q=q), 'mindsdb')
            except Exception:  # noqa
                continue          # this inner query is not accepted inside this command
            for a in attrs:
                obj = ast
                for part in a.split('.'):
                    obj = getattr(obj, part)
                n += 1
                if strip_ws(obj) != strip_ws(q) and bad is None:
                    bad = (q, obj)
        run.validated += n
        if bad:
            run.counterexample('embedded-query:%s:derived' % name, '%s stores %r for inner query %r' % (name, bad[1], bad[0]),
                               {'command': tmpl.format(q=bad[0]), 'stored': bad[1], 'inner': bad[0]}, True)
        run.ob('wiring-derived:' + name, 'counterexample' if bad else 'discharged', '%d stored texts compared with grammar-derived inner queries' % n)
    inner_tree = parse_sql(INNER, 'mindsdb').to_tree()
    for name, (tmpl, attrs) in COMMANDS.items():
        sql = tmpl.format(q=INNER)
        try:
            ast = parse_sql(sql, 'mindsdb')
        except Exception as e:  # noqa
            run.ob('wiring:' + name, 'inconclusive', 'command does not parse: %r' % e)
            continue
        ok = True
        for a in attrs:
            obj = ast
            for part in a.split('.'):
                obj = getattr(obj, part)
            stored = obj
            same_text = strip_ws(stored) == strip_ws(INNER)
            try:
                same_tree = parse_sql(stored, 'mindsdb').to_tree() == inner_tree
            except Exception as e:  # noqa
                same_tree = False
            run.validated += 1
            if not (same_text and same_tree):
                ok = False
                run.counterexample('embedded-query:%s:%s' % (name, 'text' if not same_text else 'tree'),
                                   '%s stores %r for inner query %r' % (name, stored, INNER),
                                   {'command': sql, 'stored': stored, 'inner': INNER, 'same_text_up_to_ws': same_text, 'same_tree': same_tree}, True)
        run.ob('wiring:' + name, 'discharged' if ok else 'counterexample', None)


def mk_replay(kind):
    def replay(args):
        from mindsdb_sql import parse_sql
        s = args['s']
        pos = int(args.get('pos', 1))
        inner = ['select 1, %s', 'select %s x', 'select 1 from t where c = %s'][pos] % s
        sql = 'CREATE VIEW v (%s)' % inner
        try:
            stored = parse_sql(sql, 'mindsdb').query_str
        except Exception as e:  # noqa
            return False, {'sql': sql, 'error': repr(e)}, 'embedded-lexeme:%s:unparsable' % kind, 'n/a'
        bad = strip_ws(stored) != strip_ws(inner) or (s not in stored)
        return bad, {'sql': sql, 'stored': stored}, 'embedded-lexeme:%s' % kind, 'CREATE VIEW stores %r for %r' % (stored, inner)
    return replay


def r_stored(args):
    """through the public API: the command whose AST class the unit constructed, with the lexeme in its inner query"""
    import importlib
    from mindsdb_sql import parse_sql
    m = importlib.import_module('harness.ch_C16')
    name, c, q, req = m.CONSTRUCTORS[int(args['k'])]
    s = args['s']
    inner = 'select ' + s + ' x' + ('; select 2' if args.get('two') else '')
    info = {'class': name, 'attribute': q, 'inner': inner}
    cmds = {'CreateJob': 'CREATE JOB j (%s) EVERY hour' if q == 'query_str' else 'CREATE JOB j (select 1) EVERY hour IF (%s)', 'CreateView': 'CREATE VIEW v (%s)',
            'CreateTrigger': 'CREATE TRIGGER tr ON db.tbl (%s)', 'Evaluate': 'EVALUATE acc FROM (%s)', 'CreatePredictor': 'CREATE MODEL m FROM db (%s) PREDICT y',
            'RetrainPredictor': 'RETRAIN m FROM db (%s)', 'FinetunePredictor': 'FINETUNE m FROM db (%s)', 'NativeQuery': 'SELECT * FROM db (%s)',
            'CreateAnomalyDetectionModel': 'CREATE ANOMALY DETECTION MODEL m FROM db (%s)'}
    key = 'embedded-stored:%s.%s' % (name, q)
    if name in cmds:
        sql = cmds[name] % inner
        try:
            ast = parse_sql(sql, 'mindsdb')
            stored = getattr(ast.from_table, 'query') if name == 'NativeQuery' else getattr(ast, q)
            info.update(sql=sql, stored=stored)
            if isinstance(stored, str) and (s not in stored or strip_ws(stored) != strip_ws(inner)):
                return True, info, key, '%s stores %r for the inner query %r' % (name, stored, inner)
        except Exception as e:  # noqa
            info['public_api'] = repr(e)[:120]
    # the constructor itself (real code, called the way the grammar action calls it)
    stored = m.stored_by(int(args['k']), inner)
    info['stored_by_constructor'] = stored
    bad = not (isinstance(stored, str) and s in stored and m._outside(stored, s) == m._outside(inner, s))
    return bad, info, key, '%s(%s=%r) stores %r' % (name, q, inner, stored)


def r_layout(args, pos=1):
    import importlib
    m = importlib.import_module('harness.ch_C16')
    ok = m.layout_leaf(args['k'], args['gap1'], args['gap2'], bool(args['nl1']), bool(args['nl2']), args['c1'], args['c2'], pos)
    args = dict(args, pos=pos)
    return (not ok), {'args': args, 'lexeme': m.LEXEMES[args['k']]}, 'embedded-layout:%s' % m.LEXEMES[args['k']], \
        'tokens_to_string loses text for lexeme %s in layout %s' % (m.LEXEMES[args['k']], args)


def r_pair(args):
    """through the public API: CREATE VIEW with the two lexemes in its inner query; stored text vs the written text"""
    import importlib
    from mindsdb_sql import parse_sql
    m = importlib.import_module('harness.ch_C16')
    ka, kb = int(args['ka']), int(args['kb'])
    a, b = m.PAIR_LEXEMES[ka], m.PAIR_LEXEMES[kb]
    ok = m.pair_leaf(ka, kb, int(args['gap']), bool(args['nl']))
    info = {'lexemes': [a, b], 'unit_ok': ok}
    inner = 'select %s, %s from t' % (a, b)
    try:
        stored = parse_sql('CREATE VIEW v (%s)' % inner, 'mindsdb').query_str
        info.update(inner=inner, stored=stored)
        bad = strip_ws(stored) != strip_ws(inner)
    except Exception as e:  # noqa
        info['public_api'] = repr(e)[:120]
        bad = not ok
    return (bad or not ok), info, 'embedded-pair:%s:%s' % (a, b), 'inner query %r is stored as %r' % (inner, info.get('stored'))


def specs():
    sp = [dict(fn=k, twin=('reach' if k == 'quote_string' else None), replay=mk_replay(k))
          for k in ('quote_string', 'dquote_string', 'variable', 'system_variable', 'identifier', 'number')]
    sp.append(dict(fn='stored_quote_string', twin='stored_reach', replay=r_stored))
    sp.append(dict(fn='stored_dquote_string', twin=None, replay=r_stored))
    sp.append(dict(fn='layout', twin='layout_reach', replay=r_layout))
    sp.append(dict(fn='layout_first', twin='layout_reach', replay=lambda a: r_layout(a, 0)))
    sp.append(dict(fn='layout_last', twin='layout_reach', replay=lambda a: r_layout(a, 2)))
    sp.append(dict(fn='pair', twin='pair_reach', replay=r_pair))
    return sp


def run(tier):
    run = Run('C16', tier)
    n = 4 if tier == 'quick' else 6
    os.environ['VERIF_STRLEN'] = str(n)
    run.bounds = {'lexeme_len_max': n, 'layout': 'gaps 0..2, line breaks, block/line comments before and after, 11 lexeme kinds', 'commands': list(COMMANDS)}
    run.functions = ['mindsdb_sql.parser.utils.tokens_to_string', 'MindsDBLexer QUOTE_STRING/DQUOTE_STRING/VARIABLE/SYSTEM_VARIABLE/ID/INTEGER/FLOAT actions',
                     'MindsDBLexer.tokenize (layout leaves, native)', '__init__ of every AST class taking query_str / if_query_str / query: str (found by reflection)', 'embedding grammar actions (wiring, concrete)']
    run.assumptions = ['STUB: in the symbolic content harnesses Lexeme (str subclass) is replaced by a plain holder with the same .raw, because CrossHair realises str-subclass constructor arguments; the layout leaves and the wiring check use the real class',
                       'content harnesses use three tokens select / LEXEME / x with the lexeme first, in the middle or last (symbolic), single spaces; geometry is covered by the layout harness on 11 concrete lexemes',
                       'multi-line string literals and comments inside the inner query other than between tokens are outside the claim']
    ch_obligations(run, HARNESS, specs(), cond_to=150 if tier == 'quick' else 900)
    try:
        wiring(run)
    except Exception as e:  # noqa
        run.error('wiring crashed: %r' % e)
    run.sample({'inner_query': INNER})
    run.finish()


def replay(path):
    r = json.load(open(path))
    print(json.dumps(r, indent=1))
    for s in specs():
        if s['fn'] == r['replay'].get('harness'):
            rep, info, key, what = s['replay'](r['replay']['args'])
            print('native replay now: reproduced=%s %s' % (rep, json.dumps(info, default=repr)))
            return 1 if rep else 0
    return 2
