"""C07 — constants render as inert, exact literals (CrossHair on the real literal paths; wiring check concrete)."""
import os, json
from engines.common import Run, ch_obligations, VERIF
from refs.readers import read_quoted_mindsdb, read_sql_standard, read_sql_mysql, printable_string_value

HARNESS = os.path.join(VERIF, 'harness', 'ch_C07.py')
DIALECTS = ('mysql', 'postgresql', 'postgres', 'sqlite', 'mssql', 'oracle', 'Snowflake')
MARKER = "it's \\ 100% :x ; -- \"q\" /* c */\nz"


def r_lit(args):
    from mindsdb_sql import parse_sql
    from mindsdb_sql.parser.ast import Select, Constant, Identifier, BinaryOperation
    from mindsdb_sql.render.sqlalchemy_render import SqlalchemyRender
    s, d = args['s'], DIALECTS[args['which']]
    q = Select(targets=[Identifier('a')], from_table=Identifier('t'), where=BinaryOperation('=', args=[Identifier('a'), Constant(s)]))
    out = SqlalchemyRender(d).get_string(q, with_failback=False)
    reader = read_sql_mysql if d == 'mysql' else read_sql_standard
    # the literal is the text after "= " up to the end of the statement
    i = out.index('= ') + 2
    lit = out[i:]
    got = reader(lit)
    cls = 'backslash' if '\\' in s else ('quote' if "'" in s else 'other')
    return got != s, {'value': s, 'dialect': d, 'rendered': out, 'read_back': got}, 'render-literal:%s:%s' % (d, cls), \
        'constant %r rendered for %s as %s reads back as %r' % (s, d, lit, got)


def r_const(args):
    from mindsdb_sql import parse_sql
    from mindsdb_sql.parser.ast import Constant
    s = args['s']
    text = Constant(s).get_string()
    got = read_quoted_mindsdb(text, "'")
    info = {'value': s, 'printed': text, 'read_back_by_reference': got}
    try:
        # context matters (the lexer back-tracks): the literal is followed by another literal
        ast = parse_sql('SELECT ' + text + ", 'z'", 'mindsdb')
        real = getattr(ast.targets[0], 'value', None) if len(ast.targets) == 2 else '<%d targets>' % len(ast.targets)
    except Exception as e:  # noqa
        real = 'error: %s' % type(e).__name__
    info['read_back_by_parse_sql'] = real
    cls = 'backslash-before-quote-or-end' if not printable_string_value(s) else 'other'
    return real != s, info, 'constant-to-string:%s' % cls, 'Constant(%r) prints %s which parses back as %r' % (s, text, real)


def r_insert_raw(args):
    from mindsdb_sql import parse_sql
    from mindsdb_sql.parser.ast import Insert, Identifier
    s = args['s']
    ins = Insert(table=Identifier('t'), values=[[s]])
    text = ins.to_string()
    try:
        back = parse_sql(text, 'mindsdb')
        v = back.values[0][0]
        real = getattr(v, 'value', repr(v))
    except Exception as e:  # noqa
        real = 'error: %s' % type(e).__name__
    return real != s, {'value': s, 'printed': text, 'read_back': real}, 'insert-raw-value:repr', \
        'Insert with raw value %r prints %s which parses back as %r' % (s, text, real)


def wiring(run):
    """one concrete render per position x dialect: the position routes through the literal unit (marker inside one literal)"""
    from mindsdb_sql import parse_sql
    from mindsdb_sql.parser.ast import Select, Constant, Identifier, BinaryOperation, Tuple, Insert, Update
    from mindsdb_sql.render.sqlalchemy_render import SqlalchemyRender, render_string_literal
    c = lambda: Constant(MARKER)
    positions = {
        'select-list': Select(targets=[c()], from_table=Identifier('t')),
        'where': Select(targets=[Identifier('a')], from_table=Identifier('t'), where=BinaryOperation('=', args=[Identifier('a'), c()])),
        'in-list': Select(targets=[Identifier('a')], from_table=Identifier('t'), where=BinaryOperation('in', args=[Identifier('a'), Tuple([c(), Constant(1)])])),
        'insert-values': Insert(table=Identifier('t'), columns=[Identifier('a')], values=[[c()]]),
        'update-set': Update(table=Identifier('t'), update_columns={'a': c()}, where=BinaryOperation('=', args=[Identifier('b'), Constant(1)])),
    }
    bad = 0
    for d in DIALECTS:
        r = SqlalchemyRender(d)
        want = render_string_literal(MARKER, r.dialect)
        reader = read_sql_mysql if d == 'mysql' else read_sql_standard
        assert reader(want) == MARKER, (d, want)
        for pos, q in positions.items():
            try:
                out = r.get_string(q, with_failback=False)
            except Exception as e:  # noqa  (statement kind not renderable for this dialect: falls back to the tree's own string)
                run.extra['wiring_not_renderable'] = run.extra.get('wiring_not_renderable', 0) + 1
                continue
            n = out.count(want)
            if n < 1:
                bad += 1
                run.counterexample('wiring:%s:%s' % (d, pos), 'constant in %s position is not rendered through the literal compiler for %s: %s' % (pos, d, out),
                                   {'dialect': d, 'position': pos, 'rendered': out, 'expected_literal': want}, True)
            run.validated += 1
    run.ob('wiring:positions-x-dialects', 'discharged' if not bad else 'counterexample', '%d renders, marker %r' % (len(DIALECTS) * len(positions), MARKER))


T_TYPED = '''
def typed_{d}(pos: int, k1: int, k2: int) -> int:
    """
    pre: 0 <= pos < {np} and 0 <= k1 < {nk} and 0 <= k2 < {nk}
    post: _ == 0
    """
    return step(pos, k1, k2, {d})


def typed_{d}_reach(pos: int, k1: int, k2: int) -> int:
    """
    pre: 0 <= pos < {np} and 0 <= k1 < {nk} and 0 <= k2 < {nk}
    post: False
    """
    return step(pos, k1, k2, {d})
'''


def gen_typed():
    from harness import c07lib
    d = os.path.join(VERIF, '.scratch')
    os.makedirs(d, exist_ok=True)
    path = os.path.join(d, 'gen_ch_C07.py')
    with open(path, 'w') as f:
        f.write('from harness.c07lib import step\n')
        for i in range(len(c07lib.DIALECTS)):
            f.write(T_TYPED.format(d=i, np=len(c07lib.POSITIONS), nk=len(c07lib.KINDS)))
    return path


def r_typed(d):
    def replay(args):
        from harness import c07lib
        pr, info = c07lib.leaf(int(args['pos']), int(args['k1']), int(args['k2']), d)
        return bool(pr), dict(info, problems=pr[:3]), 'typed-constant:%s:%s:%s-%s' % (info['dialect'], info['position'], info['kinds'][0], info['kinds'][1]), (pr[0] if pr else '')
    return replay


def number_values():
    """numeric constants at every decade boundary of float formatting (repr switches to exponent notation below 1e-4 and from 1e16),
    with short and long mantissas, both signs; integers across the machine-word boundaries; booleans and NULL"""
    fl = [0.0, 1e-05, 0.0001, 0.00001, 1e15, 1e16, 1e17, 123456789.125, float(2 ** 53), 0.1 + 0.2, 1 / 3, 5e-324, 1.7976931348623157e308]
    for e in range(-12, 23):
        for m in (1.0, 2.5, 9.999, 5.0, 1.2345678901234567):
            fl.append(m * 10.0 ** e)
    fl += [-x for x in fl[:40:3]]
    ints = [0, 1, -1, 7, 2 ** 31 - 1, 2 ** 31, -2 ** 31, 2 ** 63 - 1, 2 ** 63, 10 ** 20, -10 ** 20]
    return fl, ints


def _num_value(node):
    from mindsdb_sql.parser.ast import Constant, UnaryOperation, NullConstant
    if isinstance(node, NullConstant):
        return None
    if isinstance(node, UnaryOperation) and node.op == '-' and isinstance(node.args[0], Constant):
        v = node.args[0].value
        return -v if isinstance(v, (int, float)) and not isinstance(v, bool) else ('?', repr(node))
    if isinstance(node, Constant):
        return node.value
    return ('?', type(node).__name__)


def numbers_part(run):
    """the tree's own string of numeric / boolean / NULL constants (Constant.get_string, Insert.to_value), read back by each of the three
    real lexers + parsers: same value, same type (concrete family over the formatting boundaries, stated as such)"""
    from mindsdb_sql import parse_sql
    from mindsdb_sql.parser.ast import Constant, NullConstant, Select, Insert, Identifier
    fl, ints = number_values()
    vals = [(v, float) for v in fl] + [(v, int) for v in ints] + [(True, bool), (False, bool), (None, type(None))]
    bad, n = {}, 0
    for v, ty in vals:
        node = NullConstant() if v is None else Constant(v)
        forms = [('select-list', Select(targets=[node])), ('insert-node', Insert(table=Identifier('t'), columns=[Identifier('a')], values=[[node]])),
                 ('insert-raw', Insert(table=Identifier('t'), columns=[Identifier('a')], values=[[v]]))]
        for form, tree in forms:
            try:
                text = tree.to_string()
            except Exception as e:  # noqa
                bad.setdefault((form, 'print raises %s' % type(e).__name__), []).append(repr(v))
                continue
            for d in ('mindsdb', 'mysql', 'sqlite'):
                n += 1
                try:
                    back = parse_sql(text, d)
                    got = _num_value(back.targets[0] if form == 'select-list' else back.values[0][0])
                except Exception as e:  # noqa
                    got = ('?', 'parse raises %s' % type(e).__name__)
                ok = (got is None) if v is None else (type(got) is ty and got == v)
                if not ok:
                    bad.setdefault((form, d), []).append('%r printed %r read %r' % (v, text, got))
    for (form, d), items in sorted(bad.items()):
        run.counterexample('number-to-string:%s:%s' % (form, d), 'constant in %s, read by %s: %s (%d values fail this way)' % (form, d, items[0], len(items)),
                           {'numbers': {'form': form, 'dialect': d, 'examples': items[:5]}}, True)
    run.ob('numbers:tree-string:%d values x 3 forms x 3 dialects' % len(vals), 'counterexample' if bad else 'discharged', '%d read-backs' % n)
    run.validated += n


def dates_part(run):
    """the tree's own string of date / datetime / timedelta constants (Constant.get_string, Insert.to_value, also as raw row values),
    read back by each of the three real lexers + parsers: one string constant whose value is str(value) (concrete boundary family, stated as such)"""
    import datetime as dt
    from mindsdb_sql import parse_sql
    from mindsdb_sql.parser.ast import Constant, Select, Insert, Identifier, BinaryOperation
    from harness.c07lib import DATE_VALUES

    class Stamp(dt.datetime):
        """a datetime subclass (what data frames hand over)"""
    vals = list(DATE_VALUES) + [dt.timedelta(0), dt.timedelta(microseconds=1), dt.timedelta(days=999999999), dt.datetime(2020, 1, 2, 0, 0), dt.date(2024, 2, 29),
                                dt.datetime(2020, 1, 2, 3, 4, 5, 600000, tzinfo=dt.timezone.utc), Stamp(2021, 3, 4, 5, 6, 7)]
    bad, n = {}, 0
    for v in vals:
        forms = [('select-list', Select(targets=[Constant(v)])), ('where', Select(targets=[Identifier('a')], from_table=Identifier('t'), where=BinaryOperation('>', args=[Identifier('a'), Constant(v)]))),
                 ('insert-node', Insert(table=Identifier('t'), columns=[Identifier('a')], values=[[Constant(v)]])),
                 ('insert-raw', Insert(table=Identifier('t'), columns=[Identifier('a')], values=[[v]]))]
        for form, tree in forms:
            try:
                text = tree.to_string()
            except Exception as e:  # noqa
                bad.setdefault((form, 'print raises %s' % type(e).__name__), []).append(repr(v))
                continue
            for d in ('mindsdb', 'mysql', 'sqlite'):
                n += 1
                try:
                    back = parse_sql(text, d)
                    node = back.targets[0] if form == 'select-list' else back.where.args[1] if form == 'where' else back.values[0][0]
                    got = node.value if type(node) is Constant else ('?', type(node).__name__)
                except Exception as e:  # noqa
                    got = ('?', 'parse raises %s' % type(e).__name__)
                if not (isinstance(got, str) and got == str(v)):
                    bad.setdefault((form, d), []).append('%r printed %r read %r' % (v, text, got))
    for (form, d), items in sorted(bad.items()):
        run.counterexample('date-to-string:%s:%s' % (form, d), 'date constant in %s, read by %s: %s (%d values fail this way)' % (form, d, items[0], len(items)),
                           {'dates': {'form': form, 'dialect': d, 'examples': items[:5]}}, True)
    run.ob('dates:tree-string:%d values x 4 forms x 3 dialects' % len(vals), 'counterexample' if bad else 'discharged', '%d read-backs' % n)
    run.validated += n


def native_strings_part(run, tier):
    """cross-check of the CrossHair lemma on Constant.get_string / Insert.to_value (CrossHair's model of regular expressions is not trusted: a printer
    that escapes with a look-behind pattern made it report a value that round-trips and stop): every string of <= 4 / 5 characters over a boundary
    alphabet (both quotes, back-slash, letter, blank, line break, percent, semicolon, dash) goes through the real printers and the real parser."""
    import itertools
    alphabet = ["'", '"', chr(92), 'a', ' ', chr(10), '%', ';', '-']
    n_max = 4 if tier == 'quick' else 5
    bad, n, known = {}, 0, 0
    for k in range(0, n_max + 1):
        for tup in itertools.product(alphabet, repeat=k):
            s_ = ''.join(tup)
            n += 1
            for fn in (r_const, r_insert_raw):
                rep, info, key, what = fn({'s': s_})
                if not rep:
                    continue
                if key.endswith('backslash-before-quote-or-end') or not printable_string_value(s_):
                    known += 1
                    continue
                bad.setdefault(key, []).append((s_, what))
    for key, items in sorted(bad.items()):
        items.sort(key=lambda x: len(x[0]))
        run.counterexample(key, '%s (%d strings of the boundary alphabet fail this way)' % (items[0][1], len(items)),
                           {'harness': 'const_to_string' if key.startswith('constant') else 'insert_raw_value[printable]', 'args': {'s': items[0][0]}}, True)
    run.ob('strings:tree-string:native cross-check, %d strings of <= %d characters over a 9-character boundary alphabet' % (n, n_max), 'counterexample' if bad else 'discharged',
           '%d values of the known inexpressible class skipped' % known)
    run.validated += n


def specs():
    return [
        dict(fn='lit_render', twin='lit_render_reach', replay=r_lit),
        dict(fn='const_to_string', twin='const_to_string_reach', replay=r_const),
        dict(fn='const_to_string_known', twin=None, replay=r_const, name='const_to_string[known-finding class]'),
        dict(fn='insert_value_node', twin='insert_value_node_reach', replay=r_const),
        dict(fn='insert_raw_value', twin=None, replay=r_insert_raw, name='insert_raw_value[printable]'),
    ]


def run(tier):
    run = Run('C07', tier)
    n = 4 if tier == 'quick' else 6
    os.environ['VERIF_STRLEN'] = str(n)
    run.bounds = {'value_len_max': n, 'alphabet': 'all Unicode code points', 'dialects': list(DIALECTS), 'compilers': 'dml and ddl'}
    run.functions = ['render_dml_query.<locals>.LiteralCompiler.render_literal_value (captured real class, 7 dialect names)',
                     'render_ddl_query.<locals>.LiteralCompiler.render_literal_value', 'render_string_literal',
                     'Constant.get_string', 'Insert.to_value']
    run.assumptions = ['target lexical rules: MySQL reader (back-slash escapes, doubled quotes) for mysql; standard SQL reader (doubled quotes) otherwise; mindsdb dialect reader for the tree\'s own string',
                       'int/float/bool/NULL in the tree\'s own string: a concrete family over the float formatting boundaries and machine-word boundaries (numbers part); in SQLAlchemy renderings: the typed-constant family; date / datetime / timedelta constants: a concrete boundary family (dates part, and the kind date of the typed-constant family); the literal must read back as str(value), str() of a date as CPython prints it is the reference form',
                       'select-list labels (AS "<value>") are quoted by SQLAlchemy (trusted)',
                       'the postgres fallback path (str(ast).replace("`", "")) is covered by C17, not here']
    ch_obligations(run, HARNESS, specs(), cond_to=150 if tier == 'quick' else 900)
    from harness import c07lib
    ch_obligations(run, gen_typed(), [dict(fn='typed_%d' % i, twin='typed_%d_reach' % i, replay=r_typed(i), name='typed_constants[%s]' % c07lib.DIALECTS[i])
                                      for i in range(len(c07lib.DIALECTS))], cond_to=200 if tier == 'quick' else 600, path_to=60)
    run.bounds['typed_constants'] = {'positions': c07lib.POSITIONS, 'kinds': c07lib.KINDS, 'values_per_kind': {k: [repr(v) for v in vs] for k, vs in c07lib.VALUES.items()}}
    try:
        numbers_part(run)
    except Exception as e:  # noqa
        run.error('numbers part crashed: %r' % e)
    try:
        native_strings_part(run, tier)
    except Exception as e:  # noqa
        run.error('native strings part crashed: %r' % e)
    try:
        dates_part(run)
    except Exception as e:  # noqa
        run.error('dates part crashed: %r' % e)
    try:
        wiring(run)
    except Exception as e:  # noqa
        run.error('wiring check crashed: %r' % e)
    run.finish()


def replay(path):
    r = json.load(open(path))
    print(json.dumps(r, indent=1))
    for s in specs():
        if s.get('name', s['fn']) == r['replay'].get('harness'):
            rep, info, key, what = s['replay'](r['replay']['args'])
            print('native replay now: reproduced=%s %s' % (rep, json.dumps(info, default=repr)))
            return 1 if rep else 0
    return 2
