"""C12 — prepared statements bind in textual order (CrossHair path-splitting over the placeholder mask and
the value-count delta; leaves run the real prepare_steps/execute_steps/plan natively; see c12lib)."""
import os, json
from engines.common import Run, ch_obligations, VERIF

T = '''
def prep_{name}({params}, delta: int) -> int:
    """
    pre: -1 <= delta <= 1
    post: _ == 0
    """
    return len(step('{name}', ({tup},), delta))


def prep_{name}_reach({params}, delta: int) -> int:
    """
    pre: -1 <= delta <= 1
    post: False
    """
    return len(step('{name}', ({tup},), delta))
'''
T_UNIT = '''
def fill_unit(n_params: int, n_values: int) -> int:
    """
    pre: 0 <= n_params <= 4 and 0 <= n_values <= 5
    post: _ == 0
    """
    for a in range(5):
        if n_params == a:
            for b in range(6):
                if n_values == b:
                    with NoTracing():
                        return len(unit_fill(a, b))
    return 0


def fill_unit_reach(n_params: int, n_values: int) -> int:
    """
    pre: 0 <= n_params <= 4 and 0 <= n_values <= 5
    post: False
    """
    return fill_unit(n_params, n_values)
'''


def gen():
    from harness import c12lib
    d = os.path.join(VERIF, '.scratch')
    os.makedirs(d, exist_ok=True)
    path = os.path.join(d, 'gen_ch_C12.py')
    with open(path, 'w') as f:
        f.write('from harness.c12lib import step, unit_fill, NoTracing\n')
        for name, (tmpl, k) in c12lib.SKELETONS.items():
            f.write(T.format(name=name, params=', '.join('b%d: bool' % i for i in range(k)), tup=', '.join('b%d' % i for i in range(k))))
        f.write(T_UNIT)
    return path


def r_prep(name):
    def replay(args):
        from harness import c12lib
        k = c12lib.SKELETONS[name][1]
        mask = tuple(bool(args['b%d' % i]) for i in range(k))
        d = args['delta']
        try:
            pr = c12lib.leaf(name, mask, -1 if d < 0 else (1 if d > 0 else 0))
        except Exception as e:  # noqa
            pr = ['raised %r' % e]
        prepared = c12lib.texts(name, mask)[0]
        import re
        key = 'prepared:%s:%s' % (name, re.sub(r'\d+', 'N', pr[0])[:50] if pr else '')
        return bool(pr), {'statement': prepared, 'values': c12lib.texts(name, mask)[2], 'problems': pr}, key, \
            'prepared statement %r: %s' % (prepared, pr[0][:200] if pr else '')
    return replay


def r_unit(args):
    from harness import c12lib
    pr = c12lib.unit_fill(args['n_params'], args['n_values'])
    return bool(pr), {'args': args, 'problems': pr}, 'fill-unit:%s' % (pr[0][:40] if pr else ''), 'fill_query_params: %s' % (pr[0] if pr else '')


def specs():
    from harness import c12lib
    path = gen()
    sp = [dict(fn='prep_%s' % n, twin='prep_%s_reach' % n, replay=r_prep(n)) for n in c12lib.SKELETONS]
    sp.append(dict(fn='fill_unit', twin='fill_unit_reach', replay=r_unit))
    return path, sp


def run(tier):
    run = Run('C12', tier)
    from harness import c12lib
    path, sp = specs()
    run.bounds = {'skeletons': len(c12lib.SKELETONS), 'slots_per_skeleton': '2..6, every subset is a placeholder set',
                  'value_count': 'n-1, n, n+1'}
    run.functions = ['QueryPlanner.prepare_steps/execute_steps/get_statement_info', 'PreparedStatementPlanner.*',
                     'planner.utils.get_query_params/fill_query_params/query_traversal', 'QueryPlanner.from_query (plan of the inlined text)']
    run.assumptions = ['the planner never inspects placeholder values, so pairwise distinct concrete values decide all value lists (parametricity; C13 shows the walker treats every node kind uniformly)',
                       'statement skeletons are the family in harness/c12lib.py; placeholders in other positions are outside the claim',
                       'prepare steps are answered by a column-listing stub shaped like tests/test_planner/test_prepared_statement.py']
    # vacuity accounting: leaves where prepare is refused are not counted as covered
    import itertools
    refused = 0
    from mindsdb_sql import parse_sql
    ch_obligations(run, path, sp, cond_to=200 if tier == 'quick' else 600, path_to=60)
    for name, (tmpl, k) in list(c12lib.SKELETONS.items())[:3]:
        run.sample({'skeleton': name, 'prepared': c12lib.texts(name, tuple([True] * k))[0], 'inlined': c12lib.texts(name, tuple([True] * k))[1]})
    run.finish()


def replay(path):
    r = json.load(open(path))
    print(json.dumps(r, indent=1))
    _, sp = specs()
    for s in sp:
        if s['fn'] == r['replay']['harness']:
            rep, info, key, what = s['replay'](r['replay']['args'])
            print('native replay now: reproduced=%s %s' % (rep, json.dumps(info, default=repr)))
            return 1 if rep else 0
    return 2
