"""C06, DDL part: CREATE TABLE / DROP TABLE rendered through SQLAlchemy has the same effect as the parsed statement.

The effect of CREATE TABLE is the schema it creates.  Both sides are turned into a schema model - from the TREE (the statement the user wrote)
and from the RENDERED TEXT (read by an independent reader of the target's CREATE TABLE syntax, not by the repo's parser) - and z3 decides whether
some row exists that one table accepts and the other refuses, or that gets another default value: per column a symbolic (is NULL, length of the
value, given / omitted); NOT NULL, PRIMARY KEY (not null) and a declared length are the constraints; declared type families, column names and order,
the table name, IF NOT EXISTS / IF EXISTS are compared structurally (they decide what happens when the table is / is not there: the pre-state is the
second symbolic variable).  Counterexamples are replayed by rendering again natively and, where sqlite3 can tell the difference (existence, NOT NULL,
PRIMARY KEY, defaults), by running both texts on sqlite3."""
import re
import itertools
import z3

DIALECTS = ['sqlite', 'mysql', 'postgresql']

TYPES = ['int', 'integer', 'bigint', 'int8', 'float', 'text', 'varchar(10)', 'char(3)', 'decimal(10)', 'bool', 'date', 'datetime', 'timestamp', 'serial']
MODS = ['', ' NULL', ' NOT NULL', ' DEFAULT dflt', ' PRIMARY KEY', ' DEFAULT dflt NOT NULL']
FAMILY = {'int': 'int', 'integer': 'int', 'bigint': 'int', 'int8': 'int', 'serial': 'int', 'smallint': 'int', 'bigserial': 'int',
          'float': 'float', 'double': 'float', 'real': 'float', 'decimal': 'decimal', 'numeric': 'decimal',
          'text': 'str', 'varchar': 'str', 'char': 'str', 'string': 'str', 'clob': 'str',
          'bool': 'bool', 'boolean': 'bool', 'date': 'date', 'datetime': 'datetime', 'timestamp': 'datetime', 'json': 'json'}


def family():
    out = []
    for ty, mod in itertools.product(TYPES, MODS):
        if 'DEFAULT' in mod and '(' in ty:
            mod2 = mod        # grammar: id id ( n ) DEFAULT id
        else:
            mod2 = mod
        out.append('CREATE TABLE t (c1 %s%s, c2 int)' % (ty, mod2))
    out += ['CREATE TABLE t (a int, b text, PRIMARY KEY(a))', 'CREATE TABLE t (a int, b int, c text, PRIMARY KEY(a, b))', 'CREATE TABLE t (b text, a int NOT NULL, PRIMARY KEY(a))',
            'CREATE TABLE IF NOT EXISTS t (a int, b text)', 'CREATE TABLE IF NOT EXISTS t (a int PRIMARY KEY, b varchar(5) NOT NULL)',
            'CREATE TABLE int1.t (a int, b text)', 'CREATE TABLE `my t` (`a b` int, `select` text)', 'CREATE TABLE t (a serial, b int8 DEFAULT dflt, c bool NULL)',
            'CREATE TABLE t (a char(3), b char(3) NOT NULL, c varchar(10) DEFAULT dflt, d decimal(10) NULL)', 'CREATE OR REPLACE TABLE t (a int)',
            'DROP TABLE t', 'DROP TABLE IF EXISTS t', 'DROP TABLE int1.t', 'DROP TABLE IF EXISTS int1.t', 'DROP TABLE `my t`']
    return out


# ---- schema models --------------------------------------------------------------------------------------------

def schema_of_tree(ast):
    from mindsdb_sql.parser import ast as A
    if isinstance(ast, A.DropTables):
        return {'kind': 'drop', 'tables': [[str(p) for p in t.parts] for t in ast.tables], 'if_exists': bool(ast.if_exists)}
    cols = []
    for c in ast.columns:
        ty = str(c.type).lower()
        pk = bool(c.is_primary_key) or ty == 'serial'
        cols.append({'name': str(c.name), 'family': FAMILY.get(ty, ty), 'length': (int(c.length) if c.length is not None else None),
                     'notnull': (c.nullable is False) or pk, 'default': (str(c.default) if c.default is not None else None), 'pk': pk})
    return {'kind': 'create', 'table': [str(p) for p in ast.name.parts], 'if_not_exists': bool(ast.if_not_exists), 'replace': bool(ast.is_replace), 'columns': cols}


def _unq(s):
    s = s.strip()
    if len(s) >= 2 and s[0] in '"`[' and s[-1] in '"`]':
        return s[1:-1]
    return s


def _split_top(s, sep=','):
    out, depth, cur, q = [], 0, '', None
    for ch in s:
        if q:
            cur += ch
            if ch == q:
                q = None
            continue
        if ch in '"`\'':
            q = ch
            cur += ch
        elif ch == '(':
            depth += 1
            cur += ch
        elif ch == ')':
            depth -= 1
            cur += ch
        elif ch == sep and depth == 0:
            out.append(cur)
            cur = ''
        else:
            cur += ch
    if cur.strip():
        out.append(cur)
    return out


NAME = r'(?:"[^"]*"|`[^`]*`|\[[^\]]*\]|[A-Za-z_][A-Za-z_0-9$]*)'


def schema_of_text(text):
    """independent reader of rendered DDL text (CREATE TABLE [IF NOT EXISTS] name (items) / DROP TABLE [IF EXISTS] name)"""
    t = ' '.join(text.split())
    m = re.match(r'^DROP TABLE (IF EXISTS )?(%s(?:\.%s)*)$' % (NAME, NAME), t, re.I)
    if m:
        return {'kind': 'drop', 'tables': [[_unq(p) for p in _split_top(m.group(2), '.')]], 'if_exists': bool(m.group(1))}
    m = re.match(r'^CREATE (OR REPLACE )?TABLE (IF NOT EXISTS )?(%s(?:\.%s)*) \((.*)\)$' % (NAME, NAME), t, re.I)
    if not m:
        raise ValueError('not a CREATE TABLE / DROP TABLE text: %r' % t)
    cols, pks = [], []
    for item in _split_top(m.group(4)):
        item = item.strip()
        mp_ = re.match(r'^PRIMARY KEY \((.*)\)$', item, re.I)
        if mp_:
            pks += [_unq(x) for x in _split_top(mp_.group(1))]
            continue
        mc = re.match(r'^(%s) ([A-Za-z_][A-Za-z_0-9]*(?: WITHOUT TIME ZONE| WITH TIME ZONE| PRECISION)?)(?:\((\d+)(?:, ?\d+)?\))?(.*)$' % NAME, item, re.I)
        if not mc:
            raise ValueError('column item not understood: %r' % item)
        rest = mc.group(4)
        ty = mc.group(2).lower().split()[0]
        md = re.search(r'\bDEFAULT (\S+)', rest, re.I)
        cols.append({'name': _unq(mc.group(1)), 'family': FAMILY.get(ty, ty), 'length': int(mc.group(3)) if mc.group(3) else None,
                     'notnull': bool(re.search(r'\bNOT NULL\b', rest, re.I)), 'default': md.group(1) if md else None,
                     'pk': bool(re.search(r'\bPRIMARY KEY\b', rest, re.I)), 'serial_type': ty in ('serial', 'bigserial') or bool(re.search(r'AUTO_INCREMENT|AUTOINCREMENT', rest, re.I))})
    for c in cols:
        if c['name'] in pks:
            c['pk'] = True
        if c['pk']:
            c['notnull'] = True
    return {'kind': 'create', 'table': [_unq(p) for p in _split_top(m.group(3), '.')], 'if_not_exists': bool(m.group(2)), 'replace': bool(m.group(1)), 'columns': cols}


# ---- z3: a row / a pre-state on which the two statements behave differently -------------------------------------

def effective_length(col):
    """characters a value may have: the declared length; CHAR without a length is CHAR(1) (SQL standard, MySQL, PostgreSQL); otherwise unbounded"""
    if col['family'] == 'str' and col.get('raw_char_without_length'):
        return 1
    return col['length']


def differ(a, b):
    """-> (status, problems, witness)"""
    problems = []
    if a['kind'] != b['kind']:
        return 'counterexample', ['statement kind %s rendered as %s' % (a['kind'], b['kind'])], None
    s = z3.Solver()
    exists = z3.Bool('table_exists_before')
    if a['kind'] == 'drop':
        if a['tables'] != b['tables']:
            problems.append('drops %s, the statement names %s' % (b['tables'], a['tables']))
        # effect on the pre-state: without IF EXISTS a missing table is an error
        fails_a = z3.And(z3.Not(exists), z3.BoolVal(not a['if_exists']))
        fails_b = z3.And(z3.Not(exists), z3.BoolVal(not b['if_exists']))
        s.add(fails_a != fails_b)
        if str(s.check()) == 'sat':
            problems.append('IF EXISTS %s in the statement, %s in the rendered text: differs when the table does not exist' % (a['if_exists'], b['if_exists']))
            return 'counterexample', problems, {'table_exists_before': False}
        return ('counterexample' if problems else 'discharged'), problems, None
    if a['table'] != b['table']:
        problems.append('creates table %s, the statement names %s' % (b['table'], a['table']))
    if [c['name'] for c in a['columns']] != [c['name'] for c in b['columns']]:
        problems.append('columns %s, the statement has %s' % ([c['name'] for c in b['columns']], [c['name'] for c in a['columns']]))
        return 'counterexample', problems, None
    # pre-state: an existing table makes CREATE TABLE fail unless IF NOT EXISTS (no-op) / OR REPLACE (replaced)
    def outcome(sch):
        return z3.If(exists, z3.IntVal(1 if sch['if_not_exists'] else (2 if sch['replace'] else 0)), z3.IntVal(3))     # 0 error, 1 no-op, 2 replaced, 3 created
    alts = [outcome(a) != outcome(b)]
    wit_cols = []
    for ca, cb in zip(a['columns'], b['columns']):
        isnull, ln, given = z3.Bool('null_' + ca['name']), z3.Int('len_' + ca['name']), z3.Bool('given_' + ca['name'])
        s.add(ln >= 0)
        wit_cols.append((ca['name'], isnull, ln, given))

        def accepts(c):
            cs = []
            # an omitted column takes its default (NULL without one)
            null_now = z3.If(given, isnull, z3.BoolVal(c['default'] is None and not c.get('serial_type') and not (c['pk'] and c['family'] == 'int')))
            if c['notnull']:
                cs.append(z3.Not(null_now))
            L = c['length']
            if L is not None and c['family'] in ('str',):
                cs.append(z3.Or(z3.Not(given), isnull, ln <= L))
            return z3.And(cs) if cs else z3.BoolVal(True)
        alts.append(accepts(ca) != accepts(cb))
        if ca['family'] != cb['family']:
            problems.append('column %s: type family %s rendered as %s' % (ca['name'], ca['family'], cb['family']))
        if ca['family'] in ('decimal', 'float') and ca['length'] != cb['length'] and ca['length'] is not None:
            problems.append('column %s: precision %s rendered as %s' % (ca['name'], ca['length'], cb['length']))
        if (ca['default'] or None) != (cb['default'] or None):
            problems.append('column %s: default %r rendered as %r' % (ca['name'], ca['default'], cb['default']))
        if ca['pk'] != cb['pk']:
            problems.append('column %s: primary key %s rendered as %s' % (ca['name'], ca['pk'], cb['pk']))
    s.add(z3.Or(alts))
    r = str(s.check())
    if r == 'sat':
        m = s.model()
        w = {'table_exists_before': z3.is_true(m.eval(exists, model_completion=True)),
             'row': {n: {'given': z3.is_true(m.eval(g, model_completion=True)), 'is_null': z3.is_true(m.eval(nl, model_completion=True)), 'length': m.eval(l, model_completion=True).as_long()}
                     for n, nl, l, g in wit_cols}}
        problems.append('a pre-state / row exists on which the created tables behave differently: %s' % w)
        return 'counterexample', problems, w
    if r != 'unsat':
        return 'inconclusive', problems + ['solver said %s' % r], None
    return ('counterexample' if problems else 'discharged'), problems, None


def check_member(sql, dialect):
    from mindsdb_sql import parse_sql
    from mindsdb_sql.render.sqlalchemy_render import SqlalchemyRender
    from sqlalchemy.exc import SQLAlchemyError
    ast = parse_sql(sql, 'mindsdb')
    try:
        text = SqlalchemyRender(dialect).get_string(ast, with_failback=False)
    except (SQLAlchemyError, NotImplementedError) as e:
        return {'status': 'not-rendered', 'reason': '%s: %s' % (type(e).__name__, str(e)[:80])}
    a = schema_of_tree(ast)
    try:
        b = schema_of_text(text)
    except ValueError as e:
        return {'status': 'inconclusive', 'reason': str(e), 'rendered': text}
    # CHAR written without its length means one character on the targets
    if b['kind'] == 'create':
        for ca, cb in zip(a['columns'], b['columns']):
            if cb['family'] == 'str' and cb['length'] is None and re.search(r'\b%s["`]? CHAR\b(?!\()' % re.escape(cb['name']), ' '.join(text.split()), re.I):
                cb['length'] = 1
    st, problems, w = differ(a, b)
    return {'status': st, 'problems': problems, 'witness': w, 'rendered': ' '.join(text.split()), 'tree_schema': a, 'text_schema': b}


def sqlite_effect(text, exists_before):
    """what running the text on sqlite3 does: ('error' | schema rows from PRAGMA table_info | 'dropped')"""
    import sqlite3
    con = sqlite3.connect(':memory:')
    con.execute("ATTACH DATABASE ':memory:' AS int1")
    names = re.findall(r'TABLE (?:IF (?:NOT )?EXISTS )?((?:int1\.)?(?:"[^"]*"|`[^`]*`|\w+))', ' '.join(text.split()), re.I)
    tname = names[0] if names else 't'
    if exists_before:
        con.execute('CREATE TABLE %s (zz int)' % tname)
    try:
        con.execute(text)
    except Exception as e:  # noqa
        return 'error: %s' % str(e)[:60]
    bare = tname.split('.')[-1].strip('"`')
    sch = 'int1.' if tname.lower().startswith('int1.') else ''
    rows = con.execute('PRAGMA %stable_info("%s")' % (sch, bare)).fetchall()
    return [(r[1], r[3], r[4], r[5]) for r in rows] or 'no such table'


def replay_member(sql, dialect, witness=None):
    """native replay: render again, read again; where sqlite3 can tell (existence, NOT NULL, PRIMARY KEY, default) run both texts on it"""
    r = check_member(sql, dialect)
    info = {'sql': sql, 'dialect': dialect, 'rendered': r.get('rendered'), 'problems': r.get('problems')}
    if r['status'] != 'counterexample':
        return False, info
    if dialect == 'sqlite' and 'OR REPLACE' not in sql.upper():
        for ex in (False, True):
            try:
                eo, er = sqlite_effect(sql, ex), sqlite_effect(r['rendered'], ex)
            except Exception as e:  # noqa
                info['sqlite'] = 'replay failed: %r' % e
                break
            info['sqlite_table_exists_before=%s' % ex] = {'original': eo, 'rendered': er}
    return True, info
