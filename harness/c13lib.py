"""C13 per-node-kind induction step: build one node of a given class whose child slots hold fresh leaf
markers (presence of optional slots, list lengths and the replaced index are the symbolic inputs), run the
REAL query_traversal with a recording visitor and compare with the spec:
  * visitor called once for the node, once per marker, once per nested query (then once for its marker)
  * order of markers == order of their names in the node's own to_string()   (textual order)
  * is_table exactly on table slots, is_target exactly on select-list items
  * returning a replacement for the rep-th visited marker changes exactly that slot
Slot inventory (which attributes are child slots, which are table/target positions) is the table below,
written from the property text; `inventory_gaps` checks it against reflection on vars(node).
"""
import re
from mindsdb_sql.parser import ast as A
from mindsdb_sql.parser.ast.base import ASTNode
from mindsdb_sql.planner.utils import query_traversal

MARK = re.compile(r'\b([mtq])(\d+)\b')


class Ctx:
    def __init__(self, mask, n1, n2, dup=False):
        self.dup = dup
        self.objs = {}       # id(marker object) -> unique marker name
        self.mask, self.ns, self.k, self.bit, self.ni = mask, (n1, n2), 0, 0, 0
        self.flags = {}      # marker name -> 'table' | 'target' | None
        self.queries = []    # nested Select objects in creation order

    def opt(self):
        if isinstance(self.mask, tuple):
            b = self.mask[self.bit] if self.bit < len(self.mask) else False
            self.bit += 1
            return b
        b = (self.mask >> self.bit) & 1
        self.bit += 1
        return b == 1

    def n(self, lo=0):
        v = self.ns[self.ni % 2]
        self.ni += 1
        return max(lo, v)

    def _new(self, prefix, flag):
        name = '%s%d' % (prefix, self.k)
        self.k += 1
        self.flags[name] = flag
        return name

    def e(self, flag=None):
        name = self._new('m', flag)
        # dup mode: every expression marker prints the same text (structurally equal siblings); identity tells them apart
        node = A.Identifier(parts=['dd' if self.dup else name])
        self.objs[id(node)] = name
        return node

    def t(self):
        name = self._new('t', 'table')
        node = A.Identifier(parts=[name])
        self.objs[id(node)] = name
        return node

    def q(self):
        name = self._new('q', 'target')
        inner = A.Identifier(parts=[name])
        self.objs[id(inner)] = name
        s = A.Select(targets=[inner])
        self.queries.append(s)
        return s

    def es(self, lo=0, flag=None):
        return [self.e(flag) for _ in range(self.n(lo))]


def b_select(c):
    kw = {}
    if c.opt():
        kw['cte'] = [A.CommonTableExpression(name=A.Identifier(parts=['c%d' % i]), query=c.q()) for i in range(c.n(1))]
    targets = c.es(1, 'target')
    if c.opt():
        kw['from_table'] = c.t()
        if c.opt():
            kw['where'] = c.e()
        if c.opt():
            kw['group_by'] = c.es(1)
        if c.opt():
            kw['having'] = c.e()
        if c.opt():
            kw['order_by'] = [A.OrderBy(field=c.e()) for _ in range(c.n(1))]
    return A.Select(targets=targets, **kw)


def b_setop(cls):
    return lambda c: cls(left=c.q(), right=c.q())


def b_join(c):
    left, right = c.t(), c.t()
    return A.Join(join_type='inner join', left=left, right=right, condition=c.e() if c.opt() else None)


def b_function(c):
    args = c.es(0)
    return A.Function(op='fn', args=args, from_arg=c.e() if c.opt() else None)


def b_window(c):
    f = A.Function(op='fn', args=c.es(0))
    return A.WindowFunction(function=f, partition=c.es(1) if c.opt() else None,
                            order_by=[A.OrderBy(field=c.e()) for _ in range(c.n(1))] if c.opt() else None)


def b_case(c):
    arg = c.e() if c.opt() else None
    rules = [[c.e(), c.e()] for _ in range(c.n(1))]
    return A.Case(rules=rules, default=c.e() if c.opt() else None, arg=arg)


def b_insert(c):
    table = c.t()
    if c.opt():
        return A.Insert(table=table, from_select=c.q())
    rows = [[c.e() for _ in range(max(1, c.ns[0]))] for _ in range(max(1, c.ns[1]))]
    return A.Insert(table=table, values=rows)


def b_update(c):
    table = c.t()
    cols = {'c%d' % i: c.e() for i in range(c.n(1))}
    kw = {}
    if c.opt():
        kw['from_select'] = c.q()
        kw['from_select_alias'] = A.Identifier(parts=['fa'])
    return A.Update(table=table, update_columns=cols, where=c.e() if c.opt() else None, **kw)


def b_delete(c):
    return A.Delete(table=c.t(), where=c.e() if c.opt() else None)


def b_create_table(c):
    name = c.t()
    return A.CreateTable(name=name, from_select=c.q())


BUILDERS = {
    'Select': b_select,
    'Union': b_setop(A.Union), 'Except': b_setop(A.Except), 'Intersect': b_setop(A.Intersect),
    'Join': b_join,
    'BinaryOperation': lambda c: A.BinaryOperation(op='+', args=[c.e(), c.e()]),
    'UnaryOperation': lambda c: A.UnaryOperation(op='-', args=[c.e()]),
    'BetweenOperation': lambda c: A.BetweenOperation(args=[c.e(), c.e(), c.e()]),
    'Function': b_function,
    'WindowFunction': b_window,
    'TypeCast': lambda c: A.TypeCast(type_name='int', arg=c.e()),
    'Tuple': lambda c: A.Tuple(items=c.es(0)),
    'Exists': lambda c: A.Exists(c.q()),
    'NotExists': lambda c: A.NotExists(c.q()),
    'OrderBy': lambda c: A.OrderBy(field=c.e()),
    'Case': b_case,
    'Insert': b_insert,
    'Update': b_update,
    'Delete': b_delete,
    'CreateTable': b_create_table,
}

# node classes without expression / table / query children (leaves, commands carrying only names/options)
LEAF_OK = {'Constant', 'NullConstant', 'Last', 'Star', 'Identifier', 'Parameter', 'Variable', 'Latest',
           'NativeQuery', 'Data', 'Interval', 'Object', 'CommonTableExpression', 'Operation'}


def step(cls_name, mask, n1, n2, rep):
    """returns a list of problems (empty = the induction step holds for this input)"""
    c = Ctx(mask, n1, n2)
    node = BUILDERS[cls_name](c)
    text0 = node.to_string()
    expected_order = [m.group(0) for m in MARK.finditer(text0)]
    problems = []
    if sorted(expected_order) != sorted(c.flags):
        problems.append('spec: to_string() does not show every marker exactly once: %s vs %s' % (expected_order, sorted(c.flags)))
        return problems
    visits = []     # (kind, name, is_table, is_target)
    state = {'seen': 0, 'replaced': None}
    qids = {id(q): i for i, q in enumerate(c.queries)}

    def cb(n, is_table=False, is_target=False, **kw):
        if n is node:
            visits.append(('self', None, is_table, is_target))
            return None
        if n is None:
            visits.append(('none', None, is_table, is_target))
            return None
        idx = state['seen']
        state['seen'] += 1
        if id(n) in qids:
            visits.append(('query', qids[id(n)], is_table, is_target))
            if idx == rep:
                state['replaced'] = (n.to_string(), 'SELECT R', 'query')
                return A.Select(targets=[A.Identifier(parts=['R'])])
            return None
        if isinstance(n, A.Identifier) and len(n.parts) == 1 and isinstance(n.parts[0], str) and MARK.fullmatch(n.parts[0]):
            visits.append(('leaf', n.parts[0], is_table, is_target))
            if idx == rep:
                state['replaced'] = (n.parts[0], 'R', 'leaf')
                return A.Identifier(parts=['R'])
            return None
        visits.append(('other', type(n).__name__, is_table, is_target))
        if idx == rep:
            state['replaced'] = (n.to_string(), 'R', 'other')
            return A.Identifier(parts=['R'])
        return None

    query_traversal(node, cb)
    if [v for v in visits if v[0] == 'self'] != [('self', None, False, False)]:
        problems.append('node itself visited %d times' % len([v for v in visits if v[0] == 'self']))
    if [v for v in visits if v[0] == 'none']:
        problems.append('visitor called with None (an absent optional child)')
    leaves = [v for v in visits if v[0] == 'leaf']
    names = [v[1] for v in leaves]
    exempt = set()
    if state['replaced'] is not None and state['replaced'][2] != 'leaf':
        # a replaced inner node is not descended into: the markers below it are legitimately unvisited
        exempt = set(m.group(0) for m in MARK.finditer(state['replaced'][0]))
    expected_order = [x for x in expected_order if x not in exempt]
    for name in c.flags:
        if name in exempt:
            continue
        k = names.count(name)
        if k != 1:
            problems.append('marker %s (%s) visited %d times' % (name, c.flags[name] or 'expr', k))
    if len(set(names)) == len(names) and sorted(names) == sorted(expected_order) and names != expected_order:
        problems.append('visit order %s differs from textual order %s' % (names, expected_order))
    for _, name, it, ig in leaves:
        want = c.flags.get(name)
        if it != (want == 'table'):
            problems.append('marker %s: is_table=%s but slot kind is %s' % (name, it, want or 'expr'))
        if ig != (want == 'target'):
            problems.append('marker %s: is_target=%s but slot kind is %s' % (name, ig, want or 'expr'))
    for i, _q in enumerate(c.queries):
        k = len([v for v in visits if v[0] == 'query' and v[1] == i])
        if k != 1:
            problems.append('nested query #%d visited %d times' % (i, k))
    # replacement
    if state['replaced'] is not None:
        old_text, new_text, _kind = state['replaced']
        want_text = text0.replace(old_text, new_text, 1)
        got = node.to_string()
        if got != want_text:
            problems.append('replacing %s: tree prints %r, expected %r' % (old_text, got, want_text))
    else:
        if node.to_string() != text0:
            problems.append('traversal without replacement changed the tree')
    return problems


def classify(problems):
    """stable key of a failure (call site): class of the first problem"""
    if not problems:
        return None
    p = problems[0]
    p = re.sub(r'[mtq]\d+', 'X', p)
    p = re.sub(r'\[.*', '', p)
    p = re.sub(r"prints .*", 'prints wrong text', p)
    return p.strip()[:80]


def inventory_gaps():
    """reflection: ASTNode subclasses (importable from the ast package and the mindsdb dialect modules) that are
    neither in BUILDERS nor declared leaf/command classes and hold node-valued attributes; and builder classes whose
    fully-populated instance holds a node-valued attribute that contains no marker."""
    import inspect, pkgutil, importlib
    import mindsdb_sql.parser.dialects.mindsdb as M
    gaps = []
    for cls_name, b in BUILDERS.items():
        c = Ctx(0xFFFF, 2, 2)
        node = b(c)
        for attr, v in vars(node).items():
            if attr in ('alias', 'from_select_alias'):
                continue
            vals = v if isinstance(v, (list, tuple)) else (list(v.values()) if isinstance(v, dict) else [v])
            flat = []
            for x in vals:
                flat.extend(x if isinstance(x, (list, tuple)) else [x])
            for x in flat:
                if isinstance(x, ASTNode) and not MARK.search(x.to_string()):
                    gaps.append('%s.%s holds a node without marker' % (cls_name, attr))
    return gaps


# ---- identity-based step with structurally EQUAL sibling markers ------------------------------------------------

def _paths(root, objs):
    """{marker name: path} where path is a tuple of attribute names / indexes / dict keys leading from root to the marker"""
    out = {}

    def walk(o, path, depth):
        if depth > 8:
            return
        if isinstance(o, ASTNode):
            if id(o) in objs and path:
                out[objs[id(o)]] = path
                return
            for k, v in vars(o).items():
                if k in ('alias',):
                    continue
                walk(v, path + (('attr', k),), depth + 1)
        elif isinstance(o, (list, tuple)):
            for i, x in enumerate(o):
                walk(x, path + (('idx', i),), depth + 1)
        elif isinstance(o, dict):
            for k, x in o.items():
                walk(x, path + (('key', k),), depth + 1)
    walk(root, (), 0)
    return out


def _resolve(root, path):
    o = root
    for kind, k in path:
        if kind == 'attr':
            o = getattr(o, k)
        else:
            o = o[k]
    return o


# nodes a visitor may return: the walker must put ANY returned node into the visited slot (empty containers, zero / NULL constants, stars)
REPL_KINDS = [lambda: A.Identifier(parts=['R']), lambda: A.Tuple(items=[]), lambda: A.Constant(0), lambda: A.NullConstant(), lambda: A.Star(),
              lambda: A.Constant(''), lambda: A.Function(op='r', args=[])]


def step_dup(cls_name, mask, n1, n2, rep, rk=0):
    """like step(), but all expression markers print the same text, so siblings are structurally equal; visits and the
    effect of a replacement are judged by object identity and by slot paths; rk chooses the kind of node the visitor returns"""
    c0 = Ctx(mask, n1, n2)
    ref = BUILDERS[cls_name](c0)
    order0 = [m.group(0) for m in MARK.finditer(ref.to_string())]
    c = Ctx(mask, n1, n2, dup=True)
    node = BUILDERS[cls_name](c)
    paths = _paths(node, c.objs)
    originals = {name: _resolve(node, p) for name, p in paths.items()}
    problems = []
    if sorted(paths) != sorted(c.flags):
        return ['spec: slot paths do not cover every marker: %s vs %s' % (sorted(paths), sorted(c.flags))]
    visited = []
    state = {'seen': 0, 'replaced': None}
    repl = REPL_KINDS[rk]()

    def cb(n, is_table=False, is_target=False, **kw):
        if id(n) in c.objs:
            name = c.objs[id(n)]
            visited.append(name)
            idx = state['seen']
            state['seen'] += 1
            if idx == rep:
                state['replaced'] = name
                return repl
        return None
    query_traversal(node, cb)
    for name in c.flags:
        k = visited.count(name)
        if k != 1:
            problems.append('marker %s visited %d times (equal siblings)' % (name, k))
    if not problems and visited != order0:
        problems.append('visit order %s differs from textual order %s (equal siblings)' % (visited, order0))
    for name, p in paths.items():
        try:
            now = _resolve(node, p)
        except Exception as e:  # noqa
            problems.append('slot of %s disappeared: %r' % (name, e))
            continue
        if name == state['replaced']:
            if now is not repl:
                problems.append('replacement returned for %s is not in its slot (slot holds %s) (equal siblings)' % (name, c.objs.get(id(now), type(now).__name__)))
        elif now is not originals[name]:
            problems.append('slot of %s was changed although another node was replaced (equal siblings)' % name)
    return problems


# ---- leaves: node kinds without node children are visited once, as themselves, and nothing inside them is walked ---------------------------
def leaf_instances():
    import datetime as dt
    out = {'Constant': [A.Constant(1), A.Constant('s'), A.Constant(None), A.Constant(dt.date(2020, 1, 2))], 'NullConstant': [A.NullConstant()], 'Last': [A.Last()], 'Star': [A.Star()],
           'Identifier': [A.Identifier(parts=['a', 'b']), A.Identifier(parts=['t', A.Star()])], 'Parameter': [A.Parameter('?')], 'Latest': [A.Latest()],
           'Interval': [A.Interval('2 day'), A.Interval('3 month'), A.Interval('x')], 'Variable': [A.Variable('v'), A.Variable('s', is_system_var=True)]}
    for name, mk in (('Data', lambda: A.Data([{'a': 1}, {'a': 2}])), ('NativeQuery', lambda: A.NativeQuery(integration=A.Identifier('int1'), query='select 1')),
                     ('Object', lambda: A.Object('T', {'a': 1}))):
        try:
            out[name] = [mk()]
        except Exception:  # noqa
            pass
    return out


def leaf_steps():
    """-> (number of walks, problems): each leaf instance in four parent positions (operand, function argument, tuple item, select-list item)"""
    from mindsdb_sql.planner.utils import query_traversal
    from mindsdb_sql.parser.ast.base import ASTNode
    problems, n = [], 0
    for cls, insts in sorted(leaf_instances().items()):
        for leaf in insts:
            for pname, mk in (('operand', lambda x: A.BinaryOperation('=', args=[A.Identifier('m0'), x])), ('function-argument', lambda x: A.Function('f', args=[x, A.Identifier('m0')])),
                              ('tuple-item', lambda x: A.Tuple([x, A.Identifier('m0')])), ('select-list', lambda x: A.Select(targets=[x, A.Identifier('m0')], from_table=A.Identifier('t0')))):
                import copy as _cp
                lf = _cp.deepcopy(leaf)
                try:
                    root = mk(lf)
                except Exception:  # noqa
                    continue
                if isinstance(lf, (A.Data, A.NativeQuery)) and pname != 'select-list':
                    continue
                seen = []

                def cb(node, **kw):
                    seen.append(node)
                n += 1
                try:
                    query_traversal(root, cb)
                except Exception as e:  # noqa
                    problems.append('%s as %s: the walk raises %s' % (cls, pname, type(e).__name__))
                    continue
                non_nodes = [x for x in seen if not isinstance(x, ASTNode)]
                if non_nodes:
                    problems.append('%s as %s: the visitor is called with %r, which is not a node of the statement' % (cls, pname, non_nodes[0]))
                k = sum(1 for x in seen if x is lf)
                if k != 1:
                    problems.append('%s as %s: visited %d times' % (cls, pname, k))
                inner = [x for x in seen if isinstance(x, ASTNode) and x is not lf and x is not root and not (isinstance(x, A.Identifier) and x.parts in (['m0'], ['t0']))]
                if inner and not isinstance(lf, A.Identifier):
                    problems.append('%s as %s: something inside the leaf is visited: %r' % (cls, pname, inner[0]))
    return n, problems
