"""CrossHair harness for C19 (location part): the real ErrorHandling.error_location / MindsDBLexer.error on
symbolic token geometry (integers)."""
from sly.lex import Token, LexError
from crosshair.tracers import NoTracing
from mindsdb_sql import ErrorHandling
from mindsdb_sql.parser.dialects.mindsdb.lexer import MindsDBLexer

# token texts as written in the source; the lexer decodes variables and strings, so their token VALUE is shorter than the text
WORDS = ['a', '@bb', "'c''d'"]
DECODED = {'@bb': 'bb', "'c''d'": "'c'd'"}
try:
    from mindsdb_sql.parser.dialects.mindsdb.lexer import Lexeme as _Lexeme
except ImportError:          # a tree without Lexeme: values are plain strings
    _Lexeme = None


def _mk(value, lineno, index):
    t = Token()
    t.type, t.lineno, t.index, t.end = 'ID', lineno, index, index + len(value)
    if value in DECODED and _Lexeme is not None:
        t.value = _Lexeme(DECODED[value], raw=value)     # what the real lexer action produces
    else:
        t.value = value
    return t


def _src(tok):
    return getattr(tok.value, 'raw', None) or str(tok.value)


def _layout(l1, l2, l3, g0, g1, g2, b1, b2, lead_nl):
    """three tokens; g* = spaces before each token, b* = number of line breaks before token 2 / 3,
    lead_nl = blank lines before the first token.  Returns (tokens, source text)."""
    vals = [WORDS[l1], WORDS[l2], WORDS[l3]]
    text = '\n' * lead_nl + ' ' * g0
    line = 1 + lead_nl
    toks = []
    toks.append(_mk(vals[0], line, len(text)))
    text += vals[0]
    text += '\n' * b1 + ' ' * g1
    line += b1
    toks.append(_mk(vals[1], line, len(text)))
    text += vals[1]
    text += '\n' * b2 + ' ' * g2
    line += b2
    toks.append(_mk(vals[2], line, len(text)))
    text += vals[2]
    return toks, text


def _ci(n, hi):
    for v in range(hi + 1):
        if n == v:
            return v
    return hi


def location(l1, l2, l3, g0, g1, g2, b1, b2, lead_nl, bad):
    # no PEP316 contract here on purpose: CrossHair may short-circuit calls to contracted functions
    l1, l2, l3 = _ci(l1, 2), _ci(l2, 2), _ci(l3, 2)
    g0, g1, g2, b1, b2, lead_nl, bad = _ci(g0, 2), _ci(g1, 2), _ci(g2, 2), _ci(b1, 2), _ci(b2, 2), _ci(lead_nl, 1), _ci(bad + 1, 3) - 1
    with NoTracing():
        return location_leaf(l1, l2, l3, g0, g1, g2, b1, b2, lead_nl, bad) and lines_leaf(l1, l2, l3, g0, g1, g2, b1, b2, lead_nl, bad)


def location_leaf(l1, l2, l3, g0, g1, g2, b1, b2, lead_nl, bad):
    toks, text = _layout(l1, l2, l3, g0, g1, g2, b1, b2, lead_nl)
    eh = ErrorHandling(None, None)
    eh.tokens = toks
    eh.bad_token = toks[bad] if bad >= 0 else None
    eh.expected_tokens = []
    msgs = eh.error_location()
    caret = msgs[len(msgs) - 1]
    shown = msgs[len(msgs) - 2]
    if shown[0] != '>':
        return False
    n_dash = 0
    while n_dash < len(caret) and caret[n_dash] == '-':
        n_dash += 1
    n_hat = len(caret) - n_dash
    if n_dash < 1 or caret[n_dash:] != '^' * n_hat:
        return False
    if bad >= 0:
        # the characters of the displayed line under the carets are exactly the bad token's text
        return shown[n_dash:n_dash + n_hat] == _src(toks[bad])
    # end of input: one caret just after the last token
    return n_hat == 1 and n_dash == len(shown) and shown.endswith(_src(toks[2]))


def location_reach(l1: int, l2: int, l3: int, g0: int, g1: int, g2: int, b1: int, b2: int, lead_nl: int, bad: int) -> bool:
    """
    pre: 0 <= l1 <= 2 and 0 <= l2 <= 2 and 0 <= l3 <= 2
    pre: 0 <= g0 <= 2 and 0 <= g1 <= 2 and 0 <= g2 <= 2
    pre: 0 <= b1 <= 2 and 0 <= b2 <= 2 and 0 <= lead_nl <= 1
    pre: g1 + b1 > 0 and g2 + b2 > 0
    pre: -1 <= bad <= 2
    post: False
    """
    return location(l1, l2, l3, g0, g1, g2, b1, b2, lead_nl, bad)


def lines_leaf(l1, l2, l3, g0, g1, g2, b1, b2, lead_nl, bad):
    # every displayed source line, stripped, is a source line (stripped) containing tokens; the last one holds the bad token
    if bad < 0:
        return True
    toks, text = _layout(l1, l2, l3, g0, g1, g2, b1, b2, lead_nl)
    eh = ErrorHandling(None, None)
    eh.tokens = toks
    eh.bad_token = toks[bad]
    eh.expected_tokens = []
    msgs = eh.error_location()
    src_lines = [ln.strip() for ln in text.split('\n') if ln.strip() != '']
    shown = [m[1:].strip() for m in msgs[1:len(msgs) - 1]]
    if len(shown) < 1 or len(shown) > 3:
        return False
    for s in shown:
        if s not in src_lines:
            return False
    return _src(toks[bad]) in shown[len(shown) - 1].split(' ')


def lexer_error(pre_len: int, nl_at: int, post_len: int) -> bool:
    """
    pre: 0 <= pre_len <= 4 and 0 <= post_len <= 3
    pre: -1 <= nl_at < pre_len
    post: _
    """
    # illegal character '#' after pre_len legal characters, an optional line break inside the prefix
    pre_len, post_len = _ci(pre_len, 4), _ci(post_len, 3)
    prefix = ['a'] * pre_len
    nl = _ci(nl_at + 1, 4) - 1
    if 0 <= nl < pre_len:
        prefix[nl] = '\n'
    text = ''.join(prefix) + '#' + 'b' * post_len
    lx = MindsDBLexer()
    try:
        list(lx.tokenize(text))
    except LexError as e:
        msg = str(e.args[0])
        lines = msg.split('\n')
        caret = lines[len(lines) - 1]
        shown = lines[len(lines) - 2]
        col = caret.index('^')
        return lines[0].startswith('Illegal character') and shown[0] == '>' and shown[col] == '#'
    return False


# ---- lexer error after arbitrary legal material (tokens that span lines, comments, tabs, CRLF) ---------------------------
SEGMENTS = ['', 'a', ' ', '\n', '\t', '/* c */', '/* c\n d */', "'s'", "'s\nt'", '`q\nr`', 'is\nnot', 'not\n in', '-- c\n', '\r\n', '"d\n\ne"', 'x is not\tnull']


def lexer_error_seg_leaf(s0, s1, s2, post_len):
    """the message of the real lexer for `<seg><seg><seg>#<post>`: the line shown is the source line holding '#', the caret is
    under it"""
    text = SEGMENTS[s0] + SEGMENTS[s1] + SEGMENTS[s2] + '#' + 'b' * post_len
    at = text.index('#')
    src_line = text[:at].count('\n')
    col = at - (text.rfind('\n', 0, at) + 1)
    lx = MindsDBLexer()
    try:
        list(lx.tokenize(text))
    except LexError as e:
        msg = str(e.args[0])
        lines = msg.split('\n')
        caret, shown = lines[-1], lines[-2]
        if not lines[0].startswith('Illegal character') or '^' not in caret:
            return False
        c = caret.index('^')
        want_line = text.split('\n')[src_line]
        # the displayed line is '>' + source line (the message format of the lexer); the caret is below the '#'
        return shown[:1] == '>' and shown[1:] == want_line and c < len(shown) and shown[c] == '#' and c - 1 == col
    return False


def lexer_error_segments(s0: int, s1: int, s2: int, post_len: int) -> bool:
    """
    pre: 0 <= s0 < 16 and 0 <= s1 < 16 and 0 <= s2 < 16 and 0 <= post_len <= 2
    post: _
    """
    s0, s1, s2, post_len = _ci(s0, 15), _ci(s1, 15), _ci(s2, 15), _ci(post_len, 2)
    with NoTracing():
        return lexer_error_seg_leaf(s0, s1, s2, post_len)
