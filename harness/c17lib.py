"""C17 — renderer fallback contract and non-mutation.
Family (concrete trees): every statement of the test corpus and one shortest sentence per production of the mindsdb grammar,
plus hand-written shapes the renderer does not support; x 7 dialect names.  Leaves run the real renderer natively."""
from harness import planlib as PL

DIALECTS = ('mysql', 'postgresql', 'postgres', 'sqlite', 'mssql', 'oracle', 'Snowflake')
EXTRA = [
    "SELECT cast(a AS foo) FROM t", "SELECT cast(a AS int(3)) FROM t", "SELECT -(1, 2) FROM t", "SELECT (1, 2) FROM t",
    "SELECT a FROM t WHERE (a, b) IN ((1, 2), (3, 4))", "SELECT count(a, b) FROM t", "SELECT count(DISTINCT a, b) FROM t",
    "SELECT x.y.z.w FROM a.b.c", "SELECT a AS b.c FROM t", "SELECT ? AS p FROM t", "SELECT @v, @@sv FROM t",
    "SELECT a FROM t1 RIGHT JOIN t2 ON t1.a = t2.a FULL JOIN t3 ON t3.a = t1.a", "SELECT * FROM t1, t2", "SELECT * FROM t1 JOIN t2",
    "SELECT a -> 'b', a ->> 'c' FROM t", "SELECT a::int FROM t", "SELECT a || b FROM t", "SELECT a NOT IN (1) FROM t",
    "SELECT * FROM int1 (select 1)", "SELECT substring(a FROM 2) FROM t", "SELECT LAST FROM t WHERE a > LATEST",
    "SELECT sum(a) OVER (PARTITION BY b ORDER BY c DESC) FROM t", "SELECT CASE a WHEN 1 THEN 2 END FROM t",
    "SELECT INTERVAL '1 day' FROM t", "SELECT a FROM t ORDER BY a NULLS FIRST, b DESC NULLS LAST LIMIT 1 OFFSET 2",
    "WITH c AS (SELECT 1 AS x) SELECT * FROM c", "SELECT a FROM t UNION ALL SELECT b FROM u", "SELECT a FROM t INTERSECT SELECT b FROM u",
    "INSERT INTO t (a) VALUES (1), (2)", "INSERT INTO t SELECT * FROM u", "UPDATE t SET a = 1 WHERE b = 2", "UPDATE t SET a = u.b FROM (SELECT * FROM u) AS u WHERE t.id = u.id",
    "DELETE FROM t WHERE a IN (SELECT b FROM u)", "CREATE TABLE t (a serial, b int DEFAULT 1, c varchar(10) NOT NULL, PRIMARY KEY (a))",
    "CREATE OR REPLACE TABLE x.t (SELECT 1)", "DROP TABLE IF EXISTS t", "SELECT exists(SELECT 1), not exists(SELECT 2)",
    "SELECT * FROM t WHERE a BETWEEN 1 AND 2 AND NOT b", "SELECT DISTINCT a, b AS c FROM t GROUP BY a HAVING count(*) > 1",
    "SELECT current_date, CURRENT_USER FROM t", "SELECT fn.ns(a) FROM t", "SHOW TABLES", "CREATE MODEL m PREDICT y", "USE x",
]
_trees = None


def trees():
    """(sql, origin) list, deterministic order"""
    global _trees
    if _trees is None:
        from engines import sweep as SW
        from engines.sentences import shortest_sentences
        from engines.symtok import representatives
        L, P = SW.dialect_classes('mindsdb')
        rep, lexemes = representatives(L)
        sqls = [(s, 'extra') for s in EXTRA]
        sqls += [(s, 'corpus') for s in SW.harvest_corpus()['mindsdb']]
        sqls += [(' '.join(lexemes.get(t, t) for t in types), 'production') for p, types in shortest_sentences(P)]
        seen, out = set(), []
        from mindsdb_sql import parse_sql
        for s, o in sqls:
            if s in seen:
                continue
            seen.add(s)
            try:
                parse_sql(s, 'mindsdb')
            except Exception:  # noqa
                continue
            out.append((s, o))
        _trees = out
    return _trees


def leaf(idx, d):
    """problems for tree #idx rendered for dialect #d"""
    from mindsdb_sql import parse_sql
    from mindsdb_sql.render.sqlalchemy_render import SqlalchemyRender
    from sqlalchemy.exc import SQLAlchemyError
    ts = trees()
    if idx >= len(ts):
        return [], {}
    sql, origin = ts[idx]
    dialect = DIALECTS[d]
    ast = parse_sql(sql, 'mindsdb')
    tree0, str0 = ast.to_tree(), str(ast)
    info = {'sql': sql, 'dialect': dialect, 'origin': origin}
    problems = []
    try:
        r = SqlalchemyRender(dialect)
    except Exception as e:  # noqa
        return ['SqlalchemyRender(%r) raises %r' % (dialect, e)], info
    for fn_name in ('get_string', 'get_exec_params'):
        try:
            out = getattr(r, fn_name)(ast)
            s = out if fn_name == 'get_string' else out[0]
            if not isinstance(s, str):
                problems.append('%s returned %r' % (fn_name, type(s).__name__))
        except Exception as e:  # noqa
            problems.append('%s with fallback raises %s: %s' % (fn_name, type(e).__name__, str(e)[:80]))
        if ast.to_tree() != tree0 or str(ast) != str0:
            problems.append('%s mutated the tree it was given' % fn_name)
            ast = parse_sql(sql, 'mindsdb')
    try:
        r.get_string(ast, with_failback=False)
    except (SQLAlchemyError, NotImplementedError):
        pass
    except Exception as e:  # noqa
        problems.append('get_string without fallback raises %s: %s' % (type(e).__name__, str(e)[:80]))
    if ast.to_tree() != tree0 or str(ast) != str0:
        problems.append('get_string(with_failback=False) mutated the tree it was given')
    return problems, info


def step(base, bits, d):
    idx = base
    for i, b in enumerate(bits):
        if PL.cb(b):
            idx += (1 << i)
    d = PL.ci(d, len(DIALECTS) - 1)
    with PL.NoTracing():
        pr, info = leaf(idx, d)
    return len(pr)
