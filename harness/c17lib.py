"""C17 — renderer fallback contract and non-mutation.
Family (concrete trees): every statement of the test corpus and one shortest sentence per production of the mindsdb grammar,
plus hand-written shapes the renderer does not support; x 7 dialect names.  Leaves run the real renderer natively."""
from harness import planlib as PL

DIALECTS = ('mysql', 'postgresql', 'postgres', 'sqlite', 'mssql', 'oracle', 'Snowflake')
EXTRA = [
    "SELECT cast(a AS foo) FROM t", "SELECT cast(a AS int(3)) FROM t", "SELECT -(1, 2) FROM t", "SELECT (1, 2) FROM t",
    "SELECT a FROM t WHERE (a, b) IN ((1, 2), (3, 4))", "SELECT count(a, b) FROM t", "SELECT count(DISTINCT a, b) FROM t",
    "SELECT x.y.z.w FROM a.b.c", "SELECT a AS b.c FROM t", "SELECT ? AS p FROM t", "SELECT @v, @@sv FROM t",
    "SELECT a FROM t1 RIGHT JOIN t2 ON t1.a = t2.a FULL JOIN t3 ON t3.a = t1.a", "SELECT * FROM t1, t2", "SELECT * FROM t1 JOIN t2",
    "SELECT a -> 'b', a ->> 'c' FROM t", "SELECT a::int FROM t", "SELECT a || b FROM t", "SELECT a NOT IN (1) FROM t",
    "SELECT * FROM int1 (select 1)", "SELECT substring(a FROM 2) FROM t", "SELECT LAST FROM t WHERE a > LATEST",
    "SELECT sum(a) OVER (PARTITION BY b ORDER BY c DESC) FROM t", "SELECT CASE a WHEN 1 THEN 2 END FROM t",
    "SELECT INTERVAL '1 day' FROM t", "SELECT a FROM t ORDER BY a NULLS FIRST, b DESC NULLS LAST LIMIT 1 OFFSET 2",
    "WITH c AS (SELECT 1 AS x) SELECT * FROM c", "SELECT a FROM t UNION ALL SELECT b FROM u", "SELECT a FROM t INTERSECT SELECT b FROM u",
    "INSERT INTO t (a) VALUES (1), (2)", "INSERT INTO t SELECT * FROM u", "UPDATE t SET a = 1 WHERE b = 2", "UPDATE t SET a = u.b FROM (SELECT * FROM u) AS u WHERE t.id = u.id",
    "DELETE FROM t WHERE a IN (SELECT b FROM u)", "CREATE TABLE t (a serial, b int DEFAULT 1, c varchar(10) NOT NULL, PRIMARY KEY (a))",
    "CREATE OR REPLACE TABLE x.t (SELECT 1)", "DROP TABLE IF EXISTS t", "SELECT exists(SELECT 1), not exists(SELECT 2)",
    "SELECT * FROM t WHERE a BETWEEN 1 AND 2 AND NOT b", "SELECT DISTINCT a, b AS c FROM t GROUP BY a HAVING count(*) > 1",
    "SELECT current_date, CURRENT_USER FROM t", "SELECT fn.ns(a) FROM t", "SHOW TABLES", "CREATE MODEL m PREDICT y", "USE x",
]
# unsupported / rarely rendered expression snippets embedded in every statement frame
SNIPPETS = ["cast(a AS foo)", "count(DISTINCT a, b)", "-(1, 2)", "(a, b) IN ((1, 2), (3, 4))", "a -> 'k'", "x.y.z.w", "fn.ns(a)", "a NOT IN (1)",
            "substring(a FROM 2)", "CASE a WHEN 1 THEN (1, 2) END", "INTERVAL '1 day'", "@v", "?", "a::unknowntype"]
FRAMES = ["SELECT {e} FROM t", "SELECT a FROM t WHERE {e} > 0", "SELECT a FROM t GROUP BY a HAVING {e} > 0", "SELECT a FROM t ORDER BY {e} LIMIT 2 OFFSET 1",
          "SELECT {e} FROM t UNION SELECT b FROM u ORDER BY 1 LIMIT 2", "SELECT b FROM u UNION ALL SELECT {e} FROM t LIMIT 3 OFFSET 1",
          "SELECT b FROM u INTERSECT SELECT {e} FROM t ORDER BY 1", "SELECT * FROM (SELECT {e} AS c FROM t) AS s ORDER BY c LIMIT 1",
          "WITH w AS (SELECT {e} AS c FROM t) SELECT c FROM w", "SELECT x.a FROM t AS x JOIN u AS y ON {e} = y.b", "SELECT a, ({e}) AS k FROM t AS q ORDER BY a",
          "INSERT INTO t (a) SELECT {e} FROM u", "UPDATE t SET a = {e} WHERE b = 1", "DELETE FROM t WHERE {e} = 1", "SELECT coalesce({e}, 1) AS c, a AS d FROM t",
          "SELECT a FROM t WHERE a IN (SELECT {e} FROM u ORDER BY 1 LIMIT 1)", "CREATE TABLE x.t2 (SELECT {e} AS c FROM t)"]
EXTRA = EXTRA + [f.format(e=e) for f in FRAMES for e in SNIPPETS]
# every kind of value in every statement position that holds values (rows of single- and multi-row INSERTs, SET lists, IN lists, BETWEEN bounds,
# CASE branches, select list with and without alias, grouping / sort keys by position): rendering must leave each of these trees as it was
VALUE_KINDS = ["1", "-1", "1.5", "'one'", "''", "'it''s'", "NULL", "TRUE", "a", "t.a", "lower(a)", "?", "@v", "1 + 2", "(SELECT 1)"]
VALUE_FRAMES = ["INSERT INTO t (a, b) VALUES ({v}, 1), (2, {v})", "INSERT INTO t (a) VALUES ({v})", "INSERT INTO t (a, b) VALUES ({v}, {v}), ({v}, {v}), (3, 4)",
                "UPDATE t SET a = {v}, b = {v} WHERE c = {v}", "SELECT {v}, {v} AS k FROM t WHERE a IN ({v}, {v})", "SELECT a FROM t WHERE a BETWEEN {v} AND {v}",
                "DELETE FROM t WHERE a = {v}", "SELECT CASE WHEN a = {v} THEN {v} ELSE {v} END AS c FROM t", "SELECT a, count(*) FROM t GROUP BY 1 ORDER BY 2 DESC, 1",
                "SELECT coalesce({v}, {v}) FROM t ORDER BY 1 LIMIT 1"]
EXTRA = EXTRA + sorted({f.replace('{v}', v) for f in VALUE_FRAMES for v in VALUE_KINDS})
_trees = None


def trees():
    """(sql, origin) list, deterministic order"""
    global _trees
    if _trees is None:
        from engines import sweep as SW
        from engines.sentences import shortest_sentences
        from engines.symtok import representatives
        L, P = SW.dialect_classes('mindsdb')
        rep, lexemes = representatives(L)
        sqls = [(s, 'extra') for s in EXTRA]
        sqls += [(s, 'corpus') for s in SW.harvest_corpus()['mindsdb']]
        sqls += [(' '.join(lexemes.get(t, t) for t in types), 'production') for p, types in shortest_sentences(P)]
        seen, out = set(), []
        from mindsdb_sql import parse_sql
        for s, o in sqls:
            if s in seen:
                continue
            seen.add(s)
            try:
                parse_sql(s, 'mindsdb')
            except Exception:  # noqa
                continue
            out.append((s, o))
        _trees = out
    return _trees


def leaf(idx, d):
    """problems for tree #idx rendered for dialect #d"""
    from mindsdb_sql import parse_sql
    from mindsdb_sql.render.sqlalchemy_render import SqlalchemyRender
    from sqlalchemy.exc import SQLAlchemyError
    ts = trees()
    if idx >= len(ts):
        return [], {}
    sql, origin = ts[idx]
    dialect = DIALECTS[d]
    ast = parse_sql(sql, 'mindsdb')
    tree0, str0 = ast.to_tree(), str(ast)
    info = {'sql': sql, 'dialect': dialect, 'origin': origin}
    problems = []
    try:
        r = SqlalchemyRender(dialect)
    except Exception as e:  # noqa
        return ['SqlalchemyRender(%r) raises %r' % (dialect, e)], info
    for fn_name in ('get_string', 'get_exec_params'):
        try:
            out = getattr(r, fn_name)(ast)
            s = out if fn_name == 'get_string' else out[0]
            if not isinstance(s, str):
                problems.append('%s returned %r' % (fn_name, type(s).__name__))
        except Exception as e:  # noqa
            problems.append('%s with fallback raises %s: %s' % (fn_name, type(e).__name__, str(e)[:80]))
        if ast.to_tree() != tree0 or str(ast) != str0:
            problems.append('%s mutated the tree it was given' % fn_name)
            ast = parse_sql(sql, 'mindsdb')
    try:
        r.get_string(ast, with_failback=False)
    except (SQLAlchemyError, NotImplementedError):
        pass
    except Exception as e:  # noqa
        problems.append('get_string without fallback raises %s: %s' % (type(e).__name__, str(e)[:80]))
    if ast.to_tree() != tree0 or str(ast) != str0:
        problems.append('get_string(with_failback=False) mutated the tree it was given')
    return problems, info


def step(base, bits, d):
    idx = base
    for i, b in enumerate(bits):
        if PL.cb(b):
            idx += (1 << i)
    d = PL.ci(d, len(DIALECTS) - 1)
    with PL.NoTracing():
        pr, info = leaf(idx, d)
    return len(pr)
