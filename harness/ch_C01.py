"""CrossHair harness for C01 atom lemmas (value side): printed identifier parts / variables decode to themselves."""
import os, re
from mindsdb_sql.parser.ast.select.identifier import Identifier, path_str_to_parts
from mindsdb_sql.parser.ast.variable import Variable
from mindsdb_sql.parser.dialects.mindsdb.lexer import MindsDBLexer
from sly.lex import Token
from refs.readers import split_path
import mindsdb_sql.parser.dialects.mindsdb.lexer as _mlex
if hasattr(_mlex, 'Lexeme'):
    _mlex.Lexeme = lambda value, raw=None: value     # stub, see ch_C04.py

N = int(os.environ.get('VERIF_STRLEN', '4'))
_lx = MindsDBLexer()


NO_WRAP = re.compile(r'[a-zA-Z_][a-zA-Z_0-9]*')
_ID_RE = re.compile([r if isinstance(r, str) else r.pattern for n, r in MindsDBLexer._rules if n == 'ID'][0])     # the live ID rule


def ident_atom(p: str) -> bool:
    """
    pre: len(p) <= N
    pre: len(p) > 0 and '`' not in p
    pre: NO_WRAP.fullmatch(p) is None
    post: _
    """
    text = Identifier(parts=[p]).to_string()
    if text[0] == '`':
        ok_shape = text == '`' + p + '`'
    else:
        # printed bare: the text must be one ID lexeme of the live lexer (a part holding a blank, a line break, a dot, .. is not)
        ok_shape = text == p and _ID_RE.fullmatch(p) is not None
    # decoded by the independent reader; C04/path_str shows the real decoder equals that reader on every text
    return ok_shape and split_path(text) == [p]


def ident_atom_reach(p: str) -> bool:
    """
    pre: len(p) <= N
    pre: len(p) > 0 and '`' not in p
    pre: NO_WRAP.fullmatch(p) is None
    post: False
    """
    return ident_atom(p)


def ident_atom_known(p: str) -> bool:
    """
    pre: len(p) <= 2
    pre: len(p) == 0 or '`' in p
    post: _
    """
    text = Identifier(parts=[p]).to_string()
    return split_path(text) == [p]


def ident_atom_bare(p: str) -> bool:
    """
    pre: len(p) <= 2
    pre: NO_WRAP.fullmatch(p) is not None
    post: _
    """
    # identifier-shaped part: printed bare or back-quoted (which one is safe is decided by LEXZ3); both decode to p
    text = Identifier(parts=[p]).to_string()
    return (text == p or text == '`' + p + '`') and split_path(text) == [p]


def path_atom(p1: str, p2: str) -> bool:
    """
    pre: len(p1) <= 3 and len(p2) <= 3
    pre: len(p1) > 0 and len(p2) > 0 and '`' not in p1 and '`' not in p2
    pre: NO_WRAP.fullmatch(p1) is None and NO_WRAP.fullmatch(p2) is None
    post: _
    """
    text = Identifier(parts=[p1, p2]).to_string()
    return split_path(text) == [p1, p2]


def _var_rule(name):
    for n, r in MindsDBLexer._rules:
        if n == name:
            return r
    raise KeyError(name)


VAR_RE = re.compile(_var_rule('VARIABLE').pattern)
SVAR_RE = re.compile(_var_rule('SYSTEM_VARIABLE').pattern)


FIRST_OK = re.compile(r'[a-zA-Z_.$]')


def _expressible(v):
    return len(v) > 0 and _first_ok(v[0]) and not ('`' in v and "'" in v and '"' in v)


def _first_ok(ch):
    return ('a' <= ch <= 'z') or ('A' <= ch <= 'Z') or ch == '_' or ch == '.' or ch == '$'


def _var_shape(text, nsig):
    """the VARIABLE / SYSTEM_VARIABLE token shapes, written without re: @name | @'..' | @`..` | @".." """
    if len(text) <= nsig or text[:nsig] != '@' * nsig:
        return False
    rest = text[nsig:]
    q = rest[0]
    if q == "'" or q == '"' or q == '`':
        if len(rest) < 3 or rest[len(rest) - 1] != q:
            return False
        body = rest[1:len(rest) - 1]
        return _first_ok(body[0]) and q not in body
    for ch in rest:
        if not _first_ok(ch):
            return False
    return True


def _var_roundtrip(v, system):
    # the printed variable is one VARIABLE / SYSTEM_VARIABLE lexeme whose decoded value is v
    text = Variable(v, is_system_var=system).to_string()
    if not _var_shape(text, 2 if system else 1):
        return False
    t = Token()
    t.type, t.value, t.lineno, t.index, t.end = ('SYSTEM_VARIABLE' if system else 'VARIABLE'), text, 1, 0, len(text)
    t = _var_rule(t.type)(_lx, t)
    return t.value == v


def _decode_var(text, system):
    t = Token()
    t.type, t.value, t.lineno, t.index, t.end = ('SYSTEM_VARIABLE' if system else 'VARIABLE'), text, 1, 0, len(text)
    return _var_rule(t.type)(_lx, t).value


def var_atom(text: str, system: bool) -> bool:
    """
    pre: len(text) <= N + 2
    pre: (SVAR_RE if system else VAR_RE).fullmatch(text) is not None
    post: _
    """
    # every expressible variable name is the decoding of some variable lexeme: quantify over lexemes.
    # decode -> print -> the printed text has the token shape and denotes the same name (by the reference reading)
    v = _decode_var(text, system)
    text2 = Variable(v, is_system_var=system).to_string()
    nsig = 2 if system else 1
    if (SVAR_RE if system else VAR_RE).fullmatch(text2) is None:
        return False
    rest = text2[nsig:]
    q = rest[0]
    name2 = rest[1:len(rest) - 1] if (q == "'" or q == '"' or q == '`') else rest
    return name2 == v


def var_atom_known(v: str, system: bool) -> bool:
    """
    pre: len(v) <= 3
    pre: len(v) > 0 and not _expressible(v)
    post: _
    """
    return _var_roundtrip(v, system)
