"""C06 — SQL rendered through SQLAlchemy means the same as the parsed statement (SYMREL, see c06lib)."""
import json
import multiprocessing as mp
from engines.common import Run, NCPU


def _work(args):
    sql, d, R, D = args
    import warnings
    warnings.filterwarnings('ignore')
    from harness import c06lib
    out = {'sql': sql, 'dialect': d}
    try:
        out['check'] = c06lib.check_member(sql, d, R, D)
    except Exception as e:  # noqa
        import traceback
        out['check'] = {'status': 'error', 'reason': repr(e) + traceback.format_exc()[-200:]}
    if out['check'].get('witness'):
        try:
            out['replay'] = c06lib.replay_member(sql, d, out['check']['witness'])
        except Exception as e:  # noqa
            out['replay'] = (False, {'error': repr(e)})
    if out['check'].get('status') == 'not-rendered':
        from mindsdb_sql import parse_sql
        from mindsdb_sql.render.sqlalchemy_render import SqlalchemyRender
        ast = parse_sql(sql, 'mindsdb')
        fb = SqlalchemyRender(d).get_string(ast)
        out['fallback_is_own_string'] = (fb == str(ast)) or (fb == str(ast).replace('`', ''))
    return out


def SqlalchemyRender_get(sql, d):
    from mindsdb_sql import parse_sql
    from mindsdb_sql.render.sqlalchemy_render import SqlalchemyRender
    ast = parse_sql(sql, 'mindsdb')
    fb = SqlalchemyRender(d).get_string(ast)
    return (fb == str(ast)) or (fb == str(ast).replace('`', ''))


def run(tier):
    run = Run('C06', tier, level='translation_validation')
    from harness import c06lib
    from engines import symrel as SR
    import random
    from mindsdb_sql import parse_sql
    R, D = (2, 3) if tier == 'quick' else (3, 3)
    members = [(s, d) for s in c06lib.SELECTS + c06lib.DML for d in c06lib.DIALECTS]
    run.bounds = {'rows_per_table_max': R, 'value_range': [0, D], 'statements': len(c06lib.SELECTS) + len(c06lib.DML), 'dialects': list(c06lib.DIALECTS)}
    run.functions = ['SqlalchemyRender.get_string(with_failback=False) (real, per member and dialect)', 'prepare_select/prepare_join/to_expression/prepare_insert/update/delete',
                     'mindsdb parser (read-back of the rendered text)']
    run.assumptions = ['the rendered text is read back with the repo\'s mindsdb parser (its grouping is C03\'s subject); counterexamples are replayed on sqlite3 with the original and the rendered text, which also guards against read-back artefacts',
                       'window functions: rank/dense_rank/row_number/count/sum/min/max with PARTITION BY, ORDER BY (direction, NULLS FIRST/LAST) and the ROWS/RANGE BETWEEN frames the grammar accepts; row_number and ROWS frames under distinct window order keys within a partition; other window functions, string/date functions, CREATE/DROP TABLE are outside SYMREL\'s fragment (C17 covers their contract); mssql/oracle text is not checked here',
                       'ORDER BY..LIMIT compared under pairwise distinct sort-key tuples (ties are the engine\'s choice); ordered top-level results are compared as sequences',
                       'statements the renderer refuses (RIGHT JOIN) fall back to the tree\'s own string: checked to be exactly that string']
    # translator validation of SYMREL on the original statements (queries) against sqlite3
    rnd = random.Random(run.seed)
    for sql in c06lib.SELECTS:
        n, bad, un = SR.validate_query(parse_sql(sql, 'mindsdb'), sql, c06lib.SCHEMA, R, D, rnd, n=2)
        run.validated += n
        if bad:
            run.error('SYMREL disagrees with sqlite3 on %r: %s' % (sql, bad[0]))
    with mp.get_context('fork').Pool(NCPU) as pool:
        res = pool.map(_work, [(s, d, R, D) for s, d in members], chunksize=2)
    for r in res:
        c = r['check']
        name = 'render:%s:%s' % (r['dialect'], r['sql'][:80])
        run.stats['solver_calls'] += 1
        run.stats['solver_s'] += c.get('solver_s', 0)
        st = c['status']
        if st == 'discharged':
            run.ob(name, 'discharged', 'unsat in %.2fs' % c.get('solver_s', 0))
            if len(run.samples) < 4:
                run.sample({'original': r['sql'], 'dialect': r['dialect'], 'rendered': c.get('rendered')})
        elif st == 'not-rendered':
            if r.get('fallback_is_own_string'):
                run.ob(name, 'discharged', 'renderer refuses (%s); fallback returns the tree\'s own string' % c.get('reason'))
            else:
                run.counterexample('render-fallback:%s:%s' % (r['dialect'], r['sql']), 'fallback output is not the tree\'s own string', {'sql': r['sql']}, True)
                run.ob(name, 'counterexample', None)
        elif st == 'counterexample':
            if c.get('witness'):
                rep, info = r.get('replay', (False, {}))
                run.counterexample('render-meaning:%s:%s' % (r['dialect'], r['sql']), '%s rendered for %s: %s' % (r['sql'], r['dialect'], c['problems'][-1][:300]),
                                   {'sql': r['sql'], 'dialect': r['dialect'], 'rendered': c.get('rendered'), 'witness': c['witness'], 'native': info}, rep)
                run.ob(name, 'counterexample' if rep else 'inconclusive', c.get('kind'))
            else:
                run.counterexample('render-meaning:%s:%s:%s' % (c.get('kind'), r['dialect'], r['sql']), '%s rendered for %s as %r: %s' % (r['sql'], r['dialect'], c.get('rendered'), c['problems'][0]),
                                   {'sql': r['sql'], 'dialect': r['dialect'], 'rendered': c.get('rendered')}, True)
                run.ob(name, 'counterexample', c.get('kind'))
        else:
            run.ob(name, 'inconclusive', '%s: %s' % (st, c.get('reason')))
    # ---- DDL: CREATE TABLE / DROP TABLE (schema models of the tree and of the rendered text; z3 searches a row / pre-state that tells them apart)
    try:
        from harness import c06ddl
        from mindsdb_sql.exceptions import ParsingException
        n_ddl = 0
        for sql in c06ddl.family():
            try:
                parse_sql(sql, 'mindsdb')
            except ParsingException:
                continue            # a combination the grammar does not have (type with a length followed by PRIMARY KEY)
            for d in c06ddl.DIALECTS:
                n_ddl += 1
                name = 'render-ddl:%s:%s' % (d, sql[:80])
                c = c06ddl.check_member(sql, d)
                run.stats['solver_calls'] += 1
                st = c['status']
                if st == 'discharged':
                    run.ob(name, 'discharged', 'unsat')
                elif st == 'not-rendered':
                    fb = SqlalchemyRender_get(sql, d)
                    run.ob(name, 'discharged' if fb else 'inconclusive', 'renderer refuses (%s); fallback returns the tree\'s own string' % c.get('reason'))
                elif st == 'counterexample':
                    rep, info = c06ddl.replay_member(sql, d, c.get('witness'))
                    key = 'render-ddl:%s:%s' % (d, 'create-or-replace-table-rendered-as-create-table' if 'OR REPLACE' in sql.upper() and ' OR REPLACE ' not in (c.get('rendered') or '').upper()
                                                else sql)
                    run.counterexample(key, '%s rendered for %s as %r: %s' % (sql, d, c.get('rendered'), '; '.join(c['problems'])[:300]),
                                       {'ddl': {'sql': sql, 'dialect': d}, 'native': info}, rep)
                    run.ob(name, 'counterexample' if rep else 'inconclusive', None)
                else:
                    run.ob(name, 'inconclusive', c.get('reason'))
        run.bounds['ddl_statements'] = n_ddl
        run.functions.append('SqlalchemyRender.prepare_create_table / prepare_drop_table / get_type (real, per member and dialect)')
        run.assumptions.append('DDL part: the effect of CREATE TABLE is modelled by column names and order, type family, declared length / precision, NOT NULL, PRIMARY KEY, DEFAULT, table name, IF NOT EXISTS / OR REPLACE, '
                               'and of DROP TABLE by the table name and IF EXISTS; an integer primary key may be auto-generated on either side (engines differ); CHAR without a length is CHAR(1); widening INT to BIGINT is accepted; '
                               'the rendered text is read by an independent reader of CREATE TABLE syntax; check constraints, foreign keys, indexes, collations are not in the grammar')
    except Exception as e:  # noqa
        import traceback
        run.error('DDL part crashed: %r %s' % (e, traceback.format_exc()[-400:]))
    run.extra['programs'] = len(res)
    run.finish()


def replay(path):
    r = json.load(open(path))
    print(json.dumps(r, indent=1)[:3000])
    from harness import c06lib
    rp = r['replay']
    if rp.get('ddl'):
        from harness import c06ddl
        rep, info = c06ddl.replay_member(rp['ddl']['sql'], rp['ddl']['dialect'])
        print('native replay now: reproduced=%s %s' % (rep, json.dumps(info, default=repr)))
        return 1 if rep else 0
    if rp.get('witness'):
        rep, info = c06lib.replay_member(rp['sql'], rp['dialect'], rp['witness'])
        print('native replay now: reproduced=%s %s' % (rep, json.dumps(info, default=repr)))
        return 1 if rep else 0
    return 2
