"""C17 — renderer fallback contract and non-mutation (family in c17lib, vocabulary units in ch_C17)."""
import os, json
from engines.common import Run, ch_obligations, VERIF

T = '''
def fam_{base}(b0: bool, b1: bool, b2: bool, b3: bool, b4: bool, b5: bool, d: int) -> int:
    """
    pre: 0 <= d < 7
    post: _ == 0
    """
    return step({base}, (b0, b1, b2, b3, b4, b5), d)
'''
TU = '''
def unit_{kind}_{lo}(i: int, j: int, flag: bool, d: int) -> bool:
    """
    pre: {lo} <= i < {hi} and 0 <= j <= 3 and 0 <= d < 7
    post: _
    """
    return unit({kind}, i, j, flag, d)
'''


def gen():
    from harness import c17lib
    n = len(c17lib.trees())
    d = os.path.join(VERIF, '.scratch')
    os.makedirs(d, exist_ok=True)
    path = os.path.join(d, 'gen_ch_C17.py')
    names = []
    with open(path, 'w') as f:
        f.write('from harness.c17lib import step\nfrom harness.ch_C17 import unit\n')
        for base in range(0, n, 64):
            f.write(T.format(base=base))
            names.append(('fam_%d' % base, base))
        for kind in range(6):
            for lo in range(0, 56, 14):
                f.write(TU.format(kind=kind, lo=lo, hi=lo + 14))
                names.append(('unit_%d_%d' % (kind, lo), None))
    return path, names, n


def r_fam(base):
    def replay(args):
        from harness import c17lib
        idx = base + sum((1 << i) for i in range(6) if args['b%d' % i])
        pr, info = c17lib.leaf(idx, args['d'])
        import re
        cls = re.sub(r':.*', '', pr[0])[:60] if pr else ''
        return bool(pr), dict(info, problems=pr[:3]), 'render-contract:%s:%s' % (info.get('dialect'), cls), \
            'rendering %r for %s: %s' % (info.get('sql', '')[:120], info.get('dialect'), pr[0] if pr else '')
    return replay


def r_unit(kind):
    def replay(args):
        import importlib
        m = importlib.import_module('harness.ch_C17')
        try:
            ok = m.leaf(kind, args['i'], args['j'], bool(args['flag']), args['d'])
            err = None
        except Exception as e:  # noqa
            ok, err = False, '%s: %s' % (type(e).__name__, str(e)[:100])
        what = {0: 'TypeCast type %r' % m.TYPES[args['i'] % len(m.TYPES)], 1: 'binary operator %r' % m.OPS[args['i'] % len(m.OPS)],
                2: 'unary operator %r' % m.OPS[args['i'] % len(m.OPS)], 3: 'function %r with %d args' % (m.FUNCS[args['i'] % len(m.FUNCS)], args['j']),
                4: 'CREATE TABLE column type %r' % m.TYPES[args['i'] % len(m.TYPES)], 5: 'identifier/alias part counts'}[kind]
        return (not ok), {'args': args, 'what': what, 'error': err}, 'render-unit:%d:%s' % (kind, what), \
            'renderer contract broken for %s (%s): %s' % (what, m.DIALECTS[args['d']], err or 'contract/non-mutation')
    return replay


def run(tier):
    run = Run('C17', tier)
    path, names, n = gen()
    run.bounds = {'trees': n, 'dialect_names': 7, 'vocabularies': 'type names 56, operators 35, function names 13, arities 0..3, name parts 1..4'}
    run.functions = ['SqlalchemyRender.get_string/get_exec_params/get_query/to_expression/to_function/get_type/prepare_*', 'render_dml_query/render_ddl_query']
    run.assumptions = ['tree family: every test-corpus statement, one shortest sentence per mindsdb production, %d hand-written unsupported shapes (concrete trees)' % 44,
                       'structure/vocabulary choices are finite-domain: CrossHair/z3 split the space, leaves run the real renderer natively; symbolic strings through SQLAlchemy are out of reach (measured ~3 s solver time per path)',
                       'non-mutation is judged by to_tree() and str() of the input before and after']
    specs = []
    for fn, base in names:
        if base is not None:
            specs.append(dict(fn=fn, twin=None, replay=r_fam(base)))
        else:
            specs.append(dict(fn=fn, twin=None, replay=r_unit(int(fn.split('_')[1]))))
    ch_obligations(run, path, specs, cond_to=400 if tier == 'quick' else 900, path_to=90)
    run.finish()


def replay(path):
    r = json.load(open(path))
    print(json.dumps(r, indent=1))
    h = r['replay']['harness']
    rp = r_fam(int(h.split('_')[1])) if h.startswith('fam_') else r_unit(int(h.split('_')[1]))
    rep, info, key, what = rp(r['replay']['args'])
    print('native replay now: reproduced=%s %s' % (rep, json.dumps(info, default=repr)))
    return 1 if rep else 0
