"""C14 — table-model joins.  Symbolic: WHERE formula shape and atom choices, ON clause presence, USING option, join order.
Leaf: real parse + plan; oracle = independent syntactic spec written from the property text."""
from harness import planlib as PL

# atoms: (sql, kind, table alias, column, constant)
ATOMS = [
    ("t.a > 5", 'table', 't', 'a', 5),
    ("t.b = 2", 'table', 't', 'b', 2),
    ("m.x = 3", 'model-eq', 'm', 'x', 3),
    ("m.y > 4", 'model-other', 'm', 'y', 4),
    ("t.c = t.d", 'table-colcol', 't', None, None),
    ("upper(t.s) = 'X'", 'table-func', 't', None, None),
    ("m.z = 'v'", 'model-eq', 'm', 'z', 'v'),
    ("t.e BETWEEN 1 AND 9", 'table', 't', 'e', None),
    ("5 < t.b", 'table', 't', 'b', 5),
    ("'abc' LIKE t.s", 'table', 't', 's', 'abc'),
    ("t.s LIKE 'abc'", 'table', 't', 's', 'abc'),
    ("2 >= t.f", 'table', 't', 'f', 2),
]
# shapes over atom slots A B C: (template, which slots are top-level conjuncts)
SHAPES = [
    ("{A}", 'A'),
    ("{A} AND {B}", 'AB'),
    ("{A} AND {B} AND {C}", 'ABC'),
    ("{A} OR {B}", ''),
    ("NOT {A}", ''),
    ("{A} AND NOT {B}", 'A'),
    ("{A} AND ({B} OR {C})", 'A'),
    ("NOT ({A} AND {B})", ''),
    ("({A} AND {B}) OR {C}", ''),
    ("{A} AND ({B} AND {C})", 'ABC'),
    # the same conjunct written twice
    ("{A} AND {B} AND {A}", 'AB'),
    ("{A} AND ({B} AND {A})", 'AB'),
    ("{A} AND {A}", 'A'),
]
NA, NS = len(ATOMS), len(SHAPES)      # the CrossHair-split space uses the first NA atoms
# further atoms, run natively against every other atom (mapped_column_family): a model column that the ON clause maps to a table column AND that
# the WHERE clause sets to a constant; the same with the constant first
EXTRA_ATOMS = [("m.id = 7", 'model-eq', 'm', 'id', 7), ("8 = m.id", 'model-eq', 'm', 'id', 8)]
ATOMS = ATOMS + EXTRA_ATOMS

# statement frames: what the model is joined to, which model, how many models.  {ON} = the ON clause of the (first) model join
FRAMES = [
    dict(name='table-model', frm='int1.tbl1 AS t JOIN mindsdb.pred AS m{ON}', tables={'tbl1'}, models=[('mindsdb', ['pred'])]),
    dict(name='subselect-model', frm='(SELECT * FROM int1.tbl1 WHERE z > 0) AS t JOIN mindsdb.pred AS m{ON}', tables={'tbl1'}, models=[('mindsdb', ['pred'])], inner='z > 0'),
    dict(name='two-tables-model', frm='int1.tbl1 AS t JOIN int2.tbl2 AS u ON t.id = u.id JOIN mindsdb.pred AS m{ON}', tables={'tbl1', 'tbl2'}, models=[('mindsdb', ['pred'])]),
    dict(name='project-model', frm='int1.tbl1 AS t JOIN proj.pred2 AS m{ON}', tables={'tbl1'}, models=[('proj', ['pred2'])]),
    dict(name='versioned-model', frm='int1.tbl1 AS t JOIN mindsdb.pred.3 AS m{ON}', tables={'tbl1'}, models=[('mindsdb', ['pred', '3'])]),
    dict(name='two-models', frm='int1.tbl1 AS t JOIN mindsdb.pred AS m{ON} JOIN proj.pred2 AS m2', tables={'tbl1'}, models=[('mindsdb', ['pred']), ('proj', ['pred2'])]),
    dict(name='left-join-model', frm='int1.tbl1 AS t LEFT JOIN mindsdb.pred AS m{ON}', tables={'tbl1'}, models=[('mindsdb', ['pred'])]),
    # how the catalog names the model's target (list / plain string / several targets); the input columns x, y, z are substrings of the target name
    dict(name='target-as-list', frm='int1.tbl1 AS t JOIN mindsdb.predx AS m{ON}', tables={'tbl1'}, models=[('mindsdb', ['predx'])], target_form=0),
    dict(name='target-as-string', frm='int1.tbl1 AS t JOIN mindsdb.predx AS m{ON}', tables={'tbl1'}, models=[('mindsdb', ['predx'])], target_form=1),
    dict(name='several-targets', frm='int1.tbl1 AS t JOIN mindsdb.predx AS m{ON}', tables={'tbl1'}, models=[('mindsdb', ['predx'])], target_form=2),
]
NF = len(FRAMES)


# USING clauses: (text, what the model of alias m must receive).  Which one a statement gets is a fixed function of its other choices.
USINGS = [("Opt1=7, M.opt2='q'", {'opt1': 7, 'opt2': 'q'}),
          ("m.Deep.Key=7, opt2='q'", {'deep.key': 7, 'opt2': 'q'}),                       # the option's own name holds a dot
          ("other.opt3=1, m.opt1=7, opt2='q'", {'opt1': 7, 'opt2': 'q'}),                 # an option addressed to another alias
          ("m.`a.b`=7, OPT2='q'", {'a.b': 7, 'opt2': 'q'})]


def using_variant(shape, a, b, c):
    return (shape + 2 * a + 3 * b + c) % len(USINGS)


def build(shape, a, b, c, on_clause, using, model_first, frame=0):
    tmpl, top = SHAPES[shape]
    slots = {'A': ATOMS[a], 'B': ATOMS[b], 'C': ATOMS[c]}
    used = [k for k in 'ABC' if '{%s}' % k in tmpl]
    where = tmpl.format(A=slots['A'][0], B=slots['B'][0], C=slots['C'][0])
    on = ' ON t.id = m.id' if on_clause else ''
    if frame:
        frm = FRAMES[frame]['frm'].replace('{ON}', on)
    elif model_first:
        frm = 'mindsdb.pred AS m JOIN int1.tbl1 AS t' + on
    else:
        frm = 'int1.tbl1 AS t JOIN mindsdb.pred AS m' + on
    us = (' USING ' + USINGS[using_variant(shape, a, b, c)][0]) if using else ''
    sql = 'SELECT t.a, m.p FROM %s WHERE %s%s' % (frm, where, us)
    top_atoms = [slots[k] for k in used if k in top]
    all_atoms = [slots[k] for k in used]
    has_or = ' OR ' in tmpl
    return sql, top_atoms, all_atoms, has_or


# ---- semantic equivalence of a pushed filter and a written conjunct: z3 over one symbolic row, SQL three-valued logic --------
# values are ints (string constants get distinct codes); LIKE and functions are uninterpreted

class Z3Cond:
    def __init__(self):
        import z3
        self.z3 = z3
        self.cols = {}
        self.strs = {}
        self.like = z3.Function('like', z3.IntSort(), z3.IntSort(), z3.BoolSort())
        self.funcs = {}
        self.queries = 0
        self.solver_s = 0.0

    def col(self, name):
        z3 = self.z3
        if name not in self.cols:
            self.cols[name] = (z3.Bool('null_' + name), z3.Int('val_' + name))
        return self.cols[name]

    def scalar(self, n):
        from mindsdb_sql.parser import ast as A
        z3 = self.z3
        if isinstance(n, A.Identifier):
            return self.col(n.parts[-1].lower())
        if isinstance(n, A.Constant):
            if isinstance(n.value, bool) or not isinstance(n.value, (int, str)):
                raise NotImplementedError(repr(n.value))
            if isinstance(n.value, int):
                return z3.BoolVal(False), z3.IntVal(n.value)
            return z3.BoolVal(False), z3.IntVal(self.strs.setdefault(n.value, 100000 + len(self.strs)))
        if isinstance(n, A.NullConstant):
            return z3.BoolVal(True), z3.IntVal(0)
        if isinstance(n, A.UnaryOperation) and n.op == '-':
            nu, v = self.scalar(n.args[0])
            return nu, -v
        if isinstance(n, A.Function) and len(n.args) == 1 and not n.distinct:
            f = self.funcs.setdefault(n.op.lower(), z3.Function('fn_' + n.op.lower(), z3.IntSort(), z3.IntSort()))
            nu, v = self.scalar(n.args[0])
            return nu, f(v)
        raise NotImplementedError(type(n).__name__)

    def cond(self, n):
        """-> (unknown, true) of a condition"""
        from mindsdb_sql.parser import ast as A
        z3 = self.z3
        if isinstance(n, A.BetweenOperation):
            x, lo, hi = [self.scalar(a) for a in n.args]
            return self._and((z3.Or(x[0], lo[0]), x[1] >= lo[1]), (z3.Or(x[0], hi[0]), x[1] <= hi[1]))
        if isinstance(n, A.UnaryOperation) and n.op.lower() == 'not':
            u, t = self.cond(n.args[0])
            return u, z3.And(z3.Not(u), z3.Not(t))
        if isinstance(n, A.BinaryOperation):
            op = n.op.lower()
            if op == 'and':
                return self._and(self.cond(n.args[0]), self.cond(n.args[1]))
            if op == 'or':
                a, b = self.cond(n.args[0]), self.cond(n.args[1])
                na, nb = (a[0], z3.And(z3.Not(a[0]), z3.Not(a[1]))), (b[0], z3.And(z3.Not(b[0]), z3.Not(b[1])))
                u, f = self._and(na, nb)
                return u, z3.And(z3.Not(u), z3.Not(f))
            if op in ('is', 'is not'):
                x = self.scalar(n.args[0])
                if not isinstance(n.args[1], A.NullConstant):
                    raise NotImplementedError('is')
                return z3.BoolVal(False), (x[0] if op == 'is' else z3.Not(x[0]))
            a, b = self.scalar(n.args[0]), self.scalar(n.args[1])
            u = z3.Or(a[0], b[0])
            rel = {'=': lambda: a[1] == b[1], '!=': lambda: a[1] != b[1], '<>': lambda: a[1] != b[1], '<': lambda: a[1] < b[1],
                   '>': lambda: a[1] > b[1], '<=': lambda: a[1] <= b[1], '>=': lambda: a[1] >= b[1],
                   'like': lambda: self.like(a[1], b[1]), 'not like': lambda: z3.Not(self.like(a[1], b[1]))}.get(op)
            if rel is None:
                raise NotImplementedError(op)
            return u, z3.And(z3.Not(u), rel())
        raise NotImplementedError(type(n).__name__)

    def _and(self, a, b):
        z3 = self.z3
        fa, fb = z3.And(z3.Not(a[0]), z3.Not(a[1])), z3.And(z3.Not(b[0]), z3.Not(b[1]))
        false = z3.Or(fa, fb)
        true = z3.And(z3.Not(a[0]), a[1], z3.Not(b[0]), b[1])
        return z3.And(z3.Not(false), z3.Not(true)), true

    def equivalent(self, n1, n2):
        """'yes' | 'no' | 'unknown': the two conditions have the same SQL truth value on every row"""
        import time
        z3 = self.z3
        try:
            a, b = self.cond(n1), self.cond(n2)
        except NotImplementedError:
            return 'unknown'
        s = z3.Solver()
        s.set('timeout', 20000)
        s.add(z3.Or(a[0] != b[0], a[1] != b[1]))
        t0 = time.perf_counter()
        r = str(s.check())
        self.solver_s += time.perf_counter() - t0
        self.queries += 1
        return {'unsat': 'yes', 'sat': 'no'}.get(r, 'unknown')


ZC = None
STATS = {'z3_queries': 0, 'z3_s': 0.0}


def same_condition(pushed, written):
    """is the pushed filter the written conjunct (same text apart from the table qualifier, or proved equivalent by z3)?"""
    global ZC
    t1 = ' '.join(str(pushed).split()).lower()
    t2 = ' '.join(str(written).split()).lower().replace('t.', '')
    if t1 == t2:
        return 'yes'
    if ZC is None:
        ZC = Z3Cond()
    q0, s0 = ZC.queries, ZC.solver_s
    r = ZC.equivalent(pushed, written)
    STATS['z3_queries'] += ZC.queries - q0
    STATS['z3_s'] += ZC.solver_s - s0
    return r


def _nodes(n, acc=None):
    from mindsdb_sql.parser.ast.base import ASTNode
    acc = [] if acc is None else acc
    if isinstance(n, ASTNode):
        acc.append(n)
        for v in vars(n).values():
            _nodes(v, acc)
    elif isinstance(n, (list, tuple)):
        for v in n:
            _nodes(v, acc)
    return acc


# ---- join kinds between the data tables: which ON conjuncts may be pushed into a table's fetch -------------------------------------------
# every spelling of a join kind the live grammar accepts (read from the productions of `join_type`-like rules at run time, plus other letter
# cases) x ON clauses holding single-table conjuncts x WHERE clauses; the oracle is the property's sentence: a pushed filter is a top-level
# WHERE conjunct on that table, or a conjunct of the ON clause of an INNER / LEFT join on that table - never of a RIGHT / FULL join
ON_FILTERS = ['u.k = 4', 't.k = 4', 'u.k > 1 AND t.z = 2', '4 = u.k', 'u.k IS NOT NULL']
JK_WHERES = ['', ' WHERE m.x = 3', ' WHERE t.a > 1 AND m.x = 3', ' WHERE u.b < 2']


def join_spellings():
    """join kind spellings of the live mindsdb grammar: terminal sequences ending in JOIN of the productions that derive a join kind"""
    from mindsdb_sql.parser.dialects.mindsdb.parser import MindsDBParser
    out = []
    for p in MindsDBParser._grammar.Productions[1:]:
        syms = [str(x) for x in p.prod]
        if syms and syms[-1] == 'JOIN' and all(x.isupper() for x in syms):
            sp = ' '.join(syms)
            if sp not in out and sp not in ('CROSS JOIN', 'OUTER JOIN'):
                out.append(sp)
    extra = [sp.lower() for sp in out if ' ' in sp] + [sp.title() for sp in out if 'OUTER' in sp]
    return out + extra


def join_kind_members():
    out = []
    for jk in join_spellings():
        for onf in ON_FILTERS:
            for wh in JK_WHERES:
                out.append((jk, onf, wh, 'SELECT * FROM int1.tbl1 AS t %s int2.tbl2 AS u ON t.id = u.id AND %s JOIN mindsdb.pred AS m%s' % (jk, onf, wh)))
    return out


def check_join_kind_member(jk, onf, wh, sql):
    """-> (problems, undecided)"""
    from mindsdb_sql import parse_sql
    from mindsdb_sql.parser.ast import BinaryOperation, Parameter as _Param, Select as _Select
    from mindsdb_sql.exceptions import PlanningException
    try:
        plan = PL.plan_sql(sql, **PL.catalog())
    except (PlanningException, NotImplementedError) as e:
        return [], ['rejected: %s' % type(e).__name__]
    except Exception as e:  # noqa
        return ['planning raises an internal error %s: %s' % (type(e).__name__, str(e)[:80])], []
    kind = ' '.join(jk.upper().replace('OUTER', '').split())
    may_push_on = kind in ('JOIN', 'INNER JOIN', 'LEFT JOIN')

    def conjuncts(text):
        n = parse_sql('select 1 from t where ' + text, 'mindsdb').where
        acc = []

        def fl(x):
            if isinstance(x, BinaryOperation) and x.op.lower() == 'and':
                fl(x.args[0]); fl(x.args[1])
            else:
                acc.append(x)
        fl(n)
        return acc

    def only_table(node, alias):
        quals = {str(i.parts[0]).lower() for i in _nodes(node) if type(i).__name__ == 'Identifier' and len(i.parts) > 1}
        return quals == {alias}
    allowed = {'tbl1': [], 'tbl2': []}
    for alias, tab in (('t', 'tbl1'), ('u', 'tbl2')):
        if wh:
            allowed[tab] += [c for c in conjuncts(wh.replace(' WHERE ', '')) if only_table(c, alias)]
        if may_push_on:
            allowed[tab] += [c for c in conjuncts(onf) if only_table(c, alias)]
    problems, undecided = [], []
    for f in PL.fetches(plan):
        tabs = {str(t.parts[-1]).lower() for t in PL.tables_of(f.query)}
        tab = 'tbl1' if 'tbl1' in tabs else 'tbl2' if 'tbl2' in tabs else None
        if tab is None:
            continue
        w = f.query.where
        if w is None:
            continue
        conj = []

        def fl2(x):
            if isinstance(x, BinaryOperation) and x.op.lower() == 'and':
                fl2(x.args[0]); fl2(x.args[1])
            else:
                conj.append(x)
        fl2(w)
        for cnd in conj:
            if any(isinstance(x, _Param) for x in _nodes(cnd)):
                continue
            alias = 't' if tab == 'tbl1' else 'u'
            verdicts = []
            for w_ in allowed[tab]:
                import copy as _copy
                w2 = _copy.deepcopy(w_)
                for i in _nodes(w2):
                    if type(i).__name__ == 'Identifier' and len(i.parts) > 1 and str(i.parts[0]).lower() == alias:
                        i.parts = i.parts[1:]
                verdicts.append(same_condition(cnd, w2))
            if 'yes' not in verdicts:
                txt = ' '.join(str(cnd).split())
                if 'unknown' in verdicts:
                    undecided.append(txt)
                else:
                    problems.append('fetch of %s is filtered by %r, which is neither a top-level WHERE conjunct on that table nor a conjunct of an inner / left join\'s ON clause on it (%s .. ON .. AND %s)'
                                    % (tab, txt, jk, onf))
    return problems, undecided


def depends_on(plan, step_num):
    """numbers of the steps the result of step `step_num` is computed from (transitively)"""
    by_num = {s.step_num: s for s in plan.steps}
    seen, todo = set(), [step_num]
    while todo:
        n = todo.pop()
        if n in seen or n not in by_num:
            continue
        seen.add(n)
        for r in PL.results_in(by_num[n]):
            if isinstance(r.step_num, int):
                todo.append(r.step_num)
    return seen


def leaf(shape, a, b, c, on_clause, using, model_first, frame=0):
    from mindsdb_sql.planner import steps as S
    from mindsdb_sql.exceptions import PlanningException
    F = FRAMES[frame]
    sql, top_atoms, all_atoms, has_or = build(shape, a, b, c, on_clause, using, model_first, frame)
    info = {'sql': sql, 'frame': F['name']}
    problems = []
    try:
        plan = PL.plan_sql(sql, **PL.catalog(target_form=F.get('target_form', 0)))
    except (PlanningException, NotImplementedError) as e:
        info['rejected'] = type(e).__name__
        return problems, info
    except Exception as e:  # noqa
        return ['planning raises an internal error %s: %s' % (type(e).__name__, str(e)[:100])], info
    steps = [s for s, _, _ in PL.all_steps(plan.steps)]
    preds = [s for s in steps if isinstance(s, S.ApplyPredictorStep)]
    fetch = [s for s in steps if isinstance(s, S.FetchDataframeStep)]
    if len(preds) != len(F['models']):
        problems.append('%d apply-predictor steps for %d model reference(s)' % (len(preds), len(F['models'])))
        return problems, info
    got_models = [(str(x.namespace).lower(), [str(q).lower() for q in x.predictor.parts]) for x in preds]
    if got_models != [(ns, parts) for ns, parts in F['models']]:
        problems.append('models applied %r, expected %r' % (got_models, F['models']))
        return problems, info
    p = preds[0]
    # input of the model = result of the data it is joined to: computed from exactly the fetches of the tables written before it
    if frame == 0:
        if len(fetch) != 1 or p.dataframe.step_num != fetch[0].step_num:
            problems.append('model input is not the fetched table (dataframe=%r, fetches=%d)' % (p.dataframe, len(fetch)))
    else:
        by_num = {s_.step_num: s_ for s_ in plan.steps}
        deps = depends_on(plan, p.dataframe.step_num) if isinstance(p.dataframe.step_num, int) else set()
        dep_tables = set()
        for n in deps:
            st = by_num[n]
            if isinstance(st, S.FetchDataframeStep):
                dep_tables |= {str(t.parts[-1]).lower() for t in PL.tables_of(st.query)}
            if isinstance(st, S.ApplyPredictorStep):
                problems.append('the input of the first model depends on a model step')
        if dep_tables != F['tables']:
            problems.append('model input is computed from tables %s, expected %s' % (sorted(dep_tables), sorted(F['tables'])))
        if len(preds) == 2:
            deps2 = depends_on(plan, preds[1].dataframe.step_num) if isinstance(preds[1].dataframe.step_num, int) else set()
            if p.step_num not in deps2 and not (deps2 & deps):
                problems.append('the input of the second model is unrelated to the data and the first model')
            if preds[1].row_dict:
                problems.append('second model got arguments %r although no condition mentions it' % (preds[1].row_dict,))
    # model arguments = exactly the top-level  model.col = const  conjuncts
    want_rd = {}
    for at in top_atoms:
        if at[1] == 'model-eq':
            want_rd[at[3]] = at[4]
    got_rd = dict(p.row_dict or {})
    if got_rd != want_rd:
        problems.append('model arguments %r, expected %r (top-level model.col = const conjuncts)' % (got_rd, want_rd))
    for at in all_atoms:
        if at[1].startswith('table') and at[3] is not None and at[3] in got_rd:
            problems.append('table column %s became a model argument' % at[3])
    # filters pushed into the fetch: each must be a top-level conjunct on that table only
    from mindsdb_sql import parse_sql
    allowed = []
    for at in top_atoms:
        if at[1] == 'table':
            allowed.append(parse_sql('select 1 from t where ' + at[0], 'mindsdb').where)
    if F.get('inner'):
        allowed.append(parse_sql('select 1 from t where ' + F['inner'], 'mindsdb').where)
    from mindsdb_sql.parser.ast import Parameter as _Param, Select as _Select
    for f in fetch:
        w = f.query.where
        if isinstance(f.query.from_table, _Select) and w is None:
            w = f.query.from_table.where
        on_t = 'tbl1' in {str(t.parts[-1]).lower() for t in PL.tables_of(f.query)}
        conj = []

        def flat(n):
            from mindsdb_sql.parser.ast import BinaryOperation
            if isinstance(n, BinaryOperation) and n.op.lower() == 'and':
                flat(n.args[0]); flat(n.args[1])
            elif n is not None:
                conj.append(n)
        flat(w)
        for cnd in conj:
            if any(isinstance(x, _Param) for x in _nodes(cnd)):
                continue        # join-key filter fed by an earlier step: C08's subject
            verdicts = [same_condition(cnd, w_) for w_ in (allowed if on_t else [])]
            if 'yes' not in verdicts:
                txt = ' '.join(str(cnd).split()).lower()
                if 'unknown' in verdicts:
                    info.setdefault('undecided', []).append(txt)
                else:
                    problems.append('fetch filter %r is not (equivalent to) a top-level conjunct of WHERE on that table (top-level table conjuncts: %s)'
                                    % (txt, sorted(str(x) for x in allowed)))
        if 'm.' in str(f.query).lower() or ' x = 3' in str(f.query).lower():
            problems.append('a model condition is sent to the integration: %s' % f.query)
    # USING options reach the model unchanged apart from key case
    if using:
        want_params = USINGS[using_variant(shape, a, b, c)][1]
        if p.params != want_params:
            problems.append('model params %r, expected %r (USING %s)' % (p.params, want_params, USINGS[using_variant(shape, a, b, c)][0]))
    elif p.params:
        problems.append('model params %r without USING' % (p.params,))
    # ON equalities between model and table columns -> column mapping
    if on_clause:
        cm = p.columns_map or {}
        if list(cm.keys()) != ['id'] or [str(x).lower() for x in cm['id'].parts] not in (['t', 'id'], ['tbl1', 'id']):
            problems.append('columns_map %r, expected {id: t.id}' % ({k: str(v) for k, v in cm.items()},))
    # the outer query: top-level model arguments neutralised; everything else still filters
    outer = [s for s in steps if isinstance(s, (S.QueryStep,))]
    if outer:
        tmpl = SHAPES[shape][0]
        sl = {'A': ATOMS[a], 'B': ATOMS[b], 'C': ATOMS[c]}
        exp_where = tmpl.format(**{k: ('0 = 0' if (v in top_atoms and v[1] == 'model-eq') else v[0]) for k, v in sl.items()})
        expected = parse_sql('select 1 from t where ' + exp_where, 'mindsdb').where
        got = outer[-1].query.where
        global ZC
        if ZC is None:
            ZC = Z3Cond()
        q0, s0 = ZC.queries, ZC.solver_s
        v = 'no' if got is None else ZC.equivalent(got, expected)
        STATS['z3_queries'] += ZC.queries - q0
        STATS['z3_s'] += ZC.solver_s - s0
        if v == 'no':
            problems.append('outer filter %r is not equivalent to the written WHERE with the consumed model arguments neutralised (%s)' % (str(got), exp_where))
        elif v == 'unknown':
            info.setdefault('undecided', []).append('outer: ' + str(got))
    info['plan'] = [repr(s)[:200] for s in plan.steps]
    return problems, info


def step(shape, a, b, c, on_clause, using, model_first, frame=0):
    shape, a, b, c = PL.ci(shape, NS - 1), PL.ci(a, NA - 1), PL.ci(b, NA - 1), PL.ci(c, NA - 1)
    on_clause, using, model_first = PL.cb(on_clause), PL.cb(using), PL.cb(model_first)
    with PL.NoTracing():
        pr, info = leaf(shape, a, b, c, on_clause, using, model_first, frame)
    return len(pr) + len(info.get('undecided', ()))


FRAME_SHAPES = [i for i, (t, _) in enumerate(SHAPES) if '{C}' not in t]      # shapes over the slots A, B only


def step_frame(frame, k, a, b, on_clause, using):
    k, a, b = PL.ci(k, len(FRAME_SHAPES) - 1), PL.ci(a, NA - 1), PL.ci(b, NA - 1)
    on_clause, using = PL.cb(on_clause), PL.cb(using)
    c = [x for x in range(NA) if x not in (a, b)][0]
    with PL.NoTracing():
        pr, info = leaf(FRAME_SHAPES[k], a, b, c, on_clause, using, False, frame)
    return len(pr) + len(info.get('undecided', ()))


def mapped_column_family():
    """-> (leaves run, problems): the extra atoms (a model column mapped by ON and set by WHERE) x every other atom x the two-slot shapes x ON present x
    both join orders x the frames"""
    problems, n = [], 0
    two_slot = [i for i, (t_, top) in enumerate(SHAPES) if '{C}' not in t_]
    for xa in range(NA, len(ATOMS)):
        for other in range(NA):
            for sh in two_slot:
                for a, b in ((xa, other), (other, xa)):
                    for model_first in (False, True):
                        for frame in (0, 2, 6):
                            if frame and model_first:
                                continue
                            n += 1
                            c = [x for x in range(NA) if x not in (a, b)][0]
                            try:
                                pr, info = leaf(sh, a, b, c, True, False, model_first, frame)
                            except Exception as e:  # noqa
                                pr, info = ['check crashed %r' % e], {}
                            for p_ in pr:
                                problems.append('%s: %s' % (info.get('sql'), p_))
    return n, problems
