"""C14 — table-model joins.  Symbolic: WHERE formula shape and atom choices, ON clause presence, USING option, join order.
Leaf: real parse + plan; oracle = independent syntactic spec written from the property text."""
from harness import planlib as PL

# atoms: (sql, kind, table alias, column, constant)
ATOMS = [
    ("t.a > 5", 'table', 't', 'a', 5),
    ("t.b = 2", 'table', 't', 'b', 2),
    ("m.x = 3", 'model-eq', 'm', 'x', 3),
    ("m.y > 4", 'model-other', 'm', 'y', 4),
    ("t.c = t.d", 'table-colcol', 't', None, None),
    ("upper(t.s) = 'X'", 'table-func', 't', None, None),
    ("m.z = 'v'", 'model-eq', 'm', 'z', 'v'),
    ("t.e BETWEEN 1 AND 9", 'table', 't', 'e', None),
]
# shapes over atom slots A B C: (template, which slots are top-level conjuncts)
SHAPES = [
    ("{A}", 'A'),
    ("{A} AND {B}", 'AB'),
    ("{A} AND {B} AND {C}", 'ABC'),
    ("{A} OR {B}", ''),
    ("NOT {A}", ''),
    ("{A} AND NOT {B}", 'A'),
    ("{A} AND ({B} OR {C})", 'A'),
    ("NOT ({A} AND {B})", ''),
    ("({A} AND {B}) OR {C}", ''),
    ("{A} AND ({B} AND {C})", 'ABC'),
]
NA, NS = len(ATOMS), len(SHAPES)


def build(shape, a, b, c, on_clause, using, model_first):
    tmpl, top = SHAPES[shape]
    slots = {'A': ATOMS[a], 'B': ATOMS[b], 'C': ATOMS[c]}
    used = [k for k in 'ABC' if '{%s}' % k in tmpl]
    where = tmpl.format(A=slots['A'][0], B=slots['B'][0], C=slots['C'][0])
    on = ' ON t.id = m.id' if on_clause else ''
    if model_first:
        frm = 'mindsdb.pred AS m JOIN int1.tbl1 AS t' + on
    else:
        frm = 'int1.tbl1 AS t JOIN mindsdb.pred AS m' + on
    us = ' USING Opt1=7, m.opt2=\'q\'' if using else ''
    sql = 'SELECT t.a, m.p FROM %s WHERE %s%s' % (frm, where, us)
    top_atoms = [slots[k] for k in used if k in top]
    all_atoms = [slots[k] for k in used]
    has_or = ' OR ' in tmpl
    return sql, top_atoms, all_atoms, has_or


def leaf(shape, a, b, c, on_clause, using, model_first):
    from mindsdb_sql.planner import steps as S
    from mindsdb_sql.exceptions import PlanningException
    sql, top_atoms, all_atoms, has_or = build(shape, a, b, c, on_clause, using, model_first)
    info = {'sql': sql}
    problems = []
    try:
        plan = PL.plan_sql(sql, **PL.catalog())
    except (PlanningException, NotImplementedError) as e:
        info['rejected'] = type(e).__name__
        return problems, info
    except Exception as e:  # noqa
        return ['planning raises an internal error %s: %s' % (type(e).__name__, str(e)[:100])], info
    steps = [s for s, _, _ in PL.all_steps(plan.steps)]
    preds = [s for s in steps if isinstance(s, S.ApplyPredictorStep)]
    fetch = [s for s in steps if isinstance(s, S.FetchDataframeStep)]
    if len(preds) != 1:
        problems.append('%d apply-predictor steps for one model reference' % len(preds))
        return problems, info
    p = preds[0]
    # input of the model = result of the data it is joined to
    if len(fetch) != 1 or p.dataframe.step_num != fetch[0].step_num:
        problems.append('model input is not the fetched table (dataframe=%r, fetches=%d)' % (p.dataframe, len(fetch)))
    # model arguments = exactly the top-level  model.col = const  conjuncts
    want_rd = {}
    for at in top_atoms:
        if at[1] == 'model-eq':
            want_rd[at[3]] = at[4]
    got_rd = dict(p.row_dict or {})
    if got_rd != want_rd:
        problems.append('model arguments %r, expected %r (top-level model.col = const conjuncts)' % (got_rd, want_rd))
    for at in all_atoms:
        if at[1].startswith('table') and at[3] is not None and at[3] in got_rd:
            problems.append('table column %s became a model argument' % at[3])
    # filters pushed into the fetch: each must be a top-level conjunct on that table only
    allowed = set()
    for at in top_atoms:
        if at[1] == 'table':
            allowed.add(' '.join(at[0].replace('t.', '').split()).lower())
    for f in fetch:
        w = f.query.where
        conj = []

        def flat(n):
            from mindsdb_sql.parser.ast import BinaryOperation
            if isinstance(n, BinaryOperation) and n.op.lower() == 'and':
                flat(n.args[0]); flat(n.args[1])
            elif n is not None:
                conj.append(n)
        flat(w)
        for cnd in conj:
            txt = ' '.join(str(cnd).split()).lower()
            if txt not in allowed:
                problems.append('fetch filter %r is not a top-level conjunct of WHERE on that table (allowed: %s)' % (txt, sorted(allowed)))
        if 'm.' in str(f.query).lower() or ' x = 3' in str(f.query).lower():
            problems.append('a model condition is sent to the integration: %s' % f.query)
    # USING options reach the model unchanged apart from key case
    if using:
        if p.params != {'opt1': 7, 'opt2': 'q'}:
            problems.append('model params %r, expected {opt1: 7, opt2: q}' % (p.params,))
    elif p.params:
        problems.append('model params %r without USING' % (p.params,))
    # ON equalities between model and table columns -> column mapping
    if on_clause:
        cm = p.columns_map or {}
        if list(cm.keys()) != ['id'] or [str(x).lower() for x in cm['id'].parts] not in (['t', 'id'], ['tbl1', 'id']):
            problems.append('columns_map %r, expected {id: t.id}' % ({k: str(v) for k, v in cm.items()},))
    # the outer query: top-level model arguments neutralised; everything else still filters
    outer = [s for s in steps if isinstance(s, (S.QueryStep,))]
    if outer:
        otxt = ' '.join(str(outer[-1].query).split()).lower()
        for at in top_atoms:
            if at[1] == 'model-eq' and (' %s = ' % at[3]) in otxt and ('0 = 0' not in otxt and '0=0' not in otxt):
                problems.append('model argument %s still filters the outer result: %s' % (at[3], otxt))
        for at in all_atoms:
            if at not in top_atoms or at[1] != 'model-eq':
                key = at[0].split()[0].split('.')[-1].replace('upper(', '')
                if at[1] != 'model-eq' and key.strip(')').lower() not in otxt:
                    problems.append('condition %r no longer filters the outer result: %s' % (at[0], otxt))
                if at[1] == 'model-eq' and at not in top_atoms and (' %s = ' % at[3]) not in otxt and ('.%s = ' % at[3]) not in otxt:
                    problems.append('non-top-level model condition %r was neutralised in the outer query: %s' % (at[0], otxt))
    info['plan'] = [repr(s)[:200] for s in plan.steps]
    return problems, info


def step(shape, a, b, c, on_clause, using, model_first):
    shape, a, b, c = PL.ci(shape, NS - 1), PL.ci(a, NA - 1), PL.ci(b, NA - 1), PL.ci(c, NA - 1)
    on_clause, using, model_first = PL.cb(on_clause), PL.cb(using), PL.cb(model_first)
    with PL.NoTracing():
        pr, info = leaf(shape, a, b, c, on_clause, using, model_first)
    return len(pr)
