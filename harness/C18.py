"""C18 — independent copies, lawful equality (CrossHair, per-node-kind steps; see harness/c18lib.py)."""
import os, json
from engines.common import Run, ch_obligations, VERIF

T_COPY = '''
def copy_{name}(full: bool, n1: int, n2: int, mut: int, deep: bool) -> int:
    """
    pre: 1 <= n1 <= {nmax}
    pre: n2 == n1
    pre: -1 <= mut < {mutmax}
    pre: deep == {deep} and full == {full}
    post: _ == 0
    """
    return len(copy_step('{cls}', full, n1, n2, mut, deep))


def copy_{name}_reach(full: bool, n1: int, n2: int, mut: int, deep: bool) -> int:
    """
    pre: 1 <= n1 <= {nmax}
    pre: n2 == n1
    pre: -1 <= mut < {mutmax}
    pre: deep == {deep} and full == {full}
    post: False
    """
    return len(copy_step('{cls}', full, n1, n2, mut, deep))


def eq_{cls}(a0: bool, a1: bool, a2: bool, n_a: int, c0: bool, c1: bool, c2: bool, n_b: int) -> int:
    """
    pre: 0 <= n_a <= 1 and 0 <= n_b <= 1
    post: _ == 0
    """
    return len(eq_step('{cls}', (a0, a1, a2), n_a, (c0, c1, c2), n_b))
'''

T_PLAN = '''
def plan_laws(kind: int, i: int, j: int, b0: bool, b1: bool) -> int:
    """
    pre: 0 <= kind < 5
    pre: 0 <= i < 4 and 0 <= j < 4
    post: _ == 0
    """
    return len(plan_step(kind, i, j, (b0, b1)))


def plan_laws_reach(kind: int, i: int, j: int, b0: bool, b1: bool) -> int:
    """
    pre: 0 <= kind < 5
    pre: 0 <= i < 4 and 0 <= j < 4
    post: False
    """
    return len(plan_step(kind, i, j, (b0, b1)))
'''


def gen(tier):
    from harness import c18lib
    d = os.path.join(VERIF, '.scratch')
    os.makedirs(d, exist_ok=True)
    path = os.path.join(d, 'gen_ch_C18.py')
    with open(path, 'w') as f:
        f.write('from harness.c18lib import copy_step, eq_step, plan_step\n')
        names = []
        for cls in c18lib.ALL:
            for deep in (True, False):
                for full in (True, False):
                    name = '%s_%s_%s' % (cls, 'deep' if deep else 'copy', 'full' if full else 'min')
                    body = T_COPY.format(cls=cls, name=name, nmax=2 if tier == 'quick' else 3, mutmax=520, deep=deep, full=full)
                    if names and names[-1][1] == cls:
                        body = body[:body.index('def eq_')]
                    f.write(body)
                    names.append((name, cls))
        f.write(T_PLAN)
    return path, names


def r_copy(cls):
    def replay(args):
        from harness import c18lib
        try:
            pr = c18lib.copy_step(cls, args['full'], args['n1'], args['n2'], args['mut'], args['deep'])
        except Exception as e:  # noqa
            pr = ['raised %r' % e]
        import re
        key = 'copy:%s:%s' % (cls, re.sub(r'\(.*', '', pr[0])[:60] if pr else '')
        return bool(pr), {'class': cls, 'args': args, 'problems': pr}, key, 'copy of %s: %s' % (cls, pr[0] if pr else '')
    return replay


def r_eq(cls):
    def replay(args):
        from harness import c18lib
        try:
            pr = c18lib.eq_step(cls, tuple(args['a%d' % i] for i in range(3)), args['n_a'], tuple(args['c%d' % i] for i in range(3)), args['n_b'])
        except Exception as e:  # noqa
            pr = ['raised %r' % e]
        key = 'eq:%s:%s' % (cls, pr[0][:60] if pr else '')
        return bool(pr), {'class': cls, 'args': args, 'problems': pr}, key, 'equality of %s: %s' % (cls, pr[0] if pr else '')
    return replay


def r_plan(args):
    from harness import c18lib
    try:
        pr = c18lib.plan_step(args['kind'], args['i'], args['j'], (args['b0'], args['b1']))
    except Exception as e:  # noqa
        pr = ['raised %r' % e]
    key = 'plan-laws:%s' % (pr[0][:60] if pr else '')
    return bool(pr), {'args': args, 'problems': pr}, key, 'plan/step/result equality: %s' % (pr[0] if pr else '')


def specs_for(tier):
    path, classes = gen(tier)
    specs = []
    for n, c in classes:
        specs.append(dict(fn='copy_%s' % n, twin='copy_%s_reach' % n, replay=r_copy(c)))
    for c in sorted(set(c for n, c in classes)):
        specs.append(dict(fn='eq_%s' % c, twin=None, replay=r_eq(c)))
    specs.append(dict(fn='plan_laws', twin='plan_laws_reach', replay=r_plan))
    return path, specs, classes


def run(tier):
    run = Run('C18', tier)
    path, specs, classes = specs_for(tier)
    run.bounds = {'list_length_max': 1 if tier == 'quick' else 2, 'mutations': 'every single-attribute mutation found by reflection on the copy (symbolic index)',
                  'step_numbers': '0..3'}
    run.functions = ['ASTNode.copy / copy.deepcopy / Identifier.__copy__/__deepcopy__', 'ASTNode.__eq__', '<node>.to_string/to_tree',
                     'PlanStep.__eq__', 'QueryPlan.__eq__/add_step', 'Result.__eq__/__hash__']
    run.assumptions = ['one node kind per step (children are leaf markers); nested kinds follow by induction since deepcopy recurses uniformly',
                       'trees that went through the planner (extra attributes) are covered by the attribute-set comparison on builder instances only']
    ch_obligations(run, path, specs, cond_to=400 if tier == 'quick' else 1200, path_to=30)
    run.extra['node_classes'] = sorted(set(c for n, c in classes))
    # ---- parsed-tree family (concrete, stated): every distinct tree the parsers build for the grammar-derived sentences
    import concurrent.futures as cf, re
    from engines.common import NCPU
    from harness import c18lib
    dialects = ('mindsdb', 'mysql', 'sqlite')
    stride = 4 if tier == 'quick' else 1          # quick: every 4th mindsdb tree (all mysql / sqlite trees)
    jobs = []
    for d in dialects:
        n = NCPU * (stride if d == 'mindsdb' else 1)
        jobs += [(d, k, n) for k in range(NCPU)]
    with cf.ProcessPoolExecutor(max_workers=NCPU) as ex:
        res = list(ex.map(c18lib.parsed_shard, jobs))
    for d in dialects:
        cnt = sum(r[1] for r in res if r[0] == d)
        total = max(r[2] for r in res if r[0] == d)
        bad = [b for r in res if r[0] == d for b in r[3]]
        run.validated += cnt
        for sql, cls, pr in bad:
            sym = re.sub(r'\d+', 'N', pr[0])[:80]
            run.counterexample('parsed-copy:%s:%s' % (cls, sym), '%s: copy of the tree parsed from %r: %s' % (d, sql[:120], pr[0]),
                               {'dialect': d, 'sql': sql, 'class': cls, 'problems': pr}, True)
        run.ob('parsed-trees:%s' % d, 'counterexample' if bad else 'discharged', '%d of %d distinct parsed trees copied with copy() and deepcopy, every single-attribute mutation of the copy tried' % (cnt, total))
    # ---- real plan steps and their class-cast twins (concrete, stated)
    try:
        n, pr, npool, kinds = c18lib.step_cast_laws()
        run.validated += n
        for p_ in pr[:3]:
            run.counterexample('step-equality:%s' % re.sub(r'[^A-Za-z ]+', '', p_.split(':')[0])[:60], p_[:400], {'step_laws': p_[:600]}, True)
        run.ob('real-steps:equality-laws:%d steps of %d classes' % (npool, len(kinds)), 'counterexample' if pr else 'discharged', '%d comparisons' % n)
        run.extra['real_step_classes'] = kinds
    except Exception as e:  # noqa
        run.error('step laws crashed: %r' % e)
    # ---- constants of every value kind, bare and inside trees / steps / plans (concrete, stated)
    try:
        n, pr, nv, forms = c18lib.value_laws()
        run.validated += n
        seen_cls = set()
        for p_ in pr:
            cls_ = re.sub(r"holding .*?( is | prints | compare |: ==)", r'holding # \1', p_)[:90]
            cls_ = re.sub(r'[^A-Za-z# =()-]+', '', cls_)
            if cls_ in seen_cls:
                continue
            seen_cls.add(cls_)
            if len(seen_cls) <= 6:
                run.counterexample('value-equality:%s' % cls_, p_[:400], {'value_laws': p_[:600]}, True)
        run.ob('value-kinds:equality-and-copy-laws:%d values x %d forms' % (nv, len(forms)), 'counterexample' if pr else 'discharged', '%d comparisons, %d problems' % (n, len(pr)))
    except Exception as e:  # noqa
        import traceback
        run.error('value laws crashed: %r %s' % (e, traceback.format_exc()[-300:]))
    run.assumptions.append('parsed-tree family is concrete execution over trees parsed from grammar-derived sentences (production pairs); quick tier takes every 4th mindsdb tree')
    run.finish()


def replay(path):
    r = json.load(open(path))
    print(json.dumps(r, indent=1))
    h = r['replay']['harness']
    _, specs, _ = specs_for('quick')
    for s in specs:
        if s['fn'] == h:
            rep, info, key, what = s['replay'](r['replay']['args'])
            print('native replay now: reproduced=%s %s' % (rep, json.dumps(info, default=repr)))
            return 1 if rep else 0
    return 2
