"""CrossHair harness for C05: the trailing strip in the real parse_sql removes only a suffix of whitespace / ';'."""
import mindsdb_sql
from mindsdb_sql.parser.ast.select.select import Select


class _Lx:
    def __init__(self, rec):
        self.rec = rec

    def tokenize(self, text):
        self.rec.append(text)
        return iter(())


class _Pr:
    def parse(self, tokens):
        return Select(targets=[])


def _stripped(sql):
    rec = []
    mindsdb_sql.get_lexer_parser = lambda d: (_Lx(rec), _Pr())
    mindsdb_sql.parse_sql(sql, 'mindsdb')
    return rec[0]


def strip_unit(sql: str) -> bool:
    """
    pre: len(sql) <= 5
    post: _
    """
    text = _stripped(sql)
    if not sql.startswith(text):
        return False
    for c in sql[len(text):]:
        if not (c.isspace() or c == ';'):
            return False
    return True


def strip_unit_reach(sql: str) -> bool:
    """
    pre: len(sql) <= 5
    post: False
    """
    return len(_stripped(sql)) >= 0
