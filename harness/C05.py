"""C05 — accepted => the whole token stream is one grammar sentence.
SYMTOK (spaces i, iii) through the real parse_sql tail, Earley oracle on the live grammar; LRZ3 table-level
queries; CH unit on the trailing strip."""
import os, json, time, random
from engines.common import Run, ch_obligations, VERIF, NCPU
from engines import sweep as SW

HARNESS = os.path.join(VERIF, 'harness', 'ch_C05.py')


def to_sql(dialect, names, linenos=None, spelling=None):
    from engines.symtok import representatives
    L, P = SW.dialect_classes(dialect)
    rep, lexemes = representatives(L, spelling)
    if not linenos:
        return ' '.join(lexemes.get(n, n) for n in names)
    out, line = '', linenos[0]
    for n, ln in zip(names, linenos):
        out += ('\n' * (ln - line) if ln > line else (' ' if out else '')) + lexemes.get(n, n)
        line = ln
    return out


def replay_finding(f):
    """natively: text built from one lexeme per token type -> real lexer must give the same types -> real parse_sql"""
    from mindsdb_sql import parse_sql
    from mindsdb_sql.exceptions import ParsingException
    from engines.earley import Earley
    d = f['dialect']
    L, P = SW.dialect_classes(d)
    sql = SW.rebuild_text(d, f) if f.get('base_sql') else to_sql(d, f.get('instance') or f['types'], f.get('linenos'))
    try:
        lexed = [t.type for t in L().tokenize(sql)]
    except Exception as e:  # noqa
        return False, {'sql': sql, 'lex_error': repr(e)}
    info = {'sql': sql, 'dialect': d, 'token_types': lexed}
    if lexed != list(f.get('instance') or f['types']):
        info['note'] = 'text does not lex to the path\'s token types'
        return False, info
    try:
        ast = parse_sql(sql, d)
        info['result'] = repr(ast)[:200]
        accepted = ast is not None
    except ParsingException as e:
        info['result'] = 'ParsingException'
        accepted = False
    except Exception as e:  # noqa
        info['result'] = 'internal %r' % e
        return f['kind'] == 'internal-error', info
    if f['kind'] in ('accept-non-sentence', 'accept-with-unread-tokens', 'accept-with-skipped-token'):
        sentence = Earley(P).recognise(lexed)
        info['earley_sentence'] = sentence
        return accepted and not sentence, info
    if f['kind'] == 'none-returned':
        return ast is None, info
    return False, info


def run(tier):
    run = Run('C05', tier)
    KS = (1, 2, 3) if tier == 'quick' else (1, 2, 3, 4)
    run.bounds = {'space_i_token_counts': list(KS), 'alphabet': 'every terminal of the dialect grammar',
                  'space_iii': 'corpus statement +/- one symbolic token (insert/substitute/delete at every position), symbolic 1-token prefix or suffix (thorough: up to 2)'}
    run.functions = ['mindsdb_sql.parse_sql (real, lexer replaced by the symbolic token stream)', 'sly.yacc.Parser.parse',
                     '<Parser>.error of each dialect', 'ErrorHandling.process/error_location/make_suggestion/query_is_valid',
                     'every grammar action reached', 'live _lrtable.lr_action/lr_goto/defaulted_states', 'live _grammar.Productions (Earley oracle)']
    run.assumptions = ['token values are one representative lexeme per terminal (value-dependence of grammar actions is C02/C04)',
                       'streams longer than K outside the seeded neighbourhoods are outside the claim',
                       'text -> tokens is the lexer\'s job (C01/C02 LEXZ3); this check starts from token streams']
    covered_total, space_total = 0, 0
    # ---- space (i)
    for d in SW.DIALECTS:
        for K in KS:
            res, size = SW.sweep_space1(d, K)
            run.add_stats({'paths': res['paths'], 'solver_calls': res['solver_calls'], 'solver_s': res['solver_s']})
            covered_total += res['covered']; space_total += size
            name = 'space-i:%s:K=%d' % (d, K)
            if res['covered'] != size:
                run.error('%s: paths cover %d of %d streams (explorer not exhaustive)' % (name, res['covered'], size))
            handle(run, name, res)
            for s in res['samples'][:2]:
                run.sample({'space': name, **s})
    # ---- space (iii)
    corpus = SW.harvest_corpus()
    rnd = random.Random(run.seed)
    for d in SW.DIALECTS:
        stmts = list(corpus[d])
        rnd.shuffle(stmts)
        if tier == 'quick':
            stmts = stmts[:45]
            affix = ((0, 1), (1, 0))
        else:
            affix = ((0, 1), (1, 0), (0, 2), (2, 0), (1, 1))
        res, _ = SW.sweep_space3(d, stmts, affix=affix)
        run.add_stats({'paths': res['paths'], 'solver_calls': res['solver_calls'], 'solver_s': res['solver_s']})
        covered_total += res['covered']
        name = 'space-iii:%s:%d-statements' % (d, len(stmts))
        handle(run, name, res)
        for s in res['samples'][:1]:
            run.sample({'space': name, **s})
    run.extra['streams_covered'] = covered_total
    run.extra['space_i_size'] = space_total
    # ---- LRZ3
    from engines.lrz3 import Tables
    for d in SW.DIALECTS:
        L, P = SW.dialect_classes(d)
        T = Tables(P)
        for qname, q in (('no-action-on-error-token', T.q_error_terminal_has_action),
                         ('no-production-mentions-error', T.q_production_mentions_error),
                         ('defaulted-states-are-single-reductions', T.q_defaulted_not_single_reduce)):
            r, m = q()
            name = 'lrz3:%s:%s' % (d, qname)
            if r == 'unsat':
                run.ob(name, 'discharged', 'unsat over %d states' % T.nstates)
            elif r == 'sat':
                # table-level fact: replay = read the live table at the model's state
                st = m[T.S].as_long() if m[T.S] is not None else None
                run.counterexample('lrz3:%s:%s' % (d, qname), 'LALR table of %s violates %s at state %s' % (d, qname, st),
                                   {'model': str(m)}, True)
                run.ob(name, 'counterexample', str(m))
            else:
                run.ob(name, 'inconclusive', r)
        run.add_stats({'solver_calls': T.queries, 'solver_s': T.solver_s})
    # ---- whole texts after a history (concrete, stated): every corpus statement is parsed, then its layout variants (one blank between
    # two tokens replaced by a line break / by a line comment that ends at a line break or swallows the rest) are parsed in the same process;
    # each verdict must be the one the Earley oracle gives for that variant's OWN token stream
    try:
        layout_history(run, tier)
    except Exception as e:  # noqa
        run.error('layout-history part crashed: %r' % e)
    # ---- CH strip unit
    def replay_strip(args):
        import importlib, mindsdb_sql
        sql = args['sql']
        saved = mindsdb_sql.get_lexer_parser
        try:
            text = importlib.import_module('harness.ch_C05')._stripped(sql)      # the text the REAL parse_sql hands to the lexer
        finally:
            mindsdb_sql.get_lexer_parser = saved
        ok = sql.startswith(text) and all(c.isspace() or c == ';' for c in sql[len(text):])
        return (not ok), {'sql': sql, 'stripped': text}, 'strip', 'parse_sql strips more than trailing whitespace/semicolons from %r' % sql
    ch_obligations(run, HARNESS, [dict(fn='strip_unit', twin='strip_unit_reach', replay=replay_strip)], cond_to=120)
    try:
        from harness import c05skip
        c05skip.add(run, tier)
        c05skip.add_keyword_texts(run, tier)
        run.functions.append('<Lexer>.tokenize with the live ignore_* rules (LEXZ3 translation of each rule; real lexer on every text)')
        run.assumptions.append('what a lexer may skip between tokens: blanks, `;`, `-- ..` to the end of the line, `/* .. */` to the first `*/` (reference written from the comment syntax); '
                               'z3 proposes members of each ignore rule outside that reference (<= 12 printable characters, 3 per rule), the real lexer decides on accepted statements + member, '
                               'and on 40 statement tails (`; comment junk comment` ..) x 5 statements')
    except Exception as e:  # noqa
        import traceback
        run.error('lexer-skip part crashed: %r %s' % (e, traceback.format_exc()[-300:]))
    run.finish()


def _verdict(sql, d, L, P, earley):
    """(accepted by the real parse_sql, sentence according to the oracle on the real lexer's tokens)"""
    from mindsdb_sql import parse_sql
    import re as _re
    try:
        types = [t.type for t in L().tokenize(_re.sub(r'[\s;]+$', '', sql))]
        sentence = earley.recognise(types)
    except Exception:  # noqa  (illegal character: not a sentence)
        sentence = False
    try:
        accepted = parse_sql(sql, d) is not None
    except Exception:  # noqa
        accepted = False
    return accepted, sentence


def _layout_job(d):
    import warnings
    warnings.filterwarnings('ignore')
    from engines.earley import Earley
    L, P = SW.dialect_classes(d)
    earley = Earley(P)
    corpus = SW.harvest_corpus()[d]
    n, bad = 0, []
    for sql in corpus[:120]:
        if len(sql) > 300:
            continue
        try:
            toks = list(L().tokenize(sql))
        except Exception:  # noqa
            continue
        a0, s0 = _verdict(sql, d, L, P, earley)          # history: the statement itself first
        n += 1
        hist = [sql]
        if a0 and not s0:
            bad.append(([sql], sql, 'accepted but not a sentence'))
        gaps = [(toks[i].end, toks[i + 1].index) for i in range(len(toks) - 1) if sql[toks[i].end:toks[i + 1].index] == ' '][:14]
        for lo, hi in gaps:
            for filler in ('\n', ' -- c\n', ' -- c '):
                var = sql[:lo] + filler + sql[hi:]
                a, s_ = _verdict(var, d, L, P, earley)
                n += 1
                hist.append(var)
                if a and not s_:
                    bad.append((list(hist), var, 'accepted after the statement it is a layout variant of (and earlier variants), but its own token stream is not a sentence'))
    return d, n, bad


def replay_history(hist, d):
    """the same calls, in the same order, in a fresh interpreter: is the last text accepted?"""
    import subprocess, sys as _sys
    code = ("import sys, warnings; warnings.filterwarnings('ignore')\nfrom mindsdb_sql import parse_sql\n"
            "for q in %r:\n    try:\n        parse_sql(q, %r); r = 'accepted'\n    except Exception as e:\n        r = 'rejected'\nprint('LAST', r)\n") % (list(hist), d)
    o = subprocess.run([_sys.executable, '-c', code], capture_output=True, text=True, timeout=120)
    return 'LAST accepted' in o.stdout


def layout_history(run, tier):
    import multiprocessing as mp
    with mp.get_context('fork').Pool(3) as pool:
        res = pool.map(_layout_job, list(SW.DIALECTS))
    for d, n, bad in res:
        run.validated += n
        for hist, var, why in bad[:3]:
            rep = replay_history(hist, d)
            run.counterexample('accept-after-history:%s:%s' % (d, ' '.join(var.split())[:80]), '%s: parse_sql(%r) after parse_sql of %r: %s' % (d, var, hist[:-1][-3:], why),
                               {'history': hist, 'dialect': d}, rep)
        run.ob('layout-after-history:%s' % d, 'counterexample' if bad else 'discharged', '%d texts (statement, then its layout variants)' % n)


def handle(run, name, res):
    bad = [f for f in res['findings'] if f['kind'] in ('accept-non-sentence', 'accept-with-unread-tokens',
                                                         'accept-with-skipped-token', 'none-returned', 'non-tree-result')]
    other = [f for f in res['findings'] if f not in bad]
    if other:
        run.extra.setdefault('internal_errors_seen_reported_under_C02', 0)
        run.extra['internal_errors_seen_reported_under_C02'] += len(other)
    if not bad:
        run.ob(name, 'discharged', 'paths=%d streams=%d accept=%d reject=%d' % (res['paths'], res['covered'], res.get('accept', 0), res.get('reject', 0)))
        return
    n = 0
    for f in bad[:20]:
        rep, info = replay_finding(f)
        key = '%s:%s:%s' % (f['kind'], f['dialect'], ' '.join(f['types']))
        run.counterexample(key, '%s accepted: %s' % (f['dialect'], ' '.join(f['types'])), {'finding': f, 'native': info}, rep)
        n += rep
    run.ob(name, 'counterexample' if n else 'inconclusive', '%d findings' % len(bad))


def replay(path):
    r = json.load(open(path))
    print(json.dumps(r, indent=1))
    if r['replay'].get('history'):
        rep = replay_history(r['replay']['history'], r['replay']['dialect'])
        print('native replay now (same calls in a fresh interpreter): last text accepted=%s' % rep)
        return 1 if rep else 0
    if r['replay'].get('skip'):
        from harness import c05skip
        return c05skip.replay(r)
    f = r['replay'].get('finding')
    if f:
        rep, info = replay_finding(f)
        print('native replay now: reproduced=%s %s' % (rep, json.dumps(info, default=repr)))
        return 1 if rep else 0
    return 2
