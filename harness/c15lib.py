"""C15 — time-series window.  The real planner's data-fetching steps (FetchDataframeStep / MultipleSteps / MapReduceStep
with $var[col] substitution) are interpreted over a SYMBOLIC table by SYMREL and compared, for every table content, window
size and user constant, with the row set written directly from the property statement."""
import itertools, copy, time
import z3
from engines import symrel as SR
from harness import planlib as PL

SCHEMA = {'tbl': ['g', 'g2', 'ts', 'v']}
W_MARK, C_MARK, C2_MARK = 777, 555, 556

TIME_CONDS = {
    '>': 't.ts > 555', '>=': 't.ts >= 555', '=': 't.ts = 555', '<': 't.ts < 555', '<=': 't.ts <= 555',
    'between': 't.ts BETWEEN 555 AND 556', '>latest': 't.ts > LATEST', '=latest': 't.ts = LATEST', 'none': None,
    # the bound written as an expression that is not a plain literal (same meaning: the planner must not depend on the bound being a Constant node)
    '>cast': 't.ts > CAST(555 AS int)', '>=cast': 't.ts >= CAST(555 AS int)', '=cast': 't.ts = CAST(555 AS int)',
}
PART_FILTERS = {'none': None, 'eq': 't.g = 1', 'in': 't.g IN (1, 2)'}


# how the conjuncts of WHERE are written: order and grouping of `time condition`, `partition filter` (and a repeated partition filter)
LAYOUTS = {
    'flat': lambda t, p: ' AND '.join(x for x in (t, p) if x),
    'part-first': lambda t, p: ' AND '.join(x for x in (p, t) if x),
    'time-in-right-group': lambda t, p: '%s AND (%s AND %s)' % (p, p, t),
    'time-in-left-group': lambda t, p: '(%s AND %s) AND %s' % (t, p, p),
    'time-first-in-right-group': lambda t, p: '%s AND (%s AND %s)' % (p, t, p),
    'parenthesised': lambda t, p: '(%s) AND (%s)' % (t, p),
    # user-written parentheses around the time condition / the whole WHERE (also when the time condition is the only conjunct)
    'time-parens': lambda t, p: ' AND '.join(x for x in ('(%s)' % t, p) if x),
    'time-double-parens': lambda t, p: ' AND '.join(x for x in ('((%s))' % t, p) if x),
    'whole-parens': lambda t, p: '(%s)' % ' AND '.join(x for x in (t, p) if x),
}
SOLO_LAYOUTS = ('time-parens', 'time-double-parens', 'whole-parens')


def members():
    for tc in TIME_CONDS:
        for pf in PART_FILTERS:
            for ng in (0, 1, 2):
                for model_left in (False, True):
                    for limit in (False, True):
                        if pf != 'none' and ng == 0:
                            continue     # a filter on g is only allowed when g is a partition column
                        yield (tc, pf, ng, model_left, limit)
    # the same conditions written in other orders / groupings (the meaning of a conjunction does not depend on either)
    for tc in TIME_CONDS:
        if tc == 'none':
            continue
        for pf in ('eq', 'in'):
            for layout in LAYOUTS:
                if layout == 'flat':
                    continue
                for ng in (1, 2):
                    yield (tc, pf, ng, False, layout == 'part-first', layout)
        for layout in SOLO_LAYOUTS:
            for ng in (0, 1):
                yield (tc, 'none', ng, False, layout == 'whole-parens', layout)


def sql_of(m):
    tc, pf, ng, model_left, limit = m[:5]
    layout = m[5] if len(m) > 5 else 'flat'
    frm = 'mindsdb.tspred AS m JOIN int1.tbl AS t' if model_left else 'int1.tbl AS t JOIN mindsdb.tspred AS m'
    sql = 'SELECT * FROM %s' % frm
    where = LAYOUTS[layout](TIME_CONDS[tc], PART_FILTERS[pf])
    if where:
        sql += ' WHERE ' + where
    if limit:
        sql += ' LIMIT 2'
    return sql


def catalog(ng):
    kw = PL.catalog()
    kw['predictor_metadata'] = [{'name': 'tspred', 'integration_name': 'mindsdb', 'timeseries': True, 'window': W_MARK, 'horizon': 2,
                                 'order_by_column': 'ts', 'group_by_columns': ['g', 'g2'][:ng]}]
    return kw


REJECTED = [
    ("SELECT * FROM int1.tbl AS t JOIN mindsdb.tspred AS m WHERE t.ts > 1 ORDER BY t.ts", 'ORDER BY'),
    ("SELECT t.g, count(*) FROM int1.tbl AS t JOIN mindsdb.tspred AS m WHERE t.ts > 1 GROUP BY t.g", 'GROUP BY'),
    ("SELECT t.g FROM int1.tbl AS t JOIN mindsdb.tspred AS m WHERE t.ts > 1 GROUP BY t.g HAVING count(*) > 1", 'HAVING'),
    ("SELECT * FROM int1.tbl AS t JOIN mindsdb.tspred AS m WHERE t.ts > 1 LIMIT 2 OFFSET 1", 'OFFSET'),
    ("SELECT * FROM int1.tbl AS t JOIN mindsdb.tspred AS m WHERE t.ts > 1 AND t.v = 3", 'filter on another column'),
]


# ---- rejected shapes, generated: a filter on a column that is neither the order column nor a partition column, for column names DERIVED
# from the allowed names (parts of them, of their list written out, longer names containing them, one character changed), in every position a
# condition can take, for two catalogs (short names ts / g, and long names pickup_hour / vendor_id, region)
REJ_CATALOGS = [('ts', ['g']), ('pickup_hour', ['vendor_id', 'region'])]


def derived_other_names(order_col, group_cols):
    import re as _re
    allowed = [order_col] + list(group_cols)
    texts = allowed + [', '.join(allowed), repr(allowed), ','.join(allowed)]
    names = set()
    for t in texts:
        for i in range(len(t)):
            for j in range(i + 1, len(t) + 1):
                w = t[i:j]
                if _re.fullmatch(r'[a-z_][a-z_0-9]*', w) and (len(w) >= 2 or len(t) <= 3):
                    names.add(w)
    for a in allowed:
        names.update({a + '2', 'x' + a, a + '_id', a[:-1] + ('x' if a[-1] != 'x' else 'y'), a[1:] or 'q', a + a})
    names.update({'v', 'id', 'value'})
    from mindsdb_sql.parser.dialects.mindsdb.lexer import MindsDBLexer

    def is_plain_name(n):
        try:
            toks = list(MindsDBLexer().tokenize(n))
        except Exception:  # noqa
            return False
        return len(toks) == 1 and toks[0].type == 'ID'
    names = sorted(n for n in names if n.lower() not in [a.lower() for a in allowed] and is_plain_name(n) and is_plain_name(n.upper()))
    # keep the family small: every name of <= 3 characters, and a spread of the longer ones
    short = [n for n in names if len(n) <= 3]
    longer = [n for n in names if len(n) > 3]
    return short[:12] + longer[::max(1, len(longer) // 14)]


REJ_SHAPES = ['t.{o} > 1 AND t.{c} = 3', 't.{c} = 3 AND t.{o} > 1', 't.{o} > 1 AND t.{g} = 1 AND t.{c} > 5', 't.{o} > 1 AND t.{c} IN (1, 2)', 't.{o} > 1 AND t.{C} BETWEEN 1 AND 2',
              't.{o} > LATEST AND t.{c} = 3', 't.{o} > 1 AND (t.{g} = 1 AND t.{c} = 7)', 't.{c} = 3']


def rejected_generated():
    out = []
    for o, gs in REJ_CATALOGS:
        for c in derived_other_names(o, gs):
            for sh in REJ_SHAPES:
                out.append(((o, gs), 'SELECT * FROM int1.tbl AS t JOIN mindsdb.tspred AS m WHERE ' + sh.format(o=o, g=gs[0], c=c, C=c.upper()), c))
    return out


def rej_catalog(o, gs):
    kw = PL.catalog()
    kw['predictor_metadata'] = [{'name': 'tspred', 'integration_name': 'mindsdb', 'timeseries': True, 'window': W_MARK, 'horizon': 2,
                                 'order_by_column': o, 'group_by_columns': list(gs)}]
    return kw


# ---- plan interpreter (the step kinds the time-series planner emits for the model input) --------------------------

def interpret(step, plan, ev_factory, bindings=None):
    """-> SR.Rel for the dataframe a step produces"""
    from mindsdb_sql.planner import steps as S
    if isinstance(step, S.FetchDataframeStep):
        ev = ev_factory(bindings)
        rel = ev.query(step.query)
        interpret.assumptions += ev.assumptions
        return rel
    if isinstance(step, S.MultipleSteps):
        if step.reduce != 'union':
            raise SR.Unsupported('reduce %r' % step.reduce)
        rels = [interpret(s, plan, ev_factory, bindings) for s in step.steps]
        return SR.Rel(rels[0].cols, [r for rel in rels for r in rel.rows])
    if isinstance(step, S.MapReduceStep):
        values = interpret(plan.steps[step.values.step_num], plan, ev_factory, bindings)
        rows = []
        cols = None
        for p, cs in values.rows:
            b = {c.name: cell for c, cell in zip(values.cols, cs)}
            inner = interpret(step.step, plan, ev_factory, b)
            cols = inner.cols
            rows += [(z3.And(p, ip), ics) for ip, ics in inner.rows]
        return SR.Rel(cols or [], rows)
    raise SR.Unsupported('step %s' % type(step).__name__)


interpret.assumptions = []


def spec_relation(db, m, w, c, c2):
    """the rows the property statement says the model must receive (as a relation over the table's rows)"""
    tc, pf, ng, model_left, limit = m[:5]
    n, rows = db.tables['tbl']
    G, G2, TS, V = 0, 1, 2, 3

    def cand(i):
        p, cs = rows[i]
        ok = z3.And(p, z3.Not(cs[TS][0]))
        if pf == 'eq':
            ok = z3.And(ok, z3.Not(cs[G][0]), cs[G][1] == 1)
        elif pf == 'in':
            ok = z3.And(ok, z3.Not(cs[G][0]), z3.Or(cs[G][1] == 1, cs[G][1] == 2))
        return ok

    def same_part(i, j):
        conds = []
        for k in range(ng):
            a, b = rows[i][1][k], rows[j][1][k]
            conds.append(z3.And(z3.Not(a[0]), z3.Not(b[0]), a[1] == b[1]))
        return z3.And(conds) if conds else SR.TRUE

    def part_ok(i):
        return z3.And([z3.Not(rows[i][1][k][0]) for k in range(ng)]) if ng else SR.TRUE

    def ts(i):
        return rows[i][1][TS][1]

    def top_w(i, pool):
        """row i is among the w most recent rows of its partition within pool(j)"""
        newer = z3.Sum([z3.If(z3.And(cand(j), same_part(i, j), pool(j), ts(j) > ts(i)), 1, 0) for j in range(len(rows)) if j != i]) \
            if len(rows) > 1 else z3.IntVal(0)
        return z3.And(pool(i), newer < w)
    out = []
    tc = tc.replace('cast', '')
    for i in range(len(rows)):
        t = ts(i)
        if tc == '>':
            sel = z3.Or(t > c, top_w(i, lambda j: ts(j) <= c))
        elif tc == '>=':
            sel = z3.Or(t >= c, top_w(i, lambda j: ts(j) < c))
        elif tc == '=':
            sel = top_w(i, lambda j: ts(j) <= c)
        elif tc == '<':
            sel = t < c
        elif tc == '<=':
            sel = t <= c
        elif tc == 'between':
            sel = z3.Or(z3.And(t >= c, t <= c2), top_w(i, lambda j: ts(j) < c))
        elif tc in ('>latest', '=latest'):
            sel = top_w(i, lambda j: SR.TRUE)
        else:
            sel = SR.TRUE
        out.append((z3.And(cand(i), part_ok(i), sel), rows[i][1]))
    return SR.Rel([SR.Col(x) for x in SCHEMA['tbl']], out)


def tie_free(db, ng):
    """assumption of the main obligation: within a partition, non-NULL times of present rows are pairwise distinct"""
    n, rows = db.tables['tbl']
    cs = []
    for i, j in itertools.combinations(range(len(rows)), 2):
        both = z3.And(rows[i][0], rows[j][0], z3.Not(rows[i][1][2][0]), z3.Not(rows[j][1][2][0]))
        same = z3.And([z3.And(z3.Not(rows[i][1][k][0]), z3.Not(rows[j][1][k][0]), rows[i][1][k][1] == rows[j][1][k][1]) for k in range(ng)]) if ng else SR.TRUE
        cs.append(z3.Implies(z3.And(both, same), rows[i][1][2][1] != rows[j][1][2][1]))
    return cs


def check_member(m, R, D, timeout_ms=120000):
    """-> dict(status=discharged|counterexample|rejected|unsupported|inconclusive, ...)"""
    from mindsdb_sql.planner import steps as S
    from mindsdb_sql.exceptions import PlanningException
    tc, pf, ng, model_left, limit = m[:5]
    sql = sql_of(m)
    info = {'sql': sql, 'member': list(m)}
    try:
        plan = PL.plan_sql(sql, **catalog(ng))
    except (PlanningException, NotImplementedError) as e:
        return dict(info, status='rejected', reason='%s: %s' % (type(e).__name__, str(e)[:100]))
    steps = [s for s, _, _ in PL.all_steps(plan.steps)]
    ap = [s for s in plan.steps if isinstance(s, S.ApplyTimeseriesPredictorStep)]
    problems = []
    if len(ap) != 1:
        return dict(info, status='counterexample', problems=['%d time-series predictor steps' % len(ap)])
    ap = ap[0]
    # structural claims: output filter = the user's time condition, LIMIT after the join
    want_filter = TIME_CONDS[tc]
    got_filter = ' '.join(str(ap.output_time_filter).split()).lower() if ap.output_time_filter is not None else None
    if got_filter is not None and got_filter.startswith('(') and got_filter.endswith(')') and len(m) > 5:
        got_filter = got_filter[1:-1]       # the user's own parentheses around the condition
    if (want_filter is None) != (got_filter is None) or (want_filter and got_filter.replace('t.', '') != want_filter.lower().replace('t.', '')):
        problems.append('output_time_filter %r, the user wrote %r' % (got_filter, want_filter))
    joins = [i for i, s in enumerate(plan.steps) if isinstance(s, S.JoinStep)]
    lims = [i for i, s in enumerate(plan.steps) if isinstance(s, S.LimitOffsetStep)]
    if limit:
        if not (lims and joins and lims[0] > joins[-1] and plan.steps[lims[0]].limit in (2, )) and not (lims and getattr(plan.steps[lims[0]].limit, 'value', None) == 2):
            problems.append('LIMIT 2 is not applied after the join (limit steps %s, join steps %s)' % (lims, joins))
    elif lims:
        problems.append('a limit step without LIMIT in the query')
    # semantic claim
    db = SR.DB(SCHEMA, R, D)
    w, c, c2 = z3.Int('window'), z3.Int('c'), z3.Int('c2')
    consts = {W_MARK: (SR.FALSE, w), C_MARK: (SR.FALSE, c), C2_MARK: (SR.FALSE, c2)}
    interpret.assumptions = []

    def factory(bindings):
        return SR.Evaluator(db, consts=consts, var_binding=bindings)
    try:
        data_step = plan.steps[ap.dataframe.step_num]
        got = interpret(data_step, plan, factory)
    except SR.Unsupported as e:
        return dict(info, status='unsupported', reason=str(e), problems=problems)
    want = spec_relation(db, m, w, c, c2)
    if [x.name for x in got.cols] != [x.name for x in want.cols]:
        problems.append('model input columns %s, table columns %s' % ([x.name for x in got.cols], SCHEMA['tbl']))
        return dict(info, status='counterexample', problems=problems)
    s = z3.Solver()
    s.set('timeout', timeout_ms)
    s.add(db.constraints)
    s.add(w >= 1, w <= R, c >= 0, c <= D, c2 >= c, c2 <= D)
    s.add(tie_free(db, ng))
    # the evaluator's own tie assumptions (ORDER BY ts DESC LIMIT w inside a fetch) are implied by tie_free for rows of one
    # partition; rows of different partitions never meet in one fetch because of g = $var[g]
    s.add(SR.bags_differ(got, want))
    t0 = time.time()
    r = str(s.check())
    dt = time.time() - t0
    out = dict(info, solver_s=round(dt, 2), problems=problems, plan=[repr(x)[:160] for x in plan.steps])
    if r == 'unsat':
        out['status'] = 'counterexample' if problems else 'discharged'
        return out
    if r != 'sat':
        out['status'] = 'inconclusive'
        out['reason'] = r
        return out
    mdl = s.model()
    data = db.concrete(mdl)
    wv, cv, c2v = (mdl.eval(x, model_completion=True).as_long() for x in (w, c, c2))
    out.update(status='counterexample', witness={'table': data['tbl'], 'window': wv, 'c': cv, 'c2': c2v,
                                                 'plan_rows': SR.concrete_rows(got, mdl), 'spec_rows': SR.concrete_rows(want, mdl)})
    out['problems'] = problems + ['model input differs from the property\'s row set on table %s (window=%d, c=%d, c2=%d)' % (data['tbl'], wv, cv, c2v)]
    return out


# ---- native replay: execute the real plan's fetch queries on sqlite3, compute the spec in plain Python -----------------

def replay_witness(m, witness):
    import sqlite3, re
    from mindsdb_sql.planner import steps as S
    tc, pf, ng, model_left, limit = m[:5]
    wv, cv, c2v = witness['window'], witness['c'], witness['c2']
    kw = catalog(ng)
    kw['predictor_metadata'][0]['window'] = wv
    sql = sql_of(m).replace('555', str(cv)).replace('556', str(c2v))
    plan = PL.plan_sql(sql, **kw)
    con = SR.connect()
    con.execute('CREATE TABLE tbl (g INTEGER, g2 INTEGER, ts INTEGER, v INTEGER)')
    rows = [tuple(r) for r in witness['table']]
    con.executemany('INSERT INTO tbl VALUES (?,?,?,?)', rows)

    def run(step, binding=None):
        if isinstance(step, S.FetchDataframeStep):
            text = str(step.query)
            for k, v in (binding or {}).items():
                text = text.replace("'$var[%s]'" % k, 'NULL' if v is None else str(v))
            text = text.replace('`', '"')
            cur = con.execute(text)
            names = [d[0] for d in cur.description]
            return names, cur.fetchall()
        if isinstance(step, S.MultipleSteps):
            names, out = None, []
            for s_ in step.steps:
                names, r = run(s_, binding)
                out += r
            return names, out
        if isinstance(step, S.MapReduceStep):
            vnames, vals = run(plan.steps[step.values.step_num], binding)
            names, out = None, []
            for v in vals:
                names, r = run(step.step, dict(zip(vnames, v)))
                out += r
            return names, out
        raise ValueError(type(step).__name__)
    ap = [s for s in plan.steps if isinstance(s, S.ApplyTimeseriesPredictorStep)][0]
    names, got = run(plan.steps[ap.dataframe.step_num])
    # spec in plain Python
    def cand(r):
        g, g2, ts, v = r
        if ts is None:
            return False
        if pf == 'eq' and g != 1:
            return False
        if pf == 'in' and g not in (1, 2):
            return False
        return all(x is not None for x in r[:ng])
    want = []
    for r in rows:
        if not cand(r):
            continue
        part = [x for x in rows if cand(x) and x[:ng] == r[:ng]]
        ts = r[2]

        def top(pool):
            if r not in pool:
                return False
            return sum(1 for x in pool if x[2] > ts) < wv
        if tc == '>':
            ok = ts > cv or top([x for x in part if x[2] <= cv])
        elif tc == '>=':
            ok = ts >= cv or top([x for x in part if x[2] < cv])
        elif tc == '=':
            ok = top([x for x in part if x[2] <= cv])
        elif tc == '<':
            ok = ts < cv
        elif tc == '<=':
            ok = ts <= cv
        elif tc == 'between':
            ok = (cv <= ts <= c2v) or top([x for x in part if x[2] < cv])
        elif tc in ('>latest', '=latest'):
            ok = top(part)
        else:
            ok = True
        if ok:
            want.append(r)
    return sorted(map(repr, got)) != sorted(map(repr, want)), {'sql': sql, 'table': rows, 'window': wv, 'plan_rows_sqlite': sorted(got, key=repr), 'spec_rows': sorted(want, key=repr)}


def validate_member(m, R, D, rnd):
    """translator validation: on a random concrete table (no ties within a partition), the symbolic interpreter of the plan
    fixed to that table must give the rows that sqlite3 gives when it executes the plan's own queries"""
    from mindsdb_sql.planner import steps as S
    tc, pf, ng, model_left, limit = m[:5]
    # random table without time ties inside a partition
    for _ in range(20):
        n = rnd.randint(0, R)
        rows = [tuple(None if rnd.random() < 0.15 else rnd.randint(0, D) for _ in range(4)) for _ in range(n)]
        ok = True
        for a, b in itertools.combinations(rows, 2):
            if a[2] is not None and a[2] == b[2] and a[:ng] == b[:ng]:
                ok = False
        if ok:
            break
    else:
        rows = []
    wv, cv = rnd.randint(1, R), rnd.randint(0, D)
    c2v = rnd.randint(cv, D)
    wit = {'table': rows, 'window': wv, 'c': cv, 'c2': c2v}
    differs, info = replay_witness(m, wit)        # sqlite3 execution of the plan vs python spec
    # symbolic interpreter fixed to the same table
    db = SR.DB(SCHEMA, R, D)
    consts = {W_MARK: SR.const_cell(wv), C_MARK: SR.const_cell(cv), C2_MARK: SR.const_cell(c2v)}
    plan = PL.plan_sql(sql_of(m), **catalog(ng))
    ap = [s for s in plan.steps if isinstance(s, S.ApplyTimeseriesPredictorStep)][0]
    interpret.assumptions = []
    got = interpret(plan.steps[ap.dataframe.step_num], plan, lambda b: SR.Evaluator(db, consts=consts, var_binding=b))
    s = z3.Solver()
    s.add(db.constraints + SR.fix_db(db, {'tbl': rows}))
    if str(s.check()) != 'sat':
        return None
    sym_rows = SR.concrete_rows(got, s.model())
    return sorted(map(repr, sym_rows)) == sorted(map(repr, info['plan_rows_sqlite'])), {'table': rows, 'symrel': sym_rows, 'sqlite': info['plan_rows_sqlite'], 'window': wv, 'c': cv}
