"""C11 — a query on one SQL integration is pushed down whole and unchanged in meaning.
Per family member: the real plan must be exactly one FetchDataframeStep for the integration, and SYMREL shows, for every
database content, that the step's query (evaluated where only that integration's tables exist) returns the same bag of rows
under the same output column names as the original query."""
import time
import z3
from engines import symrel as SR
from harness import planlib as PL

SCHEMA = {'t1': ['id', 'a', 'b'], 't2': ['id', 'c'], 'int1': ['id', 'x'], 't3': ['id', 'a.b', 'c d', 'int1.e'], 'pred2': ['id', 'p2'], 'pred': ['id', 'p']}
FAMILY = [
    "SELECT a FROM int1.t1",
    "SELECT * FROM int1.t1 WHERE a > 1",
    "SELECT t1.a, t1.b FROM int1.t1 WHERE t1.a = t1.b",
    "SELECT int1.t1.a FROM int1.t1 WHERE int1.t1.b IS NOT NULL",
    "SELECT a AS x, b FROM int1.t1 AS q WHERE q.a < 3",
    "SELECT t1.a, t2.c FROM int1.t1 JOIN int1.t2 ON t1.id = t2.id",
    "SELECT x.a, y.c FROM int1.t1 AS x LEFT JOIN int1.t2 AS y ON x.id = y.id WHERE y.c IS NULL OR x.a > 1",
    "SELECT x.a, y.c FROM int1.t1 AS x RIGHT JOIN int1.t2 AS y ON x.id = y.id",
    "SELECT * FROM int1.t1 AS x JOIN int1.t2 AS y ON x.id = y.id AND y.c > 0",
    "SELECT x.* FROM int1.t1 AS x JOIN int1.t2 AS y ON x.id = y.id",
    "SELECT a, count(*) AS n, sum(b) AS s FROM int1.t1 GROUP BY a",
    "SELECT a, count(b) AS n FROM int1.t1 GROUP BY a HAVING count(b) > 0",
    "SELECT DISTINCT a FROM int1.t1",
    "SELECT a FROM int1.t1 WHERE a IN (SELECT c FROM int1.t2)",
    "SELECT a FROM int1.t1 WHERE a NOT IN (SELECT c FROM int1.t2 WHERE c IS NOT NULL)",
    "SELECT a, (SELECT max(c) FROM int1.t2) AS m FROM int1.t1",
    "SELECT s.a FROM (SELECT a, id FROM int1.t1 WHERE b > 0) AS s WHERE s.a > 0",
    "SELECT s.a, t2.c FROM (SELECT a, id FROM int1.t1) AS s JOIN int1.t2 ON s.id = t2.id",
    "WITH w AS (SELECT a, id FROM int1.t1) SELECT w.a FROM w WHERE w.a > 1",
    "SELECT a FROM int1.t1 UNION SELECT c FROM int1.t2",
    "SELECT a FROM int1.t1 UNION ALL SELECT c FROM int1.t2",
    "SELECT a FROM int1.t1 INTERSECT SELECT c FROM int1.t2",
    "SELECT a FROM int1.t1 EXCEPT SELECT c FROM int1.t2",
    "SELECT a FROM int1.t1 ORDER BY id LIMIT 1",
    "SELECT a FROM int1.t1 ORDER BY id DESC LIMIT 1 OFFSET 1",
    "SELECT CASE WHEN a > 1 THEN b ELSE 0 END AS k FROM int1.t1",
    "SELECT a + b AS s, -a AS n FROM int1.t1 WHERE a BETWEEN 1 AND 2",
    "SELECT coalesce(a, b) AS v FROM int1.t1",
    # names that coincide with the integration name
    "SELECT int1.a FROM int1.t1 AS int1",
    "SELECT int1.a, int1.b FROM int1.t1 AS int1 WHERE int1.a > 0",
    "SELECT x FROM int1.int1",
    "SELECT int1.x FROM int1.int1",
    "SELECT int1.int1.x FROM int1.int1 WHERE int1.int1.id > 0",
    "SELECT a AS int1 FROM int1.t1",
    "SELECT q.a FROM int1.t1 AS q JOIN int1.int1 AS int1 ON q.id = int1.id",
    "SELECT t1.a FROM int1.t1 WHERE t1.a IN (SELECT int1.x FROM int1.int1 AS int1)",
    "SELECT int1.t1.* FROM int1.t1",
    "SELECT t1.* FROM int1.t1 WHERE t1.a > 0",
    "SELECT int1.t1.*, t2.c FROM int1.t1 JOIN int1.t2 ON t1.id = t2.id",
    "SELECT q.*, int1.t2.* FROM int1.t1 AS q JOIN int1.t2 ON q.id = int1.t2.id",
    "SELECT s.* FROM (SELECT int1.t1.* FROM int1.t1) AS s",
    "SELECT count(*) AS n, count(int1.t1.a) AS m FROM int1.t1",
    "SELECT a FROM int1.t1 WHERE a > 0 LIMIT 0",
    "SELECT a FROM int1.t1 ORDER BY id LIMIT 2 OFFSET 0",
    "SELECT a FROM int1.t1 WHERE b = 0 OR a = 0",
    # correlated subqueries: outer alias (also one spelled like the integration) referenced from the inner scope, inner table with a
    # column of the same name
    "SELECT int1.a FROM int1.t1 AS int1 WHERE EXISTS (SELECT 1 FROM int1.t2 WHERE t2.id = int1.id)",
    "SELECT q.a FROM int1.t1 AS q WHERE EXISTS (SELECT 1 FROM int1.t2 WHERE t2.id = q.id)",
    "SELECT int1.a FROM int1.t1 AS int1 WHERE NOT EXISTS (SELECT 1 FROM int1.t2 AS u WHERE u.id = int1.id AND u.c > 0)",
    "SELECT a FROM int1.t1 AS int1 WHERE int1.b IN (SELECT t2.c FROM int1.t2 WHERE t2.id = int1.id)",
    "SELECT int1.a, (SELECT count(*) FROM int1.t2 WHERE t2.id = int1.id) AS n FROM int1.t1 AS int1",
    "SELECT t1.a, (SELECT max(c) FROM int1.t2 WHERE t2.id = t1.id) AS m FROM int1.t1",
    "SELECT int1.t1.a FROM int1.t1 WHERE EXISTS (SELECT 1 FROM int1.t2 WHERE int1.t2.id = int1.t1.id)",
    "SELECT x.a FROM int1.t1 AS x WHERE x.a > (SELECT count(*) FROM int1.int1 AS int1 WHERE int1.id = x.id)",
    # a fully qualified column (integration.table.column) in every expression position, also after a literal
    "SELECT a FROM int1.t1 WHERE int1.t1.a IN (1, int1.t1.b)",
    "SELECT a FROM int1.t1 WHERE 1 IN (int1.t1.a, 2, int1.t1.b)",
    "SELECT a FROM int1.t1 WHERE int1.t1.a BETWEEN 1 AND int1.t1.b",
    "SELECT coalesce(NULL, int1.t1.a, 0) AS v FROM int1.t1",
    "SELECT CASE WHEN 1 = int1.t1.a THEN 0 ELSE int1.t1.b END AS k FROM int1.t1",
    "SELECT CASE int1.t1.a WHEN 1 THEN int1.t1.b END AS k FROM int1.t1",
    "SELECT 1 + int1.t1.a AS s, 2 * (3 - int1.t1.b) AS t FROM int1.t1 WHERE 0 < int1.t1.a",
    "SELECT a FROM int1.t1 ORDER BY int1.t1.id DESC LIMIT 1",
    "SELECT int1.t1.a AS a, count(int1.t1.b) AS n FROM int1.t1 GROUP BY int1.t1.a HAVING max(int1.t1.b) > 0",
    "SELECT x.a FROM int1.t1 AS x JOIN int1.t2 ON 1 = 1 AND x.id = int1.t2.id",
    "SELECT a FROM int1.t1 WHERE NOT (0 = int1.t1.a OR int1.t1.b IS NULL)",
    "SELECT a FROM int1.t1 WHERE int1.t1.a IN (SELECT 0 + int1.t2.c FROM int1.t2)",
    # column names that need quoting: a dot, a blank, a name that starts like the integration qualifier
    "SELECT `a.b` FROM int1.t3",
    "SELECT `a.b`, `c d` FROM int1.t3 WHERE `a.b` > 0",
    "SELECT t3.`a.b`, t3.`c d` FROM int1.t3",
    "SELECT int1.t3.`a.b` FROM int1.t3 WHERE int1.t3.`c d` IS NOT NULL",
    "SELECT `int1.e` FROM int1.t3",
    "SELECT t3.`int1.e`, id FROM int1.t3 WHERE `int1.e` = 1",
    "SELECT `a.b` AS k, `c d` FROM int1.t3 ORDER BY `a.b` LIMIT 1",
    "SELECT s.`a.b` FROM (SELECT `a.b`, `c d` FROM int1.t3) AS s WHERE s.`c d` > 0",
    "SELECT `c d`, max(`a.b`) AS m FROM int1.t3 GROUP BY `c d`",
    "SELECT q.`a.b`, t1.a FROM int1.t3 AS q JOIN int1.t1 ON q.id = t1.id",
    "SELECT `a.b` FROM int1.t3 UNION SELECT `c d` FROM int1.t3",
    "SELECT `a.b` + 1 AS s, coalesce(`c d`, `a.b`) AS v FROM int1.t3",
    "SELECT INT1.t1.a FROM INT1.t1",
    "SELECT a FROM Int1.t1 WHERE Int1.t1.b = 1",
    # CTEs named like tables (a CTE is not visible in its own body nor in earlier ones: the name there means the real table)
    "WITH t1 AS (SELECT * FROM int1.t1 WHERE a > 1) SELECT * FROM t1",
    "WITH t1 AS (SELECT a, id FROM int1.t1 WHERE a > 1) SELECT t1.a, t2.c FROM t1 JOIN int1.t2 ON t2.id = t1.id",
    "WITH w AS (SELECT * FROM int1.t2), t2 AS (SELECT * FROM w WHERE c > 0) SELECT * FROM t2",
]
# the same kind of statement written WITHOUT the integration qualifier, planned with that integration as the default namespace
UNQUALIFIED = [
    "SELECT a FROM t1 WHERE a > 1",
    "SELECT t1.a, t2.c FROM t1 JOIN t2 ON t1.id = t2.id",
    "SELECT t1.a, t2.c FROM t1 JOIN int1.t2 ON t1.id = t2.id",
    "SELECT a FROM t1 WHERE a IN (SELECT c FROM t2)",
    "SELECT a FROM t1 UNION SELECT c FROM t2",
    "SELECT s.a FROM (SELECT a, id FROM t1) AS s WHERE s.a > 0",
    "WITH w AS (SELECT a, id FROM t1) SELECT w.a FROM w WHERE w.a > 1",
    "WITH t1 AS (SELECT * FROM t1 WHERE a > 1) SELECT * FROM t1",
    "WITH t1 AS (SELECT a, id FROM t1 WHERE a > 1) SELECT a FROM t1 WHERE id > 0",
    "WITH w AS (SELECT * FROM t2), t2 AS (SELECT * FROM w WHERE c > 0) SELECT * FROM t2",
    "WITH t2 AS (SELECT * FROM t2 WHERE c > 0) SELECT t1.a, t2.c FROM t1 JOIN t2 ON t1.id = t2.id",
]
# tables addressed as integration.schema.table - also when the schema is named like a project / another integration and the table like a model
# of that project: the first part alone decides where the name resolves to
SCHEMA_QUALIFIED = [
    "SELECT * FROM int1.sch.t1 WHERE a > 1",
    "SELECT p2 FROM int1.proj.pred2 WHERE p2 > 1",
    "SELECT * FROM int1.proj.pred2",
    "SELECT p FROM int1.mindsdb.pred WHERE id = 1",
    "SELECT a.p2, b.c FROM int1.proj.pred2 AS a JOIN int1.t2 AS b ON a.id = b.id",
    "SELECT p2 FROM int1.proj.pred2 UNION SELECT c FROM int1.t2",
    "SELECT a FROM int1.int2.t1 WHERE a IN (SELECT p FROM int1.mindsdb.pred)",
    "SELECT a FROM INT1.Proj.t1",
]
FAMILY = FAMILY + UNQUALIFIED + SCHEMA_QUALIFIED


def single_fetch(plan):
    from mindsdb_sql.planner import steps as S
    return len(plan.steps) == 1 and isinstance(plan.steps[0], S.FetchDataframeStep)


def check_member(sql, R, D, timeout_ms=120000):
    from mindsdb_sql import parse_sql
    from mindsdb_sql.planner import plan_query
    from mindsdb_sql.exceptions import PlanningException
    info = {'sql': sql}
    orig = parse_sql(sql, 'mindsdb')
    try:
        kw = PL.catalog()
        if sql in UNQUALIFIED:
            kw['default_namespace'] = 'int1'
        plan = plan_query(parse_sql(sql, 'mindsdb'), **kw)
    except (PlanningException, NotImplementedError) as e:
        return dict(info, status='rejected', reason='%s: %s' % (type(e).__name__, str(e)[:100]))
    if not single_fetch(plan):
        return dict(info, status='counterexample', problems=['plan is not one fetch step: %s' % [type(s).__name__ for s in plan.steps]], kind='structure')
    step = plan.steps[0]
    info['pushed'] = str(step.query)
    if step.integration != 'int1':
        return dict(info, status='counterexample', problems=['fetch step for integration %r' % step.integration], kind='structure')
    db = SR.DB(SCHEMA, R, D)
    ev1, ev2 = SR.Evaluator(db), SR.Evaluator(db)
    try:
        a = ev1.query(orig)
    except SR.Unsupported as e:
        return dict(info, status='unsupported', reason='original: %s' % e)
    try:
        b = ev2.query(step.query)
    except SR.Unsupported as e:
        # the original evaluates but the pushed query does not resolve: a real difference (e.g. a qualifier cut off wrongly)
        return dict(info, status='counterexample', problems=['pushed query does not evaluate: %s' % e], kind='names')
    na, nb = [c.name for c in a.cols], [c.name for c in b.cols]
    problems = []
    if na != nb:
        # a structural difference: decided by reading the two column lists, no database needed
        return dict(info, status='counterexample', kind='names', problems=['output columns %s, the original query yields %s' % (nb, na)])
    s = z3.Solver()
    s.set('timeout', timeout_ms)
    s.add(db.constraints + ev1.assumptions + ev2.assumptions)
    s.add(SR.bags_differ(a, b))
    t0 = time.time()
    r = str(s.check())
    out = dict(info, solver_s=round(time.time() - t0, 4), problems=problems)
    if r == 'sat':
        m = s.model()
        out.update(status='counterexample', kind='rows', witness={'db': db.concrete(m), 'original_rows': SR.concrete_rows(a, m), 'pushed_rows': SR.concrete_rows(b, m)})
        out['problems'] = problems + ['pushed query returns different rows on %s' % db.concrete(m)]
    elif r == 'unsat':
        out['status'] = 'counterexample' if problems else 'discharged'
        if problems:
            out['kind'] = 'names'
    else:
        out['status'] = 'inconclusive'
        out['reason'] = r
    return out


def replay_member(sql, witness):
    """sqlite3: the original text (integration qualifier = attached schema name) vs the pushed query on the witness database"""
    import sqlite3
    from mindsdb_sql import parse_sql
    from mindsdb_sql.planner import plan_query
    plan = plan_query(parse_sql(sql, 'mindsdb'), **PL.catalog())
    pushed = str(plan.steps[0].query).replace('`', '"')
    con = SR.connect()
    con.execute("ATTACH DATABASE ':memory:' AS int1")
    for t, cols in SCHEMA.items():
        con.execute('CREATE TABLE int1.%s (%s)' % (t, ', '.join('"%s" INTEGER' % c for c in cols)))
        for r in witness['db'].get(t, []):
            con.execute('INSERT INTO int1.%s VALUES (%s)' % (t, ', '.join('?' * len(cols))), r)
    try:
        want = con.execute(sql).fetchall()
    except Exception as e:  # noqa
        return False, {'note': 'sqlite cannot run the original: %s' % e}
    # the pushed query runs INSIDE the integration: a database that knows its tables but not the name "int1"
    con2 = SR.connect()
    for t, cols in SCHEMA.items():
        con2.execute('CREATE TABLE %s (%s)' % (t, ', '.join('"%s" INTEGER' % c for c in cols)))
        for r in witness['db'].get(t, []):
            con2.execute('INSERT INTO %s VALUES (%s)' % (t, ', '.join('?' * len(cols))), r)
    try:
        got = con2.execute(pushed).fetchall()
    except Exception as e:  # noqa
        return True, {'original_rows': want, 'pushed_error': str(e), 'pushed': pushed}
    return sorted(map(repr, got)) != sorted(map(repr, want)), {'original_rows': want, 'pushed_rows': got, 'pushed': pushed, 'db': witness['db']}


def validate_member(sql, R, D, rnd, n=2):
    """translator validation: SYMREL on the original AST with the database fixed to a random one vs sqlite3 on the text"""
    import sqlite3
    from mindsdb_sql import parse_sql
    orig = parse_sql(sql, 'mindsdb')
    out = []
    for _ in range(n):
        data = SR.random_db(SCHEMA, R, D, rnd)
        db = SR.DB(SCHEMA, R, D)
        ev = SR.Evaluator(db)
        try:
            rel = ev.query(orig)
        except SR.Unsupported:
            return out
        s = z3.Solver()
        s.add(db.constraints + SR.fix_db(db, data) + ev.assumptions)
        if str(s.check()) != 'sat':
            continue
        got = SR.concrete_rows(rel, s.model())
        con = SR.connect()
        con.execute("ATTACH DATABASE ':memory:' AS int1")
        for t, cols in SCHEMA.items():
            con.execute('CREATE TABLE int1.%s (%s)' % (t, ', '.join('"%s" INTEGER' % c for c in cols)))
            for r in data.get(t, []):
                con.execute('INSERT INTO int1.%s VALUES (%s)' % (t, ', '.join('?' * len(cols))), r)
        try:
            want = con.execute(sql).fetchall()
        except Exception as e:  # noqa
            return out
        out.append((sorted(map(repr, got)) == sorted(map(repr, [tuple(x) for x in want])), {'db': data, 'symrel': got, 'sqlite': want}))
    return out
