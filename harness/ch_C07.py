"""CrossHair harness for C07: the real literal paths on a symbolic constant value."""
import os, sys, datetime as dt
from mindsdb_sql import parse_sql
from mindsdb_sql.parser.ast import Constant, Insert, Identifier
from mindsdb_sql.render import sqlalchemy_render as R
from refs.readers import read_quoted_mindsdb, read_sql_standard, read_sql_mysql, printable_string_value

N = int(os.environ.get('VERIF_STRLEN', '4'))
DIALECTS = ('mysql', 'postgresql', 'postgres', 'sqlite', 'mssql', 'oracle', 'Snowflake')


def _capture(dialect_name, ddl):
    """the real nested LiteralCompiler class of render_dml_query / render_ddl_query, captured natively, instantiated"""
    r = R.SqlalchemyRender(dialect_name)
    if ddl:
        q = parse_sql('CREATE TABLE t1 (a int)', 'mindsdb')
    else:
        q = parse_sql("SELECT 'x' FROM t1", 'mindsdb')
    stmt, _ = r.get_query(q, with_params=False)
    got = {}
    fn_name = 'render_ddl_query' if ddl else 'render_dml_query'

    def prof(frame, event, arg):
        if event == 'return' and frame.f_code.co_name == fn_name and 'LiteralCompiler' in frame.f_locals:
            got['cls'] = frame.f_locals['LiteralCompiler']
    sys.setprofile(prof)
    try:
        getattr(R, fn_name)(stmt, r.dialect)
    finally:
        sys.setprofile(None)
    cls = got['cls']
    return cls(r.dialect, stmt, compile_kwargs={'literal_binds': True})


COMPILERS = {(d, ddl): _capture(d, ddl) for d in DIALECTS for ddl in (False, True)}


def _reader(d):
    return read_sql_mysql if d == 'mysql' else read_sql_standard


def lit_render(s: str, which: int, ddl: bool) -> bool:
    """
    pre: len(s) <= N
    pre: 0 <= which < 7
    post: _
    """
    d = DIALECTS[which]
    out = COMPILERS[(d, ddl)].render_literal_value(s, None)
    return _reader(d)(out) == s


def lit_render_reach(s: str, which: int, ddl: bool) -> bool:
    """
    pre: len(s) <= N
    pre: 0 <= which < 7
    post: False
    """
    d = DIALECTS[which]
    out = COMPILERS[(d, ddl)].render_literal_value(s, None)
    return _reader(d)(out) == s


def const_to_string(s: str) -> bool:
    """
    pre: len(s) <= N
    pre: printable_string_value(s)
    post: _
    """
    return read_quoted_mindsdb(Constant(s).get_string(), "'") == s


def const_to_string_reach(s: str) -> bool:
    """
    pre: len(s) <= N
    pre: printable_string_value(s)
    post: False
    """
    return read_quoted_mindsdb(Constant(s).get_string(), "'") == s


def const_to_string_known(s: str) -> bool:
    """
    pre: len(s) <= 2
    pre: not printable_string_value(s)
    post: _
    """
    # the known-finding class: expected to FAIL today; reported as KNOWN-FINDING while it does
    return read_quoted_mindsdb(Constant(s).get_string(), "'") == s


def insert_value_node(s: str) -> bool:
    """
    pre: len(s) <= N
    pre: printable_string_value(s)
    post: _
    """
    ins = Insert(table=Identifier('t'), values=[[Constant(s)]])
    return read_quoted_mindsdb(ins.to_value(ins.values[0][0]), "'") == s


def insert_value_node_reach(s: str) -> bool:
    """
    pre: len(s) <= N
    pre: printable_string_value(s)
    post: False
    """
    ins = Insert(table=Identifier('t'), values=[[Constant(s)]])
    return read_quoted_mindsdb(ins.to_value(ins.values[0][0]), "'") == s


def insert_raw_value(s: str) -> bool:
    """
    pre: len(s) <= 3
    pre: printable_string_value(s)
    post: _
    """
    # a raw Python value (not a Constant node) placed in Insert.values is printed by Insert.to_value
    ins = Insert(table=Identifier('t'), values=[[s]])
    out = ins.to_value(s)
    q = out[0] if len(out) > 0 else ''
    return (q == "'" or q == '"') and read_quoted_mindsdb(out, q) == s
