"""C11 — single-integration queries are pushed down whole, unchanged in meaning (SYMREL, see c11lib)."""
import json, random
import multiprocessing as mp
from engines.common import Run, NCPU


def _work(args):
    sql, R, D, seed = args
    import warnings
    warnings.filterwarnings('ignore')
    from harness import c11lib
    out = {'sql': sql}
    try:
        out['check'] = c11lib.check_member(sql, R, D)
    except Exception as e:  # noqa
        out['check'] = {'status': 'error', 'reason': repr(e), 'sql': sql}
    try:
        out['validation'] = c11lib.validate_member(sql, R, D, random.Random(seed))
    except Exception as e:  # noqa
        out['validation'] = []
    if out['check'].get('witness'):
        try:
            out['replay'] = c11lib.replay_member(sql, out['check']['witness'])
        except Exception as e:  # noqa
            out['replay'] = (False, {'error': repr(e)})
    return out


def run(tier):
    run = Run('C11', tier, level='translation_validation')
    from harness import c11lib
    R, D = (3, 3) if tier == 'quick' else (4, 3)
    run.bounds = {'rows_per_table_max': R, 'value_range': [0, D], 'family_members': len(c11lib.FAMILY), 'schema': c11lib.SCHEMA}
    run.functions = ['plan_query -> QueryPlanner.from_query/check_single_integration/prepare_integration_select (real, per member)',
                     'the emitted FetchDataframeStep.query (interpreted by SYMREL)']
    run.assumptions = ['family of single-integration statements in harness/c11lib.py (joins of every kind, subqueries, CTE, set operations, grouping, ordering with LIMIT, aliases and tables spelled like the integration, mixed-case qualifiers); window functions are outside SYMREL\'s fragment',
                       'ORDER BY .. LIMIT members are compared under the assumption of pairwise distinct, non-NULL sort keys',
                       'integer columns, R rows per table, values 0..D with NULLs and duplicates']
    with mp.get_context('fork').Pool(NCPU) as pool:
        res = pool.map(_work, [(sql, R, D, run.seed * 1000 + i) for i, sql in enumerate(c11lib.FAMILY)])
    for r in res:
        c = r['check']
        name = 'pushdown:%s' % r['sql'][:70]
        run.stats['solver_calls'] += 1
        run.stats['solver_s'] += c.get('solver_s', 0)
        for ok, info in r.get('validation', []):
            run.validated += 1
            if not ok:
                run.error('SYMREL disagrees with sqlite3 on %r: %s' % (r['sql'], info))
        st = c['status']
        if st == 'discharged':
            run.ob(name, 'discharged', 'unsat in %.2fs; pushed: %s' % (c.get('solver_s', 0), c.get('pushed', '')[:100]))
            if len(run.samples) < 5:
                run.sample({'original': r['sql'], 'pushed': c.get('pushed')})
        elif st == 'counterexample':
            kind = c.get('kind', 'rows')
            if kind == 'rows':
                rep, info = r.get('replay', (False, {}))
                run.counterexample('pushdown:rows:%s' % r['sql'], '%s is pushed as %s: %s' % (r['sql'], c.get('pushed'), c['problems'][-1]),
                                   {'sql': r['sql'], 'pushed': c.get('pushed'), 'witness': c.get('witness'), 'native': info}, rep)
            else:
                run.counterexample('pushdown:%s:%s' % (kind, r['sql']), '%s is pushed as %s: %s' % (r['sql'], c.get('pushed'), c['problems'][0]),
                                   {'sql': r['sql'], 'pushed': c.get('pushed'), 'problems': c['problems']}, True)
            run.ob(name, 'counterexample', c.get('problems'))
        else:
            run.ob(name, 'inconclusive', '%s: %s' % (st, c.get('reason')))
    run.extra['programs'] = len(res)
    run.finish()


def replay(path):
    r = json.load(open(path))
    print(json.dumps(r, indent=1))
    from harness import c11lib
    rp = r['replay']
    if rp.get('witness'):
        rep, info = c11lib.replay_member(rp['sql'], rp['witness'])
        print('native replay now: reproduced=%s %s' % (rep, json.dumps(info, default=repr)))
        return 1 if rep else 0
    c = c11lib.check_member(rp['sql'], 2, 3)
    print('check now:', c.get('status'), c.get('problems'))
    return 1 if c.get('status') == 'counterexample' else 0
