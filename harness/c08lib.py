"""C08 — executing a federated plan returns what the original query returns.
Per family member the real planner runs once; the plan interpreter (engines/planinterp.py) evaluates the emitted steps over a
symbolic database; z3 decides whether plan result and original result can differ on ANY database within the bound."""
import time, copy, itertools, zlib
import z3
from engines import symrel as SR
from engines.planinterp import PlanInterpreter
from harness import planlib as PL

SCHEMA = {'t1': ['id', 'a', 'b'], 't2': ['id', 'c'], 't3': ['id', 'd']}
TINT = {'t1': 'int1', 't2': 'int2', 't3': 'int1'}

JOINS = ['JOIN', 'LEFT JOIN', 'RIGHT JOIN', 'FULL JOIN', 'INNER JOIN']
ONS = ['x.id = y.id', 'x.id = y.id AND y.c > 1', 'x.a > y.c', 'x.id = y.id AND x.a = 1']
WHERES = [None, 'x.a > 1 AND y.c < 3', 'x.a = 1 OR y.c = 2', 'NOT y.c = 1', 'x.a BETWEEN 1 AND 2', 'y.c IS NULL', 'y.c IS NOT NULL AND x.b IS NULL',
          'x.a IN (SELECT d FROM int1.t3)', 'y.c NOT IN (SELECT d FROM int1.t3 WHERE d IS NOT NULL)', 'x.a = y.c', 'x.a IN (1, 2)']
TAILS = [('x.a, y.c', ''), ('x.a, count(y.c) AS n', ' GROUP BY x.a'), ('x.a, y.c', ' ORDER BY x.id LIMIT 1'), ('x.a, y.c', ' LIMIT 1'),
         ('DISTINCT x.a', ''), ('x.a, y.c', ' ORDER BY y.c DESC LIMIT 2 OFFSET 1'), ('x.a, sum(y.c) AS s', ' GROUP BY x.a HAVING sum(y.c) > 1'),
         ('*', '')]
EXTRA = [
    "SELECT * FROM int1.t1 AS x, int2.t2 AS y WHERE x.id = y.id",
    "SELECT x.a, y.c FROM int1.t1 AS x CROSS JOIN int2.t2 AS y",
    "SELECT * FROM int1.t1 JOIN int2.t2 ON t1.id = t2.id JOIN int1.t3 ON t3.id = t2.id",
    "SELECT t1.a, t3.d FROM int1.t1 LEFT JOIN int2.t2 ON t1.id = t2.id LEFT JOIN int1.t3 ON t3.id = t1.id WHERE t1.a > 0",
    "SELECT t1.a, t2.c, t3.d FROM int1.t1 JOIN int2.t2 ON t1.id = t2.id LEFT JOIN int1.t3 ON t3.id = t2.id WHERE t3.d IS NULL",
    # chains whose join keys are equally named columns of DIFFERENT earlier tables, and keys under different names
    "SELECT t1.a, t2.c, t3.d FROM int1.t1 JOIN int2.t2 ON t2.c = t1.id JOIN int1.t3 ON t3.d = t2.id",
    "SELECT t1.a, t2.c, t3.d FROM int1.t1 JOIN int2.t2 ON t2.c = t1.id LEFT JOIN int1.t3 ON t3.d = t2.id",
    "SELECT t1.a, t2.c, t3.d FROM int1.t1 LEFT JOIN int2.t2 ON t2.c = t1.id LEFT JOIN int1.t3 ON t3.d = t2.id WHERE t1.a > 0",
    "SELECT t1.a, t3.d FROM int1.t1 JOIN int2.t2 ON t2.id = t1.a JOIN int1.t3 ON t3.id = t2.c",
    "SELECT t1.a, t2.c, t3.d FROM int1.t1 JOIN int2.t2 ON t1.id = t2.id JOIN int1.t3 ON t3.d = t1.a AND t3.id = t2.c",
    "SELECT a FROM int1.t1 WHERE a IN (SELECT c FROM int2.t2)",
    "SELECT a FROM int1.t1 WHERE a NOT IN (SELECT c FROM int2.t2)",
    "SELECT a FROM int1.t1 WHERE a NOT IN (SELECT c FROM int2.t2 WHERE c IS NOT NULL) AND b > 0",
    "SELECT a FROM int1.t1 WHERE a > (SELECT max(c) FROM int2.t2)",
    "SELECT a, (SELECT max(c) FROM int2.t2) AS m FROM int1.t1",
    "SELECT a FROM int1.t1 UNION SELECT c FROM int2.t2",
    "SELECT a FROM int1.t1 UNION ALL SELECT c FROM int2.t2",
    "SELECT a FROM int1.t1 INTERSECT SELECT c FROM int2.t2",
    "SELECT a FROM int1.t1 EXCEPT SELECT c FROM int2.t2",
    "WITH w AS (SELECT c, id FROM int2.t2) SELECT t1.a, w.c FROM int1.t1 JOIN w ON w.id = t1.id",
    "WITH w AS (SELECT c, id FROM int2.t2 WHERE c > 0) SELECT t1.a, w.c FROM int1.t1 LEFT JOIN w ON w.id = t1.id WHERE t1.a > 0",
    "SELECT s.a, t2.c FROM (SELECT a, id FROM int1.t1 WHERE a > 0) AS s JOIN int2.t2 ON s.id = t2.id",
    "SELECT s.a, u.c FROM (SELECT a, id FROM int1.t1) AS s LEFT JOIN (SELECT c, id FROM int2.t2 WHERE c > 1) AS u ON s.id = u.id",
    "SELECT * FROM (SELECT t1.a, t2.c FROM int1.t1 JOIN int2.t2 ON t1.id = t2.id) AS q WHERE q.a > 0",
    "SELECT x.a FROM int1.t1 AS x JOIN int2.t2 AS y ON x.id = y.id WHERE x.a IN (SELECT d FROM int1.t3) AND y.c > 0 ORDER BY x.id LIMIT 2",
]


# comparison atoms in both operand orders on either table (column first / constant first), as the whole WHERE and under AND
OPS = ['=', '!=', '<', '<=', '>', '>=']
ATOMS = ['%s %s 1' % (c, op) for c in ('x.a', 'y.c') for op in OPS] + ['1 %s %s' % (op, c) for c in ('x.a', 'y.c') for op in OPS] + \
        ['x.a %s y.c' % op for op in OPS[2:]] + ["x.a LIKE y.c", "1 IN (x.a, y.c)", "x.a + 1 > 2", "2 - y.c >= x.a"]


def atom_family(tier):
    js = JOINS[:4] if tier == 'quick' else JOINS
    out = ['SELECT x.a, y.c FROM int1.t1 AS x %s int2.t2 AS y ON x.id = y.id WHERE %s' % (j, a) for j in js for a in ATOMS]
    out += ['SELECT x.a, y.c FROM int1.t1 AS x %s int2.t2 AS y ON x.id = y.id WHERE %s AND y.c IS NOT NULL' % (j, a) for j in js[:2] for a in ATOMS[12:24]]
    return out


# outer query over a FROM-subquery that itself needs planning (another integration inside): outer targets x outer tails x inner shapes
NEST_INNER = ["SELECT a, id FROM int1.t1 WHERE a IN (SELECT c FROM int2.t2)", "SELECT t1.a, t1.id FROM int1.t1 JOIN int2.t2 ON t1.id = t2.id",
              "SELECT a, id FROM int1.t1 WHERE id = (SELECT max(id) FROM int2.t2)"]
NEST_OUTER = [('s.a', ''), ('s.a', ' LIMIT 1'), ('s.a', ' ORDER BY s.id LIMIT 1'), ('count(*) AS n', ''), ('count(*) AS n', ' LIMIT 1'), ('max(s.a) AS m', ' LIMIT 1'),
              ('sum(s.a) AS t, count(s.id) AS n', ' LIMIT 2'), ('DISTINCT s.a', ''), ('s.a, count(*) AS n', ' GROUP BY s.a'), ('s.a', ' WHERE s.a > 0 LIMIT 1'),
              ('count(*) AS n', ' WHERE s.a > 0'), ('s.a', ' ORDER BY s.id DESC LIMIT 1 OFFSET 1')]


# ON clauses whose comparisons sit under NOT / OR / in either operand order / next to a constant condition
ON_SHAPES = ['x.id = y.id AND NOT y.c = 1', 'NOT (x.id = y.id AND y.c = 1)', 'x.id = y.id AND (y.c = 1 OR y.c = 2)', 'x.id = y.id AND 1 = y.c', 'y.id = x.id AND y.c != 1',
             'x.id = y.id AND y.c BETWEEN 1 AND 2', 'x.id = y.id AND y.c IN (1, 2)', 'x.id = y.id AND y.c IS NULL', 'x.id = y.id AND x.a = y.c', 'NOT x.id = y.id',
             'x.id = y.id AND NOT (x.a = 1 OR y.c = 1)', 'x.id = y.id AND 1 >= y.c AND x.a <= 2']


def on_family(tier):
    js = JOINS[:4] if tier == 'quick' else JOINS
    return ['SELECT x.a, y.c FROM int1.t1 AS x %s int2.t2 AS y ON %s' % (j, on) for j in js for on in ON_SHAPES] + \
           ['SELECT x.a, y.c FROM int1.t1 AS x %s int2.t2 AS y ON %s WHERE x.a > 0' % (j, on) for j in js[:2] for on in ON_SHAPES[:6]]


# set operations across integrations: operator x ALL x member shapes (a member's own DISTINCT / GROUP BY / ORDER BY..LIMIT / OFFSET decides which
# rows it contributes; duplicates inside and across members matter for the operator) x a tail on the combined result
SETOPS = ['UNION', 'UNION ALL', 'INTERSECT', 'EXCEPT']
SET_LEFT = ['SELECT a FROM int1.t1', '(SELECT a FROM int1.t1 ORDER BY a LIMIT 1)', '(SELECT a FROM int1.t1 ORDER BY a DESC LIMIT 2)', '(SELECT a FROM int1.t1 ORDER BY a LIMIT 1 OFFSET 1)',
            '(SELECT a FROM int1.t1 ORDER BY id LIMIT 1 OFFSET 1)',
            'SELECT DISTINCT a FROM int1.t1', 'SELECT a FROM int1.t1 WHERE b > 0', 'SELECT a FROM int1.t1 GROUP BY a', 'SELECT count(*) FROM int1.t1', 'SELECT a, b FROM int1.t1']
SET_RIGHT = ['SELECT c FROM int2.t2', 'SELECT DISTINCT c FROM int2.t2', 'SELECT c FROM int2.t2 WHERE c IS NOT NULL', 'SELECT id, c FROM int2.t2']


def setop_family(tier):
    out = []
    for op in SETOPS:
        for l in SET_LEFT:
            for r in SET_RIGHT:
                if (l.count(',') > 0) != (r.count(',') > 0):
                    continue
                out.append('%s %s %s' % (l, op, r))
    out += ['SELECT a FROM int1.t1 %s SELECT c FROM int2.t2 %s SELECT d FROM int1.t3' % (o1, o2) for o1 in SETOPS for o2 in SETOPS]
    if tier == 'quick':
        out = [q for i, q in enumerate(out) if i % 2 == 0 or 'LIMIT' in q]
    return out


def nested_family(tier):
    return ['SELECT %s FROM (%s) AS s%s' % (tg, inner, tail) for inner in NEST_INNER for tg, tail in NEST_OUTER]


# three-table chains: every pair of join kinds x which earlier table the third joins x a NULL test / comparison on each table
# (an outer join later in the chain NULL-extends EVERY table before it, not only its neighbour)
CHAIN_ATOMS = [None, 'x.a IS NULL', 'y.c IS NULL', 'z.d IS NULL', 'x.a IS NOT NULL', 'x.a = 1', 'y.c = 1', 'z.d = 1', 'x.a IS NULL AND z.d = 1']


def chain_family(tier):
    out = []
    for j1, j2, key, atom in itertools.product(JOINS[:4], JOINS[:4], ('y', 'x'), CHAIN_ATOMS):
        if tier == 'quick' and not (atom and 'IS NULL' in atom) and zlib.crc32(repr((j1, j2, key, atom)).encode()) % 3:
            continue
        sql = 'SELECT x.a, y.c, z.d FROM int1.t1 AS x %s int2.t2 AS y ON x.id = y.id %s int1.t3 AS z ON z.id = %s.id' % (j1, j2, key)
        out.append(sql + (' WHERE ' + atom if atom else ''))
    return out


def cte_family(tier):
    """WITH lists of two / three CTEs in different integrations (in every order, one defined from another) x outer queries that read one of
    them, several, or one through a nested select: the answer is what the OUTER query denotes, whichever CTE was planned last"""
    defs = {'c1': 'SELECT a, id FROM int1.t1', 'c2': 'SELECT c, id FROM int2.t2 WHERE c > 0', 'c3': 'SELECT d, id FROM int1.t3', 'c4': 'SELECT a FROM c1 WHERE a > 1'}
    withs = [('c1', 'c2'), ('c2', 'c1'), ('c1', 'c2', 'c3'), ('c1', 'c4', 'c2')]
    outers = ['SELECT * FROM c1', 'SELECT * FROM c2', 'SELECT a FROM c1 WHERE a > 0', 'SELECT * FROM (SELECT * FROM c1) AS s', 'SELECT count(*) AS n FROM c2',
              'SELECT c1.a, c2.c FROM c1 JOIN c2 ON c1.id = c2.id', 'SELECT c2.c, c1.a FROM c2 LEFT JOIN c1 ON c1.id = c2.id', 'SELECT a FROM c1 UNION SELECT c FROM c2',
              'SELECT a FROM c1 WHERE a IN (SELECT c FROM c2)', 'SELECT DISTINCT a FROM c1 ORDER BY a LIMIT 1']
    if tier != 'quick':
        outers += ['SELECT * FROM c4', 'SELECT * FROM c3', 'SELECT c FROM c2 EXCEPT SELECT a FROM c1', 'SELECT c1.a FROM c1 JOIN int2.t2 AS y ON y.id = c1.id']
    out = []
    for w in withs:
        for o in outers:
            if all(n in w for n in ('c1', 'c2', 'c3', 'c4') if n in o.replace(',', ' ').replace('.', ' ').split()):
                out.append('WITH %s %s' % (', '.join('%s AS (%s)' % (n, defs[n]) for n in w), o))
    # a FROM sub-query whose outer query holds another sub-query on another integration
    out += ['SELECT * FROM (SELECT a, id FROM int1.t1) AS s WHERE s.a IN (SELECT c FROM int2.t2)',
            'SELECT s.a FROM (SELECT a, id FROM int1.t1 WHERE a > 0) AS s WHERE s.id NOT IN (SELECT id FROM int2.t2) AND s.a > 1',
            'SELECT s.a, (SELECT max(c) FROM int2.t2) AS m FROM (SELECT a, id FROM int1.t1) AS s']
    # a CTE named like a real table of ANOTHER integration: the bare name means the CTE, the integration-qualified name means the table
    out += ['WITH t2 AS (SELECT a, id FROM int1.t1 WHERE a > 1) SELECT id, a FROM t2 WHERE id IN (SELECT id FROM int2.t2)',
            'WITH t2 AS (SELECT a, id FROM int1.t1) SELECT t2.a, y.c FROM t2 JOIN int2.t2 AS y ON y.id = t2.id',
            'WITH t1 AS (SELECT c, id FROM int2.t2) SELECT a FROM int1.t1 WHERE a IN (SELECT c FROM t1)',
            'WITH t2 AS (SELECT a, id FROM int1.t1) SELECT a FROM t2 UNION SELECT c FROM int2.t2',
            'WITH t2 AS (SELECT a, id FROM int1.t1) SELECT c FROM int2.t2 WHERE c NOT IN (SELECT a FROM t2 WHERE a IS NOT NULL)']
    return out


def join_spelling_family(tier):
    """every spelling of a join kind the live grammar has (two-word and three-word forms, other letter cases) x ON clauses with single-table
    conjuncts on either side x a WHERE on the nullable side: the join kind decides which rows survive, however it is spelled"""
    from harness.c14lib import join_spellings
    sp = [j for j in join_spellings() if j.upper() not in ('JOIN', 'LEFT JOIN', 'RIGHT JOIN', 'FULL JOIN', 'INNER JOIN') or j != j.upper()]
    ons = ['x.id = y.id AND y.c > 1', 'x.id = y.id AND x.a = 1', 'x.id = y.id AND y.c = 1 AND x.b IS NOT NULL']
    whs = ['', ' WHERE y.c IS NULL'] if tier == 'quick' else ['', ' WHERE y.c IS NULL', ' WHERE x.a > 0']
    return ['SELECT x.a, y.c FROM int1.t1 AS x %s int2.t2 AS y ON %s%s' % (j, on, wh) for j in sp for on in ons for wh in whs]


def family(tier):
    out = []
    if tier == 'quick':
        for j, on, wh, (tg, tail) in itertools.product(JOINS[:4], ONS[:3], WHERES[:7], TAILS[:4]):
            if (zlib.crc32(repr((j, on, wh, tg, tail)).encode()) % 3) == 0 or wh is None or tail == '':
                out.append((j, on, wh, tg, tail))
    else:
        out = [(j, on, wh, tg, tail) for j, on, wh, (tg, tail) in itertools.product(JOINS, ONS, WHERES, TAILS)]
    sqls = []
    for j, on, wh, tg, tail in out:
        sql = 'SELECT %s FROM int1.t1 AS x %s int2.t2 AS y ON %s' % (tg, j, on)
        if wh:
            sql += ' WHERE ' + wh
        sql += tail
        sqls.append(sql)
    # deterministic de-dup preserving order
    seen, res = set(), []
    for s_ in sqls + EXTRA + atom_family(tier) + nested_family(tier) + on_family(tier) + setop_family(tier) + chain_family(tier) + cte_family(tier) + join_spelling_family(tier):
        if s_ not in seen:
            seen.add(s_)
            res.append(s_)
    return res


def classify(sql, plan):
    """call-site class of a failing member (used as the finding key)"""
    from mindsdb_sql.planner import steps as S
    from mindsdb_sql.parser.ast import Join
    from mindsdb_sql import parse_sql
    # the recorded finding is the JOIN planner copying the statement's own LIMIT / OFFSET into the fetch of its first table:
    # only a statement whose own FROM is a join of tables and that carries the LIMIT itself belongs to that call site
    q = parse_sql(sql, 'mindsdb')
    if isinstance(getattr(q, 'from_table', None), Join) and getattr(q, 'limit', None) is not None:
        for st in plan.steps:
            if isinstance(st, S.FetchDataframeStep) and st.query is not None and getattr(st.query, 'limit', None) is not None:
                return 'limit-pushed-into-fetch'
    return 'other'


def check_member(sql, R, D, timeout_ms=120000):
    from mindsdb_sql import parse_sql
    from mindsdb_sql.planner import plan_query
    from mindsdb_sql.exceptions import PlanningException
    info = {'sql': sql}
    orig = parse_sql(sql, 'mindsdb')
    try:
        plan = plan_query(parse_sql(sql, 'mindsdb'), **PL.catalog())
    except (PlanningException, NotImplementedError) as e:
        return dict(info, status='rejected', reason='%s: %s' % (type(e).__name__, str(e)[:100]))
    except Exception as e:  # noqa
        return dict(info, status='counterexample', kind='internal-error', problems=['planning raises %s: %s' % (type(e).__name__, str(e)[:100])])
    info['plan'] = [repr(s)[:200] for s in plan.steps]
    db = SR.DB(SCHEMA, R, D)
    ev = SR.Evaluator(db)
    pi = PlanInterpreter(db, TINT)
    try:
        want = ev.query(orig)
    except SR.Unsupported as e:
        return dict(info, status='unsupported', reason='original: %s' % e)
    try:
        got = pi.run(plan)
    except SR.Unsupported as e:
        if pi.foreign:
            return dict(info, status='counterexample', kind='foreign-table', problems=['step %s reads table %s in the wrong integration' % pi.foreign[0]])
        return dict(info, status='unsupported', reason='plan: %s' % e)
    s = z3.Solver()
    s.set('timeout', timeout_ms)
    s.add(db.constraints + ev.assumptions + pi.assumptions)
    unordered_limit = (orig.limit is not None and not orig.order_by) if hasattr(orig, 'limit') else False
    ordered = False
    if unordered_limit:
        if orig.offset is not None:
            return dict(info, status='unsupported', reason='LIMIT/OFFSET without ORDER BY: any rows are a valid answer')
        # valid-answer obligation: plan result is a sub-bag of the unlimited answer with the right cardinality
        unl = copy.deepcopy(orig)
        k = unl.limit.value
        unl.limit = None
        ev2 = SR.Evaluator(db)
        full = ev2.query(unl)
        s.add(ev2.assumptions)
        n_full = z3.Sum([z3.If(p, 1, 0) for p, _ in full.rows]) if full.rows else z3.IntVal(0)
        n_got = z3.Sum([z3.If(p, 1, 0) for p, _ in got.rows]) if got.rows else z3.IntVal(0)
        not_sub = z3.Or([z3.And(p, SR.count_in(got, cs) > SR.count_in(full, cs)) for p, cs in got.rows]) if got.rows else SR.FALSE
        s.add(z3.Or(not_sub, n_got != z3.If(n_full < k, n_full, k)))
        want = full
    else:
        ordered = bool(getattr(orig, 'order_by', None)) and hasattr(want, '_ranks')
        if ordered and not hasattr(got, '_ranks'):
            # the query fixes the order but no step of the plan establishes it on the final result
            info['order_not_established_by_plan'] = True
            ordered = False
        if ordered:
            # same rows in the same order: bags of (row, position), positions unique under the tie-free assumption
            s.add(SR.bags_differ(SR.with_rank(got), SR.with_rank(want)))
        else:
            s.add(SR.bags_differ(got, want))
    t0 = time.time()
    r = str(s.check())
    out = dict(info, solver_s=round(time.time() - t0, 4), obligation='valid-answer' if unordered_limit else ('sequence-equality' if ordered else 'bag-equality'))
    if r == 'unsat':
        out['status'] = 'discharged'
    elif r == 'sat':
        m = s.model()
        out.update(status='counterexample', kind=classify(sql, plan),
                   witness={'db': db.concrete(m), 'plan_rows': SR.concrete_rows(got, m), 'original_rows': SR.concrete_rows(want, m)},
                   problems=['plan returns %s, the query returns %s on %s' % (SR.concrete_rows(got, m), SR.concrete_rows(want, m), db.concrete(m))])
    else:
        out.update(status='inconclusive', reason=r)
    return out


# ---- native replay: sqlite3 runs the original text (integrations = attached schemas) and a concrete twin of the plan ------

def replay_member(sql, witness):
    import sqlite3
    from mindsdb_sql import parse_sql
    from mindsdb_sql.planner import plan_query, steps as S
    plan = plan_query(parse_sql(sql, 'mindsdb'), **PL.catalog())
    con = SR.connect()
    for integ in ('int1', 'int2'):
        con.execute("ATTACH DATABASE ':memory:' AS %s" % integ)
    for t, cols in SCHEMA.items():
        con.execute('CREATE TABLE %s.%s (%s)' % (TINT[t], t, ', '.join('%s INTEGER' % c for c in cols)))
        for r in witness['db'].get(t, []):
            con.execute('INSERT INTO %s.%s VALUES (%s)' % (TINT[t], t, ', '.join('?' * len(cols))), r)
    try:
        # sqlite cannot run a parenthesised member of a set operation: same meaning as a derived table
        from harness.c06lib import member_parens_to_derived
        want = [tuple(r) for r in con.execute(member_parens_to_derived(sql)).fetchall()]
    except Exception as e:  # noqa
        return False, {'note': 'sqlite cannot run the original: %s' % e}
    # concrete twin of the plan: the symbolic interpreter with the database fixed to the witness (same code as the check),
    # cross-checked step by step against sqlite3 for the fetch steps
    db = SR.DB(SCHEMA, max(len(v) for v in witness['db'].values()) or 1, 9)
    pi = PlanInterpreter(db, TINT)
    got_rel = pi.run(plan)
    s = z3.Solver()
    s.add(db.constraints + SR.fix_db(db, witness['db']))
    if str(s.check()) != 'sat':
        return False, {'note': 'witness database does not fit'}
    got = SR.concrete_rows(got_rel, s.model())
    o0 = parse_sql(sql, 'mindsdb')
    seq = bool(getattr(o0, 'order_by', None)) and hasattr(got_rel, '_ranks')
    if seq:
        # the plan's rows in the order its last step establishes
        s.add(pi.assumptions)
        if str(s.check()) != 'sat':
            return False, {'note': 'witness database has ties in a sort key'}
        ranked = SR.concrete_rows(SR.with_rank(got_rel), s.model())
        got = [r[:-1] for r in sorted(ranked, key=lambda r: r[-1])]
    fetch_ok = True
    for st in plan.steps:
        if isinstance(st, S.FetchDataframeStep) and ':Result' not in str(st.query):
            try:
                c2 = SR.connect()
                for t, cols in SCHEMA.items():
                    if TINT[t] == st.integration:
                        c2.execute('CREATE TABLE %s (%s)' % (t, ', '.join('%s INTEGER' % c for c in cols)))
                        for r in witness['db'].get(t, []):
                            c2.execute('INSERT INTO %s VALUES (%s)' % (t, ', '.join('?' * len(cols))), r)
                rows_sqlite = sorted(map(repr, [tuple(r) for r in c2.execute(str(st.query).replace('`', '"')).fetchall()]))
                rows_sym = sorted(map(repr, SR.concrete_rows(pi.results[st.step_num], s.model())))
                if rows_sqlite != rows_sym:
                    fetch_ok = False
            except Exception:  # noqa
                pass
    differs = (list(map(repr, got)) != list(map(repr, want))) if seq else (sorted(map(repr, got)) != sorted(map(repr, want)))
    # for LIMIT without ORDER BY any k rows are fine: only a cardinality / containment difference counts
    from mindsdb_sql import parse_sql as _p
    o = _p(sql, 'mindsdb')
    if getattr(o, 'limit', None) is not None and not o.order_by:
        unl = con.execute(sql[:sql.upper().rindex(' LIMIT ')]).fetchall()
        k = o.limit.value
        pool = [tuple(r) for r in unl]
        ok = len(got) == min(k, len(pool))
        for r in got:
            if r in pool:
                pool.remove(r)
            else:
                ok = False
        differs = not ok
    return differs and fetch_ok, {'sql': sql, 'db': witness['db'], 'sqlite_original_rows': want, 'plan_rows': got, 'fetch_steps_agree_with_sqlite': fetch_ok,
                                   'plan': [repr(x)[:160] for x in plan.steps]}


def validate_member(sql, R, D, rnd, n=2):
    """translator validation of the ORIGINAL side: SYMREL fixed to a random database vs sqlite3 on the text"""
    import sqlite3
    from mindsdb_sql import parse_sql
    orig = parse_sql(sql, 'mindsdb')
    if getattr(orig, 'limit', None) is not None and not getattr(orig, 'order_by', None):
        return []
    out = []
    for _ in range(n):
        data = SR.random_db(SCHEMA, R, D, rnd)
        db = SR.DB(SCHEMA, R, D)
        ev = SR.Evaluator(db)
        try:
            rel = ev.query(orig)
        except SR.Unsupported:
            return out
        s = z3.Solver()
        s.add(db.constraints + SR.fix_db(db, data) + ev.assumptions)
        if str(s.check()) != 'sat':
            continue
        got = SR.concrete_rows(rel, s.model())
        con = SR.connect()
        for integ in ('int1', 'int2'):
            con.execute("ATTACH DATABASE ':memory:' AS %s" % integ)
        for t, cols in SCHEMA.items():
            con.execute('CREATE TABLE %s.%s (%s)' % (TINT[t], t, ', '.join('%s INTEGER' % c for c in cols)))
            for r in data.get(t, []):
                con.execute('INSERT INTO %s.%s VALUES (%s)' % (TINT[t], t, ', '.join('?' * len(cols))), r)
        try:
            from harness.c06lib import member_parens_to_derived
            want = [tuple(r) for r in con.execute(member_parens_to_derived(sql)).fetchall()]
        except Exception:  # noqa
            return out
        out.append((sorted(map(repr, got)) == sorted(map(repr, want)), {'db': data, 'symrel': got, 'sqlite': want}))
    return out
