"""C15 — a time-series model receives exactly its context window plus selected rows (SYMREL, see c15lib)."""
import os, json, random, time
import multiprocessing as mp
from engines.common import Run, VERIF, NCPU


def _work(args):
    m, R, D, seed = args
    import warnings
    warnings.filterwarnings('ignore')
    from harness import c15lib
    rnd = random.Random(seed)
    out = {'m': m}
    try:
        out['check'] = c15lib.check_member(m, R, D)
    except Exception as e:  # noqa
        out['check'] = {'status': 'error', 'reason': repr(e)}
    try:
        v = []
        if out['check']['status'] not in ('rejected', 'unsupported', 'error'):
            for _ in range(2):
                r = c15lib.validate_member(m, R, D, rnd)
                if r is not None:
                    v.append(r)
        out['validation'] = v
    except Exception as e:  # noqa
        out['validation'] = [(False, {'error': repr(e)})]
    if out['check'].get('witness'):
        try:
            out['replay'] = c15lib.replay_witness(m, out['check']['witness'])
        except Exception as e:  # noqa
            out['replay'] = (False, {'error': repr(e)})
    return out


def run(tier):
    run = Run('C15', tier, level='translation_validation')
    from harness import c15lib
    from harness import planlib as PL
    from mindsdb_sql.exceptions import PlanningException
    R, D = (3, 3) if tier == 'quick' else (4, 4)
    members = list(c15lib.members())
    run.bounds = {'table_rows_max': R, 'value_range': [0, D], 'window': '1..%d (symbolic)' % R, 'user_constants': 'symbolic in range',
                  'family': 'time condition (9) x partition filter (3) x group-by columns 0..2 x model side x LIMIT, plus time condition (8) x partition filter (2) x 5 other orders / groupings of the WHERE conjuncts x group-by columns 1..2 = %d members' % len(members)}
    run.functions = ['plan_query -> PlanJoinTSPredictorQuery.plan / plan_timeseries_predictor (real, per family member)', 'ts_utils.*',
                     'emitted FetchDataframeStep / MultipleSteps / MapReduceStep queries (interpreted symbolically by SYMREL)']
    run.assumptions = ['ties excluded: within a partition the non-NULL order values of present rows are pairwise distinct (with ties the engine may return any window)',
                       'partition columns are non-NULL for rows that count (a NULL partition value never equals $var[col])',
                       'MultipleSteps/MapReduceStep reduce="union" concatenates its inputs (docstring of planner/steps.py)',
                       'window size and constants reach the emitted queries as the marked constants 777/555/556, replaced by symbolic integers',
                       'integer-valued time column; R rows; values 0..D']
    with mp.get_context('fork').Pool(NCPU) as pool:
        res = pool.map(_work, [(m, R, D, run.seed * 1000 + i) for i, m in enumerate(members)])
    programs = 0
    for r in res:
        m, c = r['m'], r['check']
        name = 'ts:%s' % '/'.join(str(x) for x in m)
        run.stats['solver_calls'] += 1
        run.stats['solver_s'] += c.get('solver_s', 0)
        programs += 1
        for ok, info in r.get('validation', []):
            run.validated += 1
            if not ok:
                run.error('SYMREL plan interpreter disagrees with sqlite3 on %s: %s' % (name, info))
        st = c['status']
        if st == 'discharged':
            run.ob(name, 'discharged', 'unsat in %.2fs' % c.get('solver_s', 0))
        elif st == 'counterexample':
            problems = c.get('problems', [])
            for p in problems:
                if p.startswith('model input differs'):
                    rep, info = r.get('replay', (False, {}))
                    run.counterexample('ts-window:rows:%s' % name, '%s: %s' % (c['sql'], p), {'member': m, 'witness': c.get('witness'), 'native': info}, rep)
                elif p.startswith('output_time_filter'):
                    run.counterexample('ts-window:output-filter:%s' % m[0].replace('cast', ''), '%s: %s' % (c['sql'], p), {'member': m, 'sql': c['sql']}, True)
                else:
                    run.counterexample('ts-window:structure:%s:%s' % (name, p[:40]), '%s: %s' % (c['sql'], p), {'member': m, 'sql': c['sql']}, True)
            run.ob(name, 'counterexample', problems[:2])
        elif st == 'rejected':
            run.ob(name, 'inconclusive', 'planner rejects this member: %s' % c.get('reason'))
        else:
            run.ob(name, 'inconclusive', '%s: %s' % (st, c.get('reason')))
        if len(run.samples) < 4 and st == 'discharged':
            run.sample({'sql': c['sql'], 'plan': c.get('plan')})
    # rejected shapes
    for sql, what in c15lib.REJECTED:
        try:
            PL.plan_sql(sql, **c15lib.catalog(1))
            run.counterexample('ts-window:not-rejected:%s' % what, 'time-series join with %s is planned instead of rejected: %s' % (what, sql), {'sql': sql}, True)
            run.ob('rejects:%s' % what, 'counterexample', None)
        except PlanningException:
            run.ob('rejects:%s' % what, 'discharged', None)
        except Exception as e:  # noqa
            run.counterexample('ts-window:rejects-with-internal-error:%s' % what, '%s raises %r' % (sql, e), {'sql': sql}, True)
            run.ob('rejects:%s' % what, 'counterexample', repr(e))
        run.validated += 1
    # generated: filters on columns whose names are derived from the allowed ones
    gen = c15lib.rejected_generated()
    bad, n = {}, 0
    for (o, gs), sql, c in gen:
        n += 1
        try:
            PL.plan_sql(sql, **c15lib.rej_catalog(o, gs))
            bad.setdefault('planned', []).append((sql, c, o, gs))
        except PlanningException:
            pass
        except Exception as e:  # noqa
            bad.setdefault('raises %s' % type(e).__name__, []).append((sql, c, o, gs))
    for what, items in sorted(bad.items()):
        sql, c, o, gs = items[0]
        run.counterexample('ts-window:other-column-filter-%s' % what.replace(' ', '-'),
                           'time-series join (order column %s, partition columns %s) with a filter on column %s is %s instead of rejected: %s (%d statements, columns %s)'
                           % (o, gs, c, what, sql, len(items), sorted({i[1] for i in items})[:8]), {'sql': sql, 'order_by_column': o, 'group_by_columns': gs}, True)
    run.ob('rejects:filter on another column, generated: %d statements (names derived from the allowed column names x %d condition shapes x 2 catalogs)' % (n, len(c15lib.REJ_SHAPES)),
           'counterexample' if bad else 'discharged', None)
    run.validated += n
    run.extra['programs'] = programs
    run.finish()


def replay(path):
    r = json.load(open(path))
    print(json.dumps(r, indent=1))
    from harness import c15lib
    rp = r['replay']
    if rp.get('order_by_column'):
        from mindsdb_sql.exceptions import PlanningException
        from harness import planlib as PL
        try:
            PL.plan_sql(rp['sql'], **c15lib.rej_catalog(rp['order_by_column'], rp['group_by_columns']))
            print('native replay now: reproduced=True (planned instead of rejected)')
            return 1
        except PlanningException as e:
            print('native replay now: reproduced=False PlanningException %s' % str(e)[:100])
            return 0
        except Exception as e:  # noqa
            print('native replay now: reproduced=True raises %r' % e)
            return 1
    if rp.get('witness'):
        rep, info = c15lib.replay_witness(tuple(rp['member']), rp['witness'])
        print('native replay now: reproduced=%s %s' % (rep, json.dumps(info, default=repr)))
        return 1 if rep else 0
    return 2
