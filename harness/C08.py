"""C08 — executing a federated plan returns what the original query returns (SYMREL plan interpreter, see c08lib)."""
import json, random
import multiprocessing as mp
from engines.common import Run, NCPU


def _work(args):
    sql, R, D, seed = args
    import warnings
    warnings.filterwarnings('ignore')
    from harness import c08lib
    out = {'sql': sql}
    try:
        out['check'] = c08lib.check_member(sql, R, D)
    except Exception as e:  # noqa
        import traceback
        out['check'] = {'status': 'error', 'reason': repr(e) + traceback.format_exc()[-300:], 'sql': sql}
    try:
        out['validation'] = c08lib.validate_member(sql, R, D, random.Random(seed))
    except Exception as e:  # noqa
        out['validation'] = []
    if out['check'].get('witness'):
        try:
            out['replay'] = c08lib.replay_member(sql, out['check']['witness'])
        except Exception as e:  # noqa
            out['replay'] = (False, {'error': repr(e)})
    return out


def run(tier):
    run = Run('C08', tier, level='translation_validation')
    from harness import c08lib
    R, D = (2, 3) if tier == 'quick' else (3, 3)
    fam = c08lib.family(tier)
    run.bounds = {'rows_per_table_max': R, 'value_range': [0, D], 'family_members': len(fam), 'schema': c08lib.SCHEMA, 'tables_to_integrations': c08lib.TINT}
    run.functions = ['plan_query (real, per member): QueryPlanner.plan_select / PlanJoinTablesQuery.* / plan_nested_select / plan_union / plan_cte',
                     'all emitted steps (FetchDataframeStep, SubSelectStep, JoinStep, QueryStep, UnionStep, LimitOffsetStep, ProjectStep) interpreted by engines/planinterp.py']
    run.assumptions = ['step semantics from the docstrings of planner/steps.py; column identity convention of plan_join.py (see engines/planinterp.py)',
                       'ORDER BY .. LIMIT: sort keys of the present rows pairwise distinct and non-NULL (ties are the engine\'s choice); LIMIT without ORDER BY: the plan must return A valid answer (sub-bag of the unlimited answer with the right cardinality)',
                       'predictor-free queries over 3 integer tables in 2 integrations; models are C14/C15; window functions outside the fragment',
                       'order of rows is not compared (bag equality)']
    with mp.get_context('fork').Pool(NCPU) as pool:
        res = pool.map(_work, [(sql, R, D, run.seed * 1000 + i) for i, sql in enumerate(fam)], chunksize=2)
    n_unsup = 0
    for r in res:
        c = r['check']
        name = 'fed:%s' % r['sql'][:90]
        run.stats['solver_calls'] += 1
        run.stats['solver_s'] += c.get('solver_s', 0)
        for ok, info in r.get('validation', []):
            run.validated += 1
            if not ok:
                run.error('SYMREL disagrees with sqlite3 on %r: %s' % (r['sql'], info))
        st = c['status']
        if st == 'discharged':
            run.ob(name, 'discharged', '%s unsat in %.2fs' % (c.get('obligation'), c.get('solver_s', 0)))
            if len(run.samples) < 4:
                run.sample({'sql': r['sql'], 'plan': c.get('plan')})
        elif st == 'counterexample':
            kind = c.get('kind', 'other')
            if c.get('witness'):
                rep, info = r.get('replay', (False, {}))
                key = 'federated:%s' % kind if kind != 'other' else 'federated:rows:%s' % r['sql']
                run.counterexample(key, '%s: %s' % (r['sql'], c['problems'][0][:300]), {'sql': r['sql'], 'witness': c['witness'], 'native': info, 'plan': c.get('plan')}, rep)
                run.ob(name, 'counterexample' if rep else 'inconclusive', kind)
            else:
                run.counterexample('federated:%s:%s' % (kind, r['sql']), '%s: %s' % (r['sql'], c['problems'][0]), {'sql': r['sql'], 'plan': c.get('plan')}, True)
                run.ob(name, 'counterexample', kind)
        else:
            if st == 'unsupported':
                n_unsup += 1
            run.ob(name, 'inconclusive', '%s: %s' % (st, c.get('reason')))
    run.extra['programs'] = len(res)
    run.extra['members_outside_the_evaluator_fragment'] = n_unsup
    run.finish()


def replay(path):
    r = json.load(open(path))
    print(json.dumps(r, indent=1)[:3000])
    from harness import c08lib
    rp = r['replay']
    if rp.get('witness'):
        rep, info = c08lib.replay_member(rp['sql'], rp['witness'])
        print('native replay now: reproduced=%s %s' % (rep, json.dumps(info, default=repr)))
        return 1 if rep else 0
    return 2
