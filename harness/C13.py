"""C13 — the AST walker visits everything once, in order.  Per-node-kind induction step under CrossHair
(presence mask, list lengths and the replaced index are symbolic); see harness/c13lib.py for the step."""
import os, json
from engines.common import Run, ch_obligations, VERIF

TEMPLATE = '''
def step_{name}(mask: int, n1: int, n2: int, rep: int) -> int:
    """
    pre: {mlo} <= mask < {mhi}
    pre: 0 <= n1 <= {nmax}
    pre: 0 <= n2 <= {nmax}
    pre: -1 <= rep <= {repmax}
    post: _ == 0
    """
    return len(step('{cls}', mask, n1, n2, rep)) + len(step_dup('{cls}', mask, n1, n2, rep))


def step_{name}_reach(mask: int, n1: int, n2: int, rep: int) -> int:
    """
    pre: {mlo} <= mask < {mhi}
    pre: 0 <= n1 <= {nmax}
    pre: 0 <= n2 <= {nmax}
    pre: -1 <= rep <= {repmax}
    post: False
    """
    return len(step('{cls}', mask, n1, n2, rep))


def repk_{name}(mask: int, n1: int, n2: int, rep: int, rk: int) -> int:
    """
    pre: {mlo} <= mask < {mhi}
    pre: 0 <= n1 <= 1
    pre: 0 <= n2 <= 1
    pre: 0 <= rep <= {repmax}
    pre: 1 <= rk <= {rkmax}
    post: _ == 0
    """
    return len(step_dup('{cls}', mask, n1, n2, rep, rk))


def repk_{name}_reach(mask: int, n1: int, n2: int, rep: int, rk: int) -> int:
    """
    pre: {mlo} <= mask < {mhi}
    pre: 0 <= n1 <= 1
    pre: 0 <= n2 <= 1
    pre: 0 <= rep <= {repmax}
    pre: 1 <= rk <= {rkmax}
    post: False
    """
    return len(step_dup('{cls}', mask, n1, n2, rep, rk))
'''


def gen(tier):
    from harness import c13lib
    nmax = 2 if tier == 'quick' else 3
    repmax = 8 if tier == 'quick' else 14
    d = os.path.join(VERIF, '.scratch')
    os.makedirs(d, exist_ok=True)
    path = os.path.join(d, 'gen_ch_C13.py')
    with open(path, 'w') as f:
        f.write('from harness.c13lib import step, step_dup\nfrom harness.planlib import ci, NoTracing\n')
        names = []
        for cls in c13lib.BUILDERS:
            chunks = [(i * 4, i * 4 + 4) for i in range(16)] if cls == 'Select' else [(0, 64)]
            for lo, hi in chunks:
                name = cls if len(chunks) == 1 else '%s_m%d' % (cls, lo)
                f.write(TEMPLATE.format(cls=cls, name=name, nmax=nmax, repmax=repmax, mlo=lo, mhi=hi, rkmax=len(c13lib.REPL_KINDS) - 1))
                names.append((name, cls))
    return path, names


def mk_replay(cls):
    def replay(args):
        from harness import c13lib
        try:
            if 'rk' in args:
                pr = c13lib.step_dup(cls, args['mask'], args['n1'], args['n2'], args['rep'], args['rk'])
            else:
                pr = c13lib.step(cls, args['mask'], args['n1'], args['n2'], args['rep']) + c13lib.step_dup(cls, args['mask'], args['n1'], args['n2'], args['rep'])
        except Exception as e:  # noqa
            pr = ['walker raised %r' % e]
        key = 'walker:%s:%s' % (cls, c13lib.classify(pr))
        return bool(pr), {'class': cls, 'args': args, 'problems': pr[:5]}, key, 'query_traversal on %s: %s' % (cls, pr[0] if pr else '')
    return replay


def run(tier):
    run = Run('C13', tier)
    from harness import c13lib
    path, classes = gen(tier)
    run.bounds = {'list_length_max': 2 if tier == 'quick' else 3, 'optional_slots': 'all subsets (6-bit mask)',
                  'replaced_index': 'none or any of the first 9/15 visited nodes', 'replacement_kinds': 'Identifier (all bounds); empty Tuple, Constant(0), NULL, Star, empty string, argument-less function (list lengths <= 1)', 'depth': 'one node kind per step; induction on depth gives all trees'}
    run.functions = ['mindsdb_sql.planner.utils.query_traversal', '<node>.to_string of every walked node class']
    run.assumptions = ['slot inventory (which attributes are child slots; table / target positions) is the table in harness/c13lib.py, cross-checked by reflection on vars(node)',
                       'loops over list slots are uniform: lengths beyond the bound are covered by the same loop body (stated, not proven)',
                       'identifier column-name lists (Insert.columns, Update.keys, CreateTable.columns) and LIMIT/OFFSET constants are not expression slots']
    gaps = c13lib.inventory_gaps()
    if gaps:
        for g in gaps:
            run.ob('inventory:' + g, 'inconclusive', 'node-valued attribute not covered by a marker')
    # new node classes with children that the table does not know
    unknown = unknown_classes()
    for u in unknown:
        run.ob('inventory:class:' + u, 'inconclusive', 'ASTNode subclass with node-valued constructor arguments, no builder')
    specs = [dict(fn='step_%s' % n, twin='step_%s_reach' % n, replay=mk_replay(c)) for n, c in classes]
    specs += [dict(fn='repk_%s' % n, twin='repk_%s_reach' % n, replay=mk_replay(c)) for n, c in classes]
    ch_obligations(run, path, specs, cond_to=360 if tier == "quick" else 900, path_to=30)
    run.extra['node_classes'] = sorted(set(c for n, c in classes))
    # leaves: node kinds without node children (constants of every value kind, INTERVAL, variables, placeholders, raw data ..) in four parent positions
    try:
        from harness import c13lib as _c13
        n_, pr_ = _c13.leaf_steps()
        run.validated += n_
        seen_ = set()
        for p_ in pr_:
            k_ = p_.split(':')[0]
            if k_ in seen_:
                continue
            seen_.add(k_)
            run.counterexample('walker:leaf:%s' % k_, 'query_traversal: %s' % p_, {'leaf_step': p_}, True)
        run.ob('leaf-steps:%d walks' % n_, 'counterexample' if pr_ else 'discharged', None)
    except Exception as e:  # noqa
        run.error('leaf steps crashed: %r' % e)
    run.finish()


def unknown_classes():
    import inspect
    import mindsdb_sql.parser.ast as A
    from mindsdb_sql.parser.ast.base import ASTNode
    from harness import c13lib
    known = set(c13lib.BUILDERS) | c13lib.LEAF_OK
    out = []
    for n, c in vars(A).items():
        if inspect.isclass(c) and issubclass(c, ASTNode) and c is not ASTNode and n not in known:
            # statement-level command classes (Show, Set, Use, Drop*, Create* DDL ...) carry names/options only;
            # a class is suspicious if the walker source mentions it but the table does not
            src = inspect.getsource(__import__('mindsdb_sql.planner.utils', fromlist=['x']).query_traversal)
            if ('ast.%s' % n) in src:
                out.append(n)
    return out


def replay(path):
    r = json.load(open(path))
    print(json.dumps(r, indent=1))
    if r['replay'].get('leaf_step'):
        from harness import c13lib as _c13
        n_, pr_ = _c13.leaf_steps()
        hit = [p_ for p_ in pr_ if p_.split(':')[0] == r['replay']['leaf_step'].split(':')[0]]
        print('native replay now: reproduced=%s %s' % (bool(hit), hit[:1]))
        return 1 if hit else 0
    cls = r['replay']['harness'].replace('step_', '').replace('repk_', '').split('_m')[0]
    rep, info, key, what = mk_replay(cls)(r['replay']['args'])
    print('native replay now: reproduced=%s %s' % (rep, json.dumps(info, default=repr)))
    return 1 if rep else 0
