"""C02 — parsing terminates with a tree or a parsing error, never a crash.
U3/U4: SYMTOK through the real parse_sql tail (parse loop, dialect error(), ErrorHandling un-stubbed);
U1/U2/U5: CrossHair units (lexer error reporter, grammar actions on symbolic child values, wrapper)."""
import os, json, random
from engines.common import Run, ch_obligations, VERIF
from engines import sweep as SW
from harness.C05 import to_sql

HARNESS = os.path.join(VERIF, 'harness', 'ch_C02.py')


def replay_internal(f):
    from mindsdb_sql import parse_sql
    from mindsdb_sql.exceptions import ParsingException
    from sly.lex import LexError
    d = f['dialect']
    L, P = SW.dialect_classes(d)
    sql = SW.rebuild_text(d, f) if f.get('base_sql') else to_sql(d, f.get('instance') or f['types'], f.get('linenos'))
    info = {'sql': sql, 'dialect': d}
    try:
        lexed = [t.type for t in L().tokenize(sql)]
    except Exception as e:  # noqa
        return False, dict(info, lex_error=repr(e))
    if lexed != list(f.get('instance') or f['types']):
        return False, dict(info, note='text does not lex to the path token types', lexed=lexed)
    try:
        r = parse_sql(sql, d)
        info['result'] = repr(r)[:120]
        from mindsdb_sql.parser.ast.base import ASTNode
        return not isinstance(r, ASTNode), info
    except (ParsingException, LexError) as e:
        info['result'] = type(e).__name__
        return False, info
    except Exception as e:  # noqa
        info['result'] = 'internal %s: %s' % (type(e).__name__, str(e)[:150])
        return True, info


def handle(run, name, res):
    bad = [f for f in res['findings'] if f['kind'] in ('internal-error', 'none-returned', 'non-tree-result')]
    if not bad:
        run.ob(name, 'discharged', 'paths=%d streams=%d accept=%d reject=%d' % (res['paths'], res['covered'], res.get('accept', 0), res.get('reject', 0)))
        return
    groups = {}
    for f in bad:
        groups.setdefault((f['dialect'], f.get('exc'), f.get('msg', '')[:60]), []).append(f)
    n = 0
    for (d, exc, msg), fs in groups.items():
        fs.sort(key=lambda f: len(f['types']))
        done = False
        for f in fs[:5]:
            rep, info = replay_internal(f)
            if rep:
                key = 'internal-error:%s:%s:%s' % (d, exc, msg)
                run.counterexample(key, '%s raises %s (%s) for %s' % (d, exc, msg, info.get('sql')), {'finding': f, 'native': info}, True)
                n += 1
                done = True
                break
        if not done:
            run.error('SYMTOK internal-error path did not reproduce natively: %s %s %s e.g. %s' % (d, exc, msg, ' '.join(fs[0]['types'])))
    run.ob(name, 'counterexample' if n else 'inconclusive', '%d internal-error paths in %d groups' % (len(bad), len(groups)))


def run(tier):
    run = Run('C02', tier)
    KS = (1, 2, 3) if tier == 'quick' else (1, 2, 3, 4)
    run.bounds = {'space_i_token_counts': list(KS), 'space_iii': 'corpus +/- one symbolic token, 1-token affixes',
                  'ch_units': 'strings <= 4 chars, ints any, dict <= 2 keys'}
    run.functions = ['mindsdb_sql.parse_sql', 'sly.yacc.Parser.parse', '<Parser>.error', 'ErrorHandling.*', 'every grammar action reached',
                     'MindsDBLexer.error', 'grammar actions as units (see obligation list)']
    run.assumptions = ['SYMTOK: token values are one representative lexeme per terminal; value-dependent crashes are the CH action units\' job',
                       'RecursionError: a concrete size family (every directly recursive production pumped 600/900 times in its shortest context, plus operator chains / nestings written out) must parse or be rejected; deeper input is outside the claim',
                       'lexer totality for arbitrary text: see U1 (error reporter) and C01 (LEXZ3)',
                       'input without tokens: the empty stream through the real tail, and texts of <= 2 / 3 segments drawn from z3 models of every ignore_* rule of the live lexer (<= 10 characters, up to 4 per rule), the ignored characters and semicolons']
    for d in SW.DIALECTS:
        for K in KS:
            res, size = SW.sweep_space1(d, K)
            run.add_stats({'paths': res['paths'], 'solver_calls': res['solver_calls'], 'solver_s': res['solver_s']})
            if res['covered'] != size:
                run.error('space-i %s K=%d not exhaustive: %d of %d' % (d, K, res['covered'], size))
            handle(run, 'U3U4:space-i:%s:K=%d' % (d, K), res)
            for s in res['samples'][:1]:
                run.sample({'space': 'i:%s:K=%d' % (d, K), **s})
    corpus = SW.harvest_corpus()
    rnd = random.Random(run.seed)
    for d in SW.DIALECTS:
        stmts = list(corpus[d])
        rnd.shuffle(stmts)
        if tier == 'quick':
            stmts = stmts[:40]
        res, _ = SW.sweep_space3(d, stmts)
        run.add_stats({'paths': res['paths'], 'solver_calls': res['solver_calls'], 'solver_s': res['solver_s']})
        handle(run, 'U3U4:space-iii:%s:%d-statements' % (d, len(stmts)), res)
        for s in res['samples'][:1]:
            run.sample({'space': 'iii:%s' % d, **s})
    if os.path.exists(HARNESS):
        from harness import C02_units
        C02_units.add(run, tier)
    from harness import c02u2
    c02u2.add(run, tier)
    from harness import c02deep
    c02deep.add(run, tier)
    from harness import c02empty
    try:
        c02empty.add(run, tier)
    except Exception as e:  # noqa
        run.error('no-token family crashed: %r' % e)
    run.finish()


def replay(path):
    r = json.load(open(path))
    print(json.dumps(r, indent=1))
    sf = r['replay'].get('size_family')
    if sf:
        from harness import c02deep
        N, jobs = c02deep.family('thorough' if ' x 9' in sf['label'] else 'quick')
        for d, label, sql in jobs:
            if d == sf['dialect'] and label == sf['label']:
                res = c02deep._one((d, label, sql))
                print('native replay now:', res)
                return 1 if res[2].startswith(('internal', 'non-tree')) else 0
        return 2
    if r['replay'].get('no_tokens'):
        from harness import c02empty
        return c02empty.replay(r)
    f = r['replay'].get('finding')
    if f:
        rep, info = replay_internal(f)
        print('native replay now: reproduced=%s %s' % (rep, json.dumps(info, default=repr)))
        return 1 if rep else 0
    return 2
