"""Driver shared by C09 and C10 (see c0910lib)."""
import os, json
from engines.common import Run, ch_obligations, VERIF

T = '''
def fam_{fn}(a0: bool, a1: bool, a2: bool, b0: bool, b1: bool, b2: bool, m0: bool, as_dicts: bool, legacy_meta: bool) -> int:
    """
    post: _ == 0
    """
    return step('{name}', (a0, a1, a2), (b0, b1, b2), (m0,), as_dicts, legacy_meta, {which})


def fam_{fn}_reach(a0: bool, a1: bool, a2: bool, b0: bool, b1: bool, b2: bool, m0: bool, as_dicts: bool, legacy_meta: bool) -> int:
    """
    post: False
    """
    return step('{name}', (a0, a1, a2), (b0, b1, b2), (m0,), as_dicts, legacy_meta, {which})
'''


TG = '''
def gen_{base}(i0: bool, i1: bool, i2: bool, i3: bool, i4: bool, i5: bool, a0: bool, b0: bool, as_dicts: bool, legacy_meta: bool) -> int:
    """
    post: _ == 0
    """
    return step_gen({base}, (i0, i1, i2, i3, i4, i5), a0, b0, as_dicts, legacy_meta, {which})
'''


def gen(which):
    from harness import c0910lib
    d = os.path.join(VERIF, '.scratch')
    os.makedirs(d, exist_ok=True)
    path = os.path.join(d, 'gen_ch_C%02d.py' % which)
    names = []
    with open(path, 'w') as f:
        f.write('from harness.c0910lib import step, step_gen\n')
        for name in c0910lib.SK:
            fn = name.replace('-', '_')
            f.write(T.format(fn=fn, name=name, which=which))
            names.append((fn, name))
        for base in range(0, len(c0910lib.GEN), 64):
            f.write(TG.format(base=base, which=which))
            names.append(('GEN', base))
    return path, names


def mk_replay(name, which):
    def replay(args):
        from harness import c0910lib
        if isinstance(name, int):
            idx = name + sum((1 << i) for i in range(6) if args['i%d' % i])
            a0, b0 = bool(args['a0']), bool(args['b0'])
            ba, bb, bm = (a0, False, a0), (b0, b0, False), (False,)
            lname = idx
        else:
            ba = tuple(bool(args['a%d' % i]) for i in range(3))
            bb = tuple(bool(args['b%d' % i]) for i in range(3))
            bm = (bool(args['m0']),)
            lname = name
        try:
            p09, p10, info = c0910lib.leaf(lname, ba, bb, bm, bool(args['as_dicts']), bool(args['legacy_meta']))
        except Exception as e:  # noqa
            p09, p10, info = ['check crashed %r' % e], ['check crashed %r' % e], {}
        pr = p09 if which == 9 else p10
        import re
        cls = re.sub(r'\d+', 'N', pr[0])[:70] if pr else ''
        if pr and 'not strictly earlier' in pr[0]:
            cls = 'forward-reference'
        elif pr and 'the last step is not computed from' in pr[0]:
            cls = 'last-step-not-the-answer'
        elif pr and 'is numbered' in pr[0]:
            cls = 'numbering'
        elif pr and 'internal error' in pr[0]:
            cls = 'internal-error'
        elif pr and 'differs from the plan of the canonical' in pr[0]:
            cls = 'spelling-dependent-plan'
        kname = name
        if isinstance(name, int):
            tmpl = c0910lib.GEN[lname]
            kname = 'gen'
            on_part = tmpl[tmpl.index(' ON ') + 4:] if ' ON ' in tmpl else tmpl[tmpl.index(' FROM ') + 6:]
            on_only = on_part.split(' WHERE ')[0]
            if '(SELECT' in on_only and which == 10:
                cls = 'subquery-in-join-condition-not-planned'
            else:
                cls = cls + ':' + on_part[:60]
        key = ('plan-wellformed:%s:%s' if which == 9 else 'routing:%s:%s') % (kname, cls)
        return bool(pr), dict(info, problems=pr[:4]), key, '%s: %s' % (info.get('sql'), pr[0] if pr else '')
    return replay


def run_for(pid, which, tier):
    run = Run(pid, tier)
    from harness import c0910lib
    path, names = gen(which)
    run.bounds = {'skeletons': len(names), 'spellings': 'every upper/lower-case spelling of the qualifiers int1, int2 (3 letters each) and the first letter of mindsdb/proj',
                  'catalog_forms': 'integrations as names or dicts x predictor metadata as list or legacy dict'}
    run.functions = ['mindsdb_sql.planner.plan_query / QueryPlanner.*', 'PlanJoin / PlanJoinTablesQuery / PlanJoinTSPredictorQuery', 'planner.utils.query_traversal']
    run.assumptions = ['statement skeletons are the family in harness/c0910lib.py (table positions: FROM, JOIN sides, subquery in WHERE/target/CASE operand/function argument, CTE, FROM-subquery, UNION, INSERT..SELECT, UPDATE..FROM, DELETE, CREATE TABLE AS, model joins, api and files databases); other shapes are outside the claim',
                       'structure variables are finite-domain: CrossHair/z3 split the input space, each leaf runs the real parser and planner natively',
                       'plans are compared case-insensitively (the DML target identifier keeps the user spelling; resolving it is the executor\'s job)']
    specs = [dict(fn='fam_%s' % fn, twin='fam_%s_reach' % fn, replay=mk_replay(name, which)) for fn, name in names if fn != 'GEN']
    specs += [dict(fn='gen_%d' % base, twin=None, replay=mk_replay(base, which)) for fn, base in names if fn == 'GEN']
    run.bounds['generated_join_family'] = '%d statements: 3 join kinds x 16 ON shapes x 7 WHERE shapes x 3 select/tail shapes; a second block of select-list / tail shapes; a third block joining two tables of ONE integration with a subquery on another integration in WHERE / select list / CASE / function argument; x 2 spellings each of int1/int2 x catalog forms' % len(c0910lib.GEN)
    ch_obligations(run, path, specs, cond_to=300 if tier == 'quick' else 900, path_to=60)
    for name in list(c0910lib.SK)[:3]:
        run.sample({'skeleton': name, 'template': c0910lib.SK[name][0]})
    run.finish()


def replay_for(which, path):
    r = json.load(open(path))
    print(json.dumps(r, indent=1))
    from harness import c0910lib
    h = r['replay']['harness'].replace('fam_', '')
    if h.startswith('gen_'):
        rep, info, key, what = mk_replay(int(h[4:]), which)(r['replay']['args'])
        print('native replay now: reproduced=%s %s' % (rep, json.dumps(info, default=repr)))
        return 1 if rep else 0
    for name in c0910lib.SK:
        if name.replace('-', '_') == h:
            rep, info, key, what = mk_replay(name, which)(r['replay']['args'])
            print('native replay now: reproduced=%s %s' % (rep, json.dumps(info, default=repr)))
            return 1 if rep else 0
    return 2
