"""C19 - suggestions after a history of other error messages.  The SYMTOK sweeps examine every error path on its own; here the real parse_sql
reports a long list of rejected texts one after the other in ONE interpreter (statements of the test corpus cut after every token: input that
ends too early, and the same with a token the grammar cannot take there appended), in two different orders, and every concrete suggestion of
every message is checked against the real parser: placed after the accepted part of the text it must be shifted.  Anything the reporter keeps
between messages (a memo of tried tokens, a cached parser state) and reuses where it does not apply shows up as a suggestion the parser rejects.
A finding is replayed in a fresh interpreter by reporting the same list in the same order up to the failing text."""
import os, sys, re, json, random, subprocess

WRONG = [')', ',', 'x', '1', 'select', '=']


def texts(tier, seed=0):
    from engines import sweep as SW
    L, P = SW.dialect_classes('mindsdb')
    corpus = sorted(SW.harvest_corpus()['mindsdb'])
    random.Random(seed).shuffle(corpus)
    corpus = corpus[:400 if tier == "quick" else 100000]
    out, seen = [], set()
    for sql in corpus:
        try:
            toks = list(L().tokenize(sql))
        except Exception:  # noqa
            continue
        if not (2 <= len(toks) <= 40):
            continue
        for k in range(1, len(toks)):
            cut = sql[:toks[k].index].rstrip()
            for t in [cut] + ([cut + ' ' + WRONG[(k + len(cut)) % len(WRONG)]] if k % 2 == 0 else []):
                if t and t not in seen:
                    seen.add(t)
                    out.append(t)
    return out


def order(ts, name):
    if name == 'forward':
        return list(ts)
    if name == 'reverse':
        return list(reversed(ts))
    r = list(ts)
    random.Random(7).shuffle(r)
    return r


def report_all(ts, stop_at=None):
    """-> list of (index, text, bad suggestion, message tail) for every concrete suggestion the real parser does not take"""
    from mindsdb_sql import parse_sql
    from mindsdb_sql.exceptions import ParsingException
    from engines import sweep as SW
    from engines.c19lib import error_position, PLACEHOLDERS, _token_for
    L, P = SW.dialect_classes('mindsdb')
    bad, n_msgs, n_sugg = [], 0, 0
    for i, t in enumerate(ts):
        if stop_at is not None and i > stop_at:
            break
        try:
            parse_sql(t, 'mindsdb')
            continue
        except ParsingException as e:
            msg = str(e)
        except Exception:  # noqa  (lexer errors, internal errors: C02's subject)
            continue
        n_msgs += 1
        last = msg.split('\n')[-1]
        if not (last.startswith('Possible inputs: ') or last.startswith('Expected symbol: ')):
            continue
        try:
            toks = list(L().tokenize(re.sub(r'[\s;]+$', '', t)))
        except Exception:  # noqa
            continue
        e = error_position(P, toks)
        if e is None or e < 0:
            continue
        for value in re.findall(r'"([^"]*)"', last):
            if value in PLACEHOLDERS:
                continue
            tok = _token_for(L, value)
            n_sugg += 1
            if tok is None:
                bad.append((i, t, value, last, 'not a token'))
                continue
            pos = error_position(P, list(toks[:e]) + [tok])
            if pos is not None and pos != -1 and pos <= e:
                bad.append((i, t, value, last, 'rejected at the error position'))
    return bad, n_msgs, n_sugg


def add(run, tier):
    ts = texts(tier, run.seed)
    total_bad = {}
    n_msgs = n_sugg = 0
    for oname in ('forward', 'reverse'):
        bad, m, s = report_all(order(ts, oname))
        n_msgs += m
        n_sugg += s
        for i, t, value, last, why in bad:
            total_bad.setdefault((value, why), (oname, i, t, last))
    for (value, why), (oname, i, t, last) in sorted(total_bad.items())[:6]:
        # replay in a fresh interpreter: the same list, the same order, up to the failing text
        rep = replay_args({'tier': tier, 'seed': run.seed, 'order': oname, 'index': i, 'suggestion': value})
        alone = replay_args({'tier': tier, 'seed': run.seed, 'order': oname, 'index': i, 'suggestion': value, 'alone': True})
        run.counterexample('suggestion-after-history:%s:%s' % (value, why),
                           'after %d other error messages (%s order) the message for %r ends %r: %s is %s%s' % (i, oname, t, last, value, why,
                                                                                                                 '' if alone else ' (the same text reported first gets a correct message)'),
                           {'history': {'tier': tier, 'seed': run.seed, 'order': oname, 'index': i, 'suggestion': value}}, rep)
    run.ob('suggestions:after-a-history:%d rejected texts x 2 orders (forward, reverse) in one interpreter' % len(ts), 'counterexample' if total_bad else 'discharged',
           '%d messages, %d concrete suggestions checked against the real parser' % (n_msgs, n_sugg))
    run.validated += n_msgs


_CHILD = r'''
import sys, json
sys.path.insert(0, %(verif)r)
a = json.loads(%(args)r)
from harness import c19hist
ts = c19hist.order(c19hist.texts(a['tier'], a['seed']), a['order'])
if a.get('alone'):
    ts = [ts[a['index']]]
    a['index'] = 0
bad, m, s = c19hist.report_all(ts, stop_at=a['index'])
print('REPRODUCED' if any(i == a['index'] and v == a['suggestion'] for i, t, v, last, why in bad) else 'NOT-REPRODUCED')
'''


def replay_args(a):
    env = dict(os.environ)
    repo = os.environ.get('VERIF_REPO')
    verif = os.path.dirname(os.path.dirname(os.path.abspath(__file__)))
    env['PYTHONPATH'] = (repo + os.pathsep if repo else '') + verif
    code = _CHILD % {'verif': verif, 'args': json.dumps(a)}
    if repo:
        code = 'import sys; sys.path.insert(0, %r)\n' % repo + code
    out = subprocess.run([sys.executable, '-W', 'ignore', '-c', code], capture_output=True, text=True, env=env, timeout=1200)
    return 'REPRODUCED' in out.stdout and 'NOT-REPRODUCED' not in out.stdout


def replay(r):
    a = r['replay']['history']
    rep = replay_args(a)
    print('native replay now (fresh interpreter, same list and order up to the failing text): reproduced=%s' % rep)
    return 1 if rep else 0
