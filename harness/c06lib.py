"""C06 — SQLAlchemy rendering preserves meaning.
Per family member and target dialect the real renderer produces text; the text is read back with the repo's mindsdb parser;
SYMREL decides whether original tree and read-back tree can differ on ANY database (queries: bag of rows and column names;
DML: resulting table contents).  Models are replayed on sqlite3 with the original text and the rendered text."""
import time, copy, re
import z3
from engines import symrel as SR

SCHEMA = {'t1': ['id', 'a', 'b'], 't2': ['id', 'c'], 't3': ['id', 'd']}
DIALECTS = ('sqlite', 'mysql', 'postgresql')

SELECTS = [
    "SELECT a, b FROM t1 WHERE a > 1 AND b < 3",
    "SELECT a FROM t1 WHERE a = 1 OR b = 2 AND a = 3",
    "SELECT a FROM t1 WHERE (a = 1 OR b = 2) AND a = 3",
    "SELECT a FROM t1 WHERE NOT a = b",
    "SELECT a FROM t1 WHERE NOT (a = 1 AND b = 2)",
    "SELECT a - (b - 1) AS x, a - b - 1 AS y, a * (b + 1) AS z, -a AS n FROM t1",
    "SELECT a FROM t1 WHERE a BETWEEN 1 AND 2 OR a IS NULL",
    "SELECT a FROM t1 WHERE a IS NOT NULL AND a IN (1, 2)",
    "SELECT a FROM t1 WHERE a NOT IN (1, 2)",
    "SELECT DISTINCT a FROM t1",
    "SELECT a AS k, b AS a FROM t1",
    "SELECT t1.a, t2.c FROM t1 JOIN t2 ON t1.id = t2.id",
    "SELECT t1.a, t2.c FROM t1 INNER JOIN t2 ON t1.id = t2.id WHERE t2.c > 0",
    "SELECT t1.a, t2.c FROM t1 LEFT JOIN t2 ON t1.id = t2.id",
    "SELECT t1.a, t2.c FROM t1 LEFT OUTER JOIN t2 ON t1.id = t2.id",
    "SELECT t1.a, t2.c FROM t1 RIGHT JOIN t2 ON t1.id = t2.id",
    "SELECT t1.a, t2.c FROM t1 FULL JOIN t2 ON t1.id = t2.id",
    "SELECT t1.a, t2.c FROM t1 FULL OUTER JOIN t2 ON t1.id = t2.id",
    "SELECT t1.a, t2.c FROM t1 CROSS JOIN t2",
    "SELECT t1.a, t2.c FROM t1, t2 WHERE t1.id = t2.id",
    "SELECT t1.a, t2.c FROM t1 JOIN t2",
    "SELECT x.a, y.c, z.d FROM t1 AS x JOIN t2 AS y ON x.id = y.id LEFT JOIN t3 AS z ON z.id = y.id",
    "SELECT a FROM t1 WHERE a IN (SELECT c FROM t2)",
    "SELECT a FROM t1 WHERE a NOT IN (SELECT c FROM t2 WHERE c IS NOT NULL)",
    "SELECT a, (SELECT max(c) FROM t2) AS m FROM t1",
    "SELECT s.a FROM (SELECT a, id FROM t1 WHERE b > 0) AS s WHERE s.a > 0",
    "SELECT s.a, t2.c FROM (SELECT a, id FROM t1) AS s JOIN t2 ON s.id = t2.id",
    "SELECT a FROM t1 WHERE exists(SELECT 1 FROM t2 WHERE t2.id = t1.id)",
    "SELECT a FROM t1 UNION SELECT c FROM t2",
    "SELECT a FROM t1 UNION ALL SELECT c FROM t2",
    "SELECT a FROM t1 INTERSECT SELECT c FROM t2",
    "SELECT a FROM t1 EXCEPT SELECT c FROM t2",
    "WITH w AS (SELECT a, id FROM t1) SELECT w.a FROM w WHERE w.a > 1",
    "SELECT a, count(*) AS n, sum(b) AS s, min(b) AS lo, max(b) AS hi FROM t1 GROUP BY a",
    "SELECT a, count(b) AS n FROM t1 GROUP BY a HAVING count(b) > 1",
    "SELECT count(DISTINCT a) AS n FROM t1",
    "SELECT a FROM t1 ORDER BY id LIMIT 1",
    "SELECT a FROM t1 ORDER BY id DESC LIMIT 1 OFFSET 1",
    "SELECT a FROM t1 ORDER BY id ASC LIMIT 2",
    "SELECT a FROM t1 LIMIT 0",
    "SELECT a FROM t1 ORDER BY id LIMIT 0 OFFSET 0",
    "SELECT a FROM t1 ORDER BY id LIMIT 1 OFFSET 0",
    "SELECT a FROM t1 ORDER BY id LIMIT 2 OFFSET 2",
    "SELECT a FROM t1 WHERE a IN (SELECT c FROM t2 ORDER BY id LIMIT 0)",
    "SELECT s.a FROM (SELECT a FROM t1 ORDER BY id LIMIT 0) AS s",
    "SELECT a FROM t1 WHERE a = 0 OR b = 0",
    "SELECT a + 0 AS x, a * 0 AS y, 0 - a AS z FROM t1 WHERE a BETWEEN 0 AND 0",
    "SELECT a FROM t1 WHERE a IN (0)",
    "SELECT count(a) AS n, count(DISTINCT b) AS m, sum(DISTINCT a) AS s FROM t1",
    "SELECT a, b FROM t1 ORDER BY a DESC, id ASC LIMIT 2",
    "SELECT a FROM t1 ORDER BY b ASC, id DESC LIMIT 1",
    "SELECT DISTINCT a, b FROM t1 WHERE a IS NOT NULL",
    "SELECT t1.a AS x, t2.c AS x2 FROM t1 JOIN t2 ON t1.id = t2.id AND t2.c = 0",
    "SELECT CASE WHEN a > 1 THEN b ELSE 0 END AS k FROM t1",
    "SELECT CASE a WHEN 1 THEN 5 WHEN 2 THEN 6 END AS k FROM t1",
    "SELECT coalesce(a, b) AS v FROM t1",
    "SELECT a FROM t1 WHERE a = 1 AND (b = 2 OR b = 3) AND NOT (a = 2 OR b IS NULL)",
    "SELECT a FROM t1 WHERE a > b OR NOT a > b OR a IS NULL",
]
# generated: every combination of direction and NULL placement on a two-key ordering (nullable keys), plus single keys, positions,
# expressions; compared as sequences (see check_member)
_DIRS = ('', ' ASC', ' DESC')
_NULLS = ('', ' NULLS FIRST', ' NULLS LAST')
ORDER_GEN = ["SELECT a, b FROM t1 ORDER BY a%s%s, b%s%s" % (d1, n1, d2, n2) for d1 in _DIRS for n1 in _NULLS for d2 in _DIRS for n2 in _NULLS]
ORDER_GEN += ["SELECT a, b FROM t1 ORDER BY %s%s%s" % (k, d, n) for k in ('a', '2', 'a + b', 't1.b') for d in _DIRS for n in _NULLS]
ORDER_GEN += ["SELECT a, b FROM t1 ORDER BY b%s%s, a%s LIMIT 1 OFFSET 1" % (d, n, d2) for d in _DIRS for n in _NULLS for d2 in _DIRS]
ORDER_GEN += ["SELECT s.a FROM (SELECT a, b FROM t1 ORDER BY b%s%s, a LIMIT 1) AS s" % (d, n) for d in _DIRS for n in _NULLS]
ORDER_GEN += ["SELECT a FROM t1 UNION SELECT c FROM t2 ORDER BY a%s%s" % (d, n) for d in _DIRS for n in _NULLS]
SETOP_TAIL = ["SELECT id FROM t1 %s SELECT id FROM t2 %s" % (op, tail)
              for op in ('UNION', 'UNION ALL', 'INTERSECT', 'EXCEPT')
              for tail in ('ORDER BY id', 'ORDER BY id DESC LIMIT 1', 'ORDER BY 1 LIMIT 1 OFFSET 1', 'LIMIT 1', 'ORDER BY id DESC NULLS LAST')]
SETOP_TAIL += ["SELECT id FROM t1 UNION ALL SELECT id FROM t2 UNION ALL SELECT id FROM t3 ORDER BY id LIMIT 2",
               "SELECT s.id FROM (SELECT id FROM t1 UNION ALL SELECT id FROM t2 ORDER BY id DESC LIMIT 1) AS s"]
# DISTINCT / GROUP BY combinations: targets are any subset of the grouping key (plus aggregates), with and without DISTINCT
GROUP_GEN = ["SELECT %s%s FROM t1 GROUP BY %s%s" % (dq, tg, gb, hv)
             for dq in ('', 'DISTINCT ')
             for tg, gb in (('a', 'a'), ('a', 'a, b'), ('b', 'a, b'), ('a, b', 'a, b'), ('b, a', 'a, b'), ('a, count(*) AS n', 'a'), ('a, count(*) AS n', 'a, b'),
                            ('count(*) AS n', 'a'), ('a AS k', 'a, b'), ('t1.a', 't1.a, t1.b'), ('a + 1 AS k', 'a, b'), ('a, max(b) AS m', 'a, id'))
             for hv in ('', ' HAVING count(*) > 1')]
GROUP_GEN += ["SELECT DISTINCT a FROM t1 WHERE b IS NOT NULL", "SELECT DISTINCT a, b FROM t1 ORDER BY a, b LIMIT 2", "SELECT count(DISTINCT a) AS n, count(a) AS m FROM t1 GROUP BY b",
              "SELECT DISTINCT t1.a FROM t1 JOIN t2 ON t1.id = t2.id", "SELECT DISTINCT s.a FROM (SELECT a, b FROM t1 GROUP BY a, b) AS s"]
# window functions: ranking and aggregate functions x partition x ordering (direction, NULL placement) x frame
_WORD = [(d, n) for d in ('', ' DESC') for n in ('', ' NULLS FIRST', ' NULLS LAST')]
WINDOW_GEN = ["SELECT id, %s OVER (%sORDER BY a%s%s) AS r FROM t1" % (f, part, d, n)
              for f in ('rank()', 'dense_rank()', 'row_number()', 'sum(b)', 'count(b)') for part in ('', 'PARTITION BY b ') for d, n in _WORD]
WINDOW_GEN += ["SELECT id, %s OVER (%s) AS r FROM t1" % (f, w) for f in ('sum(a)', 'count(*)', 'min(a)', 'max(a)', 'count(DISTINCT a)')
               for w in ('', 'PARTITION BY b', 'PARTITION BY a, b', 'ORDER BY b', 'PARTITION BY b ORDER BY id DESC')]
WINDOW_GEN += ["SELECT id, %s OVER (ORDER BY %s %s BETWEEN %s AND %s) AS r FROM t1" % (f, k, unit, lo, hi)
               for f in ('sum(a)', 'count(a)', 'max(a)') for k in ('b', 'id DESC') for unit in ('ROWS', 'RANGE')
               for lo, hi in (('UNBOUNDED PRECEDING', 'CURRENT ROW'), ('CURRENT ROW', 'UNBOUNDED FOLLOWING'), ('UNBOUNDED PRECEDING', 'UNBOUNDED FOLLOWING'), ('CURRENT ROW', 'CURRENT ROW'))]
# the frame clause in other spellings (the parser keeps the words as written): letter case of each word, runs of blanks / line breaks
WINDOW_GEN += ["SELECT id, %s OVER (%sORDER BY %s %s) AS r FROM t1" % (f, part, k, fr)
               for f in ('sum(a)', 'count(a)') for part in ('', 'PARTITION BY b ') for k in ('b', 'a DESC')
               for fr in ('rows between unbounded preceding and current row', 'Rows Between Current Row And Unbounded Following',
                          'range between current row and unbounded following', 'rOWS  BETWEEN\n unbounded   PRECEDING and CURRENT\trow',
                          'ROWS between CURRENT ROW and current row', 'Range\nBetween Unbounded Preceding And Unbounded Following')]
WINDOW_GEN += ["SELECT id, rank() OVER (ORDER BY a, b DESC) AS r FROM t1 ORDER BY id LIMIT 2",
               "SELECT id, rank() OVER (ORDER BY a) AS r, sum(a) OVER (PARTITION BY b) AS s FROM t1 WHERE a IS NOT NULL",
               "SELECT s.id FROM (SELECT id, row_number() OVER (PARTITION BY b ORDER BY a DESC, id) AS rn FROM t1) AS s WHERE s.rn = 1",
               "SELECT t1.id, count(t2.c) OVER (PARTITION BY t1.a ORDER BY t2.c NULLS LAST) AS n FROM t1 LEFT JOIN t2 ON t1.id = t2.id",
               "SELECT id, rank() OVER (ORDER BY a + b DESC NULLS LAST, id) AS r FROM t1"]
# subquery predicates x subquery shapes (what the subquery returns decides the predicate: aggregate-only select lists always give one
# row, LIMIT 0 none, GROUP BY one per group, ...), correlated and not, in SELECT / DELETE / UPDATE
_SUBQ = ["SELECT 1 FROM t2 WHERE t2.id = t1.id", "SELECT c FROM t2 WHERE t2.id = t1.id", "SELECT * FROM t2 WHERE t2.c > t1.a", "SELECT max(c) FROM t2 WHERE t2.id = t1.id",
         "SELECT count(*) FROM t2 WHERE t2.id = t1.id", "SELECT count(*) FROM t2 WHERE t2.id = t1.id HAVING count(*) > 0", "SELECT c FROM t2 WHERE t2.id = t1.id GROUP BY c",
         "SELECT sum(c) FROM t2 GROUP BY id", "SELECT DISTINCT c FROM t2 WHERE t2.c = t1.b", "SELECT c FROM t2 WHERE t2.id = t1.id ORDER BY c LIMIT 0",
         "SELECT c FROM t2 ORDER BY id LIMIT 1 OFFSET 1", "SELECT min(c) FROM t2", "SELECT 1 FROM t2"]
SUBQ_GEN = ["SELECT a FROM t1 WHERE %s(%s)" % (e, q) for e in ('exists', 'NOT exists') for q in _SUBQ]
SUBQ_GEN += ["SELECT a FROM t1 WHERE b > 0 AND NOT exists(%s)" % _SUBQ[3], "SELECT a, exists(%s) AS e FROM t1" % _SUBQ[4], "SELECT a FROM t1 WHERE a IN (%s)" % _SUBQ[3],
             "SELECT a FROM t1 WHERE a NOT IN (%s)" % _SUBQ[4], "SELECT a FROM t1 WHERE a = (%s)" % _SUBQ[3], "SELECT a FROM t1 WHERE a > (%s)" % _SUBQ[4],
             "SELECT a FROM t1 WHERE a IN (SELECT c FROM t2 GROUP BY c HAVING count(*) > 1)", "SELECT a, (%s) AS n FROM t1" % _SUBQ[4]]
SUBQ_DML = ["DELETE FROM t1 WHERE %s(%s)" % (e, q) for e in ('exists', 'NOT exists') for q in (_SUBQ[0], _SUBQ[3], _SUBQ[4], _SUBQ[9])]
SUBQ_DML += ["UPDATE t1 SET a = 0 WHERE %s(%s)" % (e, q) for e in ('exists', 'NOT exists') for q in (_SUBQ[1], _SUBQ[3], _SUBQ[4])]
SUBQ_DML += ["UPDATE t1 SET a = (%s) WHERE b > 0" % _SUBQ[4], "DELETE FROM t1 WHERE a IN (%s)" % _SUBQ[3]]
# operator pairs: every expression form the renderer maps (to_expression) as the OUTER node, with every form as a parenthesised
# INNER operand in each operand slot - the renderer rebuilds the grouping from the tree, SQLAlchemy decides where to put parentheses
_INNER = ['a + b', 'a - b', 'a * b', 'a % 2', 'a = b', 'a != b', 'a < b', 'a >= b', 'a AND b', 'a OR b', 'a LIKE b', 'a IN (1, b)', 'a NOT IN (1, 2)',
          'a BETWEEN 1 AND b', 'a IS NULL', 'a IS NOT NULL', 'NOT a', '-a', 'CASE WHEN a > 1 THEN b ELSE 0 END', 'coalesce(a, b)',
          'SELECT max(c) FROM t2', 'exists(SELECT 1 FROM t2 WHERE t2.id = t1.id)']
_OUTER = ['{X} + id', 'id + {X}', '{X} - id', 'id - {X}', '{X} * id', 'id * {X}', '{X} % 3', 'id % {X}', '{X} = id', 'id = {X}', '{X} < id', 'id < {X}',
          '{X} != id', 'id >= {X}', '{X} AND id', 'id AND {X}', '{X} OR id', 'id OR {X}', '{X} LIKE id', 'id LIKE {X}', '{X} IN (1, id)', 'id IN (1, {X})',
          '{X} NOT IN (1, 2)', 'id NOT IN ({X}, 2)', '{X} BETWEEN 0 AND id', 'id BETWEEN {X} AND 2', 'id BETWEEN 0 AND {X}', '{X} IS NULL', '{X} IS NOT NULL',
          'NOT {X}', '-{X}', 'CASE WHEN {X} THEN 1 ELSE 2 END', 'CASE {X} WHEN 1 THEN 1 ELSE 2 END', 'CASE WHEN id > 1 THEN {X} ELSE 2 END', 'coalesce({X}, id)']
_BOOL_OUT = ('=', '<', '!=', '>=', ' AND ', ' OR ', 'LIKE', ' IN ', 'BETWEEN', ' IS ', 'NOT ')
OPPAIR_GEN = ["SELECT id, %s AS x FROM t1" % o.replace('{X}', '(%s)' % i) for o in _OUTER for i in _INNER]
OPPAIR_GEN += ["SELECT id FROM t1 WHERE %s" % o.replace('{X}', '(%s)' % i) for o in _OUTER if any(k in o for k in _BOOL_OUT) for i in _INNER]
# the same nests three deep on the classic non-associative spots
OPPAIR_GEN += ["SELECT id, %s AS x FROM t1" % e for e in ('a - (b - (id - 1))', '(a - b) - (id - 1)', 'a - (b + (id - 1))', 'a * (b + id) * 2', '-(a - (-b))', 'NOT (NOT (a = b) OR a > 1)',
               '(a = b) = (id = 1)', '(a < b) < (b < id)', 'a - (b * (id + 1))', '(a + b) % (id + 1)', 'a % (b % 3)', '(a % 3) % 2', '-(a % 3)', '(-a) % 3', 'NOT (a BETWEEN 1 AND 2)',
               'NOT ((a IS NULL) = (b IS NULL))', '(NOT a) IS NULL', 'NOT (a IS NULL)', '(a OR b) AND (id OR a)', 'a OR (b AND (id OR a))')]
# nested set operations: every operator pair in both nestings (parentheses written), chains, nests inside a CTE / derived table / IN
_SOPS = ('UNION', 'UNION ALL', 'INTERSECT', 'EXCEPT')
_MA, _MB, _MC = "SELECT id FROM t1", "SELECT id FROM t2", "SELECT id FROM t3"
SETOP_NEST = ["%s %s (%s %s %s)" % (_MA, o1, _MB, o2, _MC) for o1 in _SOPS for o2 in _SOPS]
SETOP_NEST += ["(%s %s %s) %s %s" % (_MA, o1, _MB, o2, _MC) for o1 in _SOPS for o2 in _SOPS]
SETOP_NEST += ["%s %s %s %s %s" % (_MA, o, _MB, o, _MC) for o in _SOPS]
SETOP_NEST += ["%s %s (%s %s (%s %s SELECT a FROM t1))" % (_MA, o, _MB, o, _MC, o) for o in _SOPS]
SETOP_NEST += ["WITH w AS (%s %s (%s %s %s)) SELECT w.id FROM w" % (_MA, o, _MB, o, _MC) for o in ('EXCEPT', 'UNION ALL')]
SETOP_NEST += ["SELECT s.id FROM (%s %s (%s %s %s)) AS s WHERE s.id > 0" % (_MA, o, _MB, o, _MC) for o in ('EXCEPT', 'INTERSECT')]
SETOP_NEST += ["%s EXCEPT ALL (%s EXCEPT ALL %s)" % (_MA, _MB, _MC), "(%s EXCEPT %s) EXCEPT (%s EXCEPT SELECT a FROM t1)" % (_MA, _MB, _MC)]
# three-table join chains: every pair of join kinds (the kind of one join must not leak into the next), third table joined to either earlier one
_JK = ('JOIN', 'INNER JOIN', 'LEFT JOIN', 'LEFT OUTER JOIN', 'FULL JOIN', 'FULL OUTER JOIN', 'CROSS JOIN')
JOIN_CHAIN = ["SELECT x.a, y.c, z.d FROM t1 AS x %s t2 AS y%s %s t3 AS z%s" % (j1, '' if j1 == 'CROSS JOIN' else ' ON x.id = y.id', j2, '' if j2 == 'CROSS JOIN' else ' ON z.id = %s.id' % k)
              for j1 in _JK for j2 in _JK for k in ('y', 'x') if not (j2 == 'CROSS JOIN' and k == 'x')]
JOIN_CHAIN += ["SELECT x.a, y.c, z.d, w.b FROM t1 AS x %s t2 AS y ON x.id = y.id %s t3 AS z ON z.id = y.id %s t1 AS w ON w.id = z.id" % (j1, j2, j3)
               for j1, j2, j3 in (('FULL JOIN', 'JOIN', 'LEFT JOIN'), ('LEFT JOIN', 'FULL JOIN', 'JOIN'), ('JOIN', 'LEFT JOIN', 'FULL JOIN'), ('FULL JOIN', 'LEFT JOIN', 'JOIN'))]
# NULL literals: a predicate over a NULL literal is neither true nor false; every predicate form with a NULL literal operand, in positions that
# tell NULL from FALSE (select list, under NOT, under IS NULL, as a CASE condition) and in the filters of SELECT / DELETE / UPDATE
_NULL_PRED = ['a IN (1, NULL)', 'a NOT IN (1, NULL)', 'a IN (NULL)', 'a IN (NULL, b)', 'a IN (1, b, NULL)', 'a = NULL', 'a != NULL', 'NULL = NULL', 'a > NULL',
              'a BETWEEN NULL AND 2', 'a BETWEEN 1 AND NULL', 'NULL IS NULL', 'a LIKE NULL', 'coalesce(NULL, a) = 1', 'a + NULL = 1', 'NULL AND a = 1', 'NULL OR a = 1',
              'CASE WHEN NULL THEN 1 ELSE 2 END = 2', 'CASE a WHEN NULL THEN 1 ELSE 2 END = 2', 'a IN (1, NULL) OR b = 1', 'a IN (1, NULL) AND b = 1']
_NULL_CTX = ['SELECT id, {P} AS x FROM t1', 'SELECT id FROM t1 WHERE {P}', 'SELECT id FROM t1 WHERE NOT ({P})', 'SELECT id, ({P}) IS NULL AS x FROM t1',
             'SELECT id, CASE WHEN {P} THEN 1 WHEN NOT ({P}) THEN 2 ELSE 3 END AS x FROM t1', 'SELECT id, NOT ({P}) AS x FROM t1']
NULL_GEN = [c.replace('{P}', p_) for c in _NULL_CTX for p_ in _NULL_PRED]
NULL_DML = [c.replace('{P}', p_) for c in ('DELETE FROM t1 WHERE NOT ({P})', 'UPDATE t1 SET a = 0 WHERE NOT ({P})', 'DELETE FROM t1 WHERE {P}') for p_ in _NULL_PRED[:8]]
SELECTS = SELECTS + ORDER_GEN + SETOP_TAIL + GROUP_GEN + WINDOW_GEN + SUBQ_GEN + OPPAIR_GEN + SETOP_NEST + JOIN_CHAIN + NULL_GEN

DML = [
    "DELETE FROM t1 WHERE a > 1",
    "DELETE FROM t1 WHERE a = 1 OR b IS NULL",
    "DELETE FROM t1 WHERE NOT (a = 1 AND b = 2)",
    "UPDATE t1 SET a = 0 WHERE b > 1",
    "UPDATE t1 SET a = b + 1, b = 2 WHERE a IS NOT NULL",
    "UPDATE t1 SET b = NULL WHERE a = 1 OR a = 2",
    "INSERT INTO t1 (id, a, b) VALUES (1, 2, 3)",
    "INSERT INTO t1 (id, a, b) VALUES (1, 2, NULL), (2, 0, 1)",
    "INSERT INTO t1 (id, a) VALUES (3, 1)",
    "INSERT INTO t2 (id, c) SELECT id, a FROM t1 WHERE b > 0",
    "INSERT INTO t1 (id, a, b) VALUES (0, 0, 0)",
    "UPDATE t1 SET a = 0, b = a WHERE b = 0",
    "DELETE FROM t1 WHERE a = 0",
    "DELETE FROM t1",
]
DML = DML + SUBQ_DML + NULL_DML


def render(sql, dialect):
    from mindsdb_sql import parse_sql
    from mindsdb_sql.render.sqlalchemy_render import SqlalchemyRender
    from sqlalchemy.exc import SQLAlchemyError
    ast = parse_sql(sql, 'mindsdb')
    try:
        return ast, SqlalchemyRender(dialect).get_string(ast, with_failback=False), None
    except (SQLAlchemyError, NotImplementedError) as e:
        return ast, None, '%s: %s' % (type(e).__name__, str(e)[:80])


_SETOP = r'(?:UNION ALL|UNION|INTERSECT ALL|INTERSECT|EXCEPT ALL|EXCEPT)'


def _match_paren(t, i):
    """index of the parenthesis closing the one at t[i] (quotes respected)"""
    depth, k, q = 0, i, None
    while k < len(t):
        ch = t[k]
        if q:
            if ch == q:
                q = None
        elif ch in '\'"`':
            q = ch
        elif ch == '(':
            depth += 1
        elif ch == ')':
            depth -= 1
            if depth == 0:
                return k
        k += 1
    return -1


def member_parens_to_derived(text):
    """`A UNION (SELECT ..)` / `(SELECT ..) UNION B`: the repo's parser drops the parentheses around a member of a set operation
    (and then reads the member's ORDER BY/LIMIT as the whole operation's).  A parenthesised member is rewritten to the equivalent
    `SELECT * FROM (SELECT ..) AS _mK`, which every reader and engine involved understands the same way."""
    k = 0
    while True:
        m = re.search(_SETOP + r'\s*(\()\s*SELECT\b', text, re.I)
        if m:
            i = m.start(1)
        else:
            m = re.search(r'(?:^|\(|\bAS\b)\s*(\()\s*SELECT\b', text, re.I)
            i = None
            for m in re.finditer(r'(\()\s*SELECT\b', text, re.I):
                j = _match_paren(text, m.start(1))
                if j > 0 and re.match(r'\s*' + _SETOP + r'\b', text[j + 1:], re.I):
                    i = m.start(1)
                    break
            if i is None:
                return text
        j = _match_paren(text, i)
        if j < 0:
            return text
        k += 1
        text = text[:i] + 'SELECT * FROM ' + text[i:j + 1] + ' AS _m%d' % k + text[j + 1:]


def readback(text):
    """rendered text -> tree, with the repo's mindsdb parser (dialect quoting "x" of plain names is removed first, parenthesised
    members of set operations are kept apart as derived tables)"""
    from mindsdb_sql import parse_sql
    t = re.sub(r'"([A-Za-z_][A-Za-z_0-9]*)"', r'`\1`', text)
    # the mindsdb grammar has no NOT BETWEEN; sqlalchemy writes NOT (x BETWEEN l AND u) that way (simple operands only)
    t = re.sub(r'([\w.`]+) NOT BETWEEN ([\w.`]+) AND ([\w.`]+)', r'NOT (\1 BETWEEN \2 AND \3)', t)
    return parse_sql(member_parens_to_derived(t), 'mindsdb')


def dml_effect(ev, db, stmt):
    """-> (table name, Rel of the table after the statement)"""
    from mindsdb_sql.parser import ast as A
    if isinstance(stmt, A.Delete):
        name = str(stmt.table.parts[-1]).lower()
        rel = db.scan(name, [(name,)])
        rows = []
        for p, cs in rel.rows:
            hit = SR.is_true(ev.expr(stmt.where, rel, (p, cs))) if stmt.where is not None else SR.TRUE
            rows.append((z3.And(p, z3.Not(hit)), cs))
        return name, SR.Rel(rel.cols, rows)
    if isinstance(stmt, A.Update):
        name = str(stmt.table.parts[-1]).lower()
        rel = db.scan(name, [(name,)])
        rows = []
        names = [c.name for c in rel.cols]
        for p, cs in rel.rows:
            hit = SR.is_true(ev.expr(stmt.where, rel, (p, cs))) if stmt.where is not None else SR.TRUE
            new = list(cs)
            for col, e in stmt.update_columns.items():
                i = names.index(str(col).lower())
                v = ev.expr(e, rel, (p, cs))
                new[i] = (z3.If(hit, v[0], cs[i][0]), z3.If(hit, v[1], cs[i][1]))
            rows.append((p, new))
        return name, SR.Rel(rel.cols, rows)
    if isinstance(stmt, A.Insert):
        name = str(stmt.table.parts[-1]).lower()
        rel = db.scan(name, [(name,)])
        names = [c.name for c in rel.cols]
        cols = [str(c.name if hasattr(c, 'name') else c.parts[-1]).lower() for c in stmt.columns] if stmt.columns else names
        rows = list(rel.rows)
        if stmt.values is not None:
            for vals in stmt.values:
                cells = [SR.const_cell(None)] * len(names)
                cells = list(cells)
                for cname, v in zip(cols, vals):
                    cells[names.index(cname)] = ev.expr(v, rel, (SR.TRUE, []))
                rows.append((SR.TRUE, cells))
        else:
            src = ev.query(stmt.from_select)
            for p, cs in src.rows:
                cells = [SR.const_cell(None)] * len(names)
                cells = list(cells)
                for cname, c in zip(cols, cs):
                    cells[names.index(cname)] = c
                rows.append((p, cells))
        return name, SR.Rel(rel.cols, rows)
    raise SR.Unsupported(type(stmt).__name__)


NULL_ORDER = {'sqlite': 'low', 'mysql': 'low', 'postgresql': 'high'}


def with_rank(rel):
    r = SR.Rel(list(rel.cols) + [SR.Col('#position')], [(p, list(cs) + [(SR.FALSE, rk)]) for (p, cs), rk in zip(rel.rows, rel._ranks)])
    return r


def check_member(sql, dialect, R, D, timeout_ms=120000):
    from mindsdb_sql.parser import ast as A
    ast, text, err = render(sql, dialect)
    info = {'sql': sql, 'dialect': dialect, 'rendered': text}
    if text is None:
        return dict(info, status='not-rendered', reason=err)
    try:
        back = readback(text)
    except Exception as e:  # noqa
        return dict(info, status='unsupported', reason='rendered text is not readable by the mindsdb parser: %s' % str(e)[:80].replace('\n', ' '))
    db = SR.DB(SCHEMA, R, D)
    ev1, ev2 = SR.Evaluator(db), SR.Evaluator(db)
    # a sort key without NULLS FIRST/LAST means the target engine's default on both sides
    ev1.null_order = ev2.null_order = NULL_ORDER[dialect]
    try:
        if isinstance(ast, (A.Delete, A.Update, A.Insert)):
            if type(back) is not type(ast):
                return dict(info, status='counterexample', kind='statement-kind', problems=['rendered as a %s' % type(back).__name__])
            ta, a = dml_effect(ev1, db, ast)
            tb, b = dml_effect(ev2, db, back)
            if ta != tb:
                return dict(info, status='counterexample', kind='target-table', problems=['target table %s rendered as %s' % (ta, tb)])
        else:
            a = ev1.query(ast)
            b = ev2.query(back)
            if getattr(ast, 'order_by', None) and hasattr(a, '_ranks') and hasattr(b, '_ranks'):
                # ordered result: compare as sequences = bags of (row, position), positions being unique under the no-ties assumption
                a, b = SR.with_rank(a), SR.with_rank(b)
                info['ordered'] = True
    except SR.Unsupported as e:
        return dict(info, status='unsupported', reason=str(e))
    problems = []
    if not isinstance(ast, (A.Delete, A.Update, A.Insert)):
        na, nb = [c.name for c in a.cols], [c.name for c in b.cols]
        if len(na) != len(nb):
            problems.append('rendered query has %d columns, the original %d' % (len(nb), len(na)))
    s = z3.Solver()
    s.set('timeout', timeout_ms)
    s.add(db.constraints + ev1.assumptions + ev2.assumptions)
    s.add(SR.bags_differ(a, b))
    t0 = time.time()
    r = str(s.check())
    out = dict(info, solver_s=round(time.time() - t0, 4), problems=problems)
    if r == 'unsat':
        out['status'] = 'counterexample' if problems else 'discharged'
        out['kind'] = 'columns'
    elif r == 'sat':
        m = s.model()
        out.update(status='counterexample', kind='rows', witness={'db': db.concrete(m), 'original': SR.concrete_rows(a, m), 'rendered': SR.concrete_rows(b, m)},
                   problems=problems + ['rendered text %r gives %s, the original gives %s on %s' % (text, SR.concrete_rows(b, m), SR.concrete_rows(a, m), db.concrete(m))])
    else:
        out.update(status='inconclusive', reason=r)
    return out


def replay_member(sql, dialect, witness):
    """sqlite3 executes the original text and the rendered text on the witness database"""
    import sqlite3
    from mindsdb_sql.parser import ast as A
    ast, text, err = render(sql, dialect)
    if text is None:
        return False, {'note': 'not rendered'}

    def fresh():
        con = SR.connect()
        for t, cols in SCHEMA.items():
            con.execute('CREATE TABLE %s (%s)' % (t, ', '.join('%s INTEGER' % c for c in cols)))
            for r in witness['db'].get(t, []):
                con.execute('INSERT INTO %s VALUES (%s)' % (t, ', '.join('?' * len(cols))), r)
        return con

    ordered = isinstance(ast, (A.Select, A.Union)) and bool(getattr(ast, 'order_by', None))

    def explicit(tree):
        """every sort key without NULLS FIRST/LAST gets the target engine's default spelled out, so that sqlite3 orders the way
        the target engine would"""
        from mindsdb_sql.parser.ast.base import ASTNode
        seen = set()

        def walk(n):
            if id(n) in seen:
                return
            seen.add(id(n))
            if isinstance(n, A.OrderBy) and str(n.nulls).lower() == 'default':
                desc = str(n.direction).upper() == 'DESC'
                first = (not desc) if NULL_ORDER[dialect] == 'low' else desc
                n.nulls = 'NULLS FIRST' if first else 'NULLS LAST'
            if isinstance(n, ASTNode):
                for v in vars(n).values():
                    walk(v)
            elif isinstance(n, (list, tuple)):
                for v in n:
                    walk(v)
            elif isinstance(n, dict):
                for v in n.values():
                    walk(v)
        walk(tree)
        return str(tree)

    def run(q, tree=None):
        con = fresh()
        if tree is not None and not isinstance(ast, (A.Delete, A.Update, A.Insert)):
            q = member_parens_to_derived(explicit(tree))      # sqlite cannot run a parenthesised member: same meaning as a derived table
        cur = con.execute(q.replace('`', '"'))
        if isinstance(ast, (A.Delete, A.Update, A.Insert)):
            name = str(ast.table.parts[-1])
            return sorted(map(repr, con.execute('SELECT * FROM %s' % name).fetchall()))
        rows = list(map(repr, cur.fetchall()))
        return rows if ordered else sorted(rows)
    try:
        want = run(sql, copy.deepcopy(ast))
    except Exception as e:  # noqa
        return False, {'note': 'sqlite cannot run the original: %s' % e}
    if dialect == 'sqlite':
        # the text rendered FOR sqlite must itself be executable by sqlite
        try:
            fresh().execute(text)
        except Exception as e:  # noqa
            return True, {'sql': sql, 'rendered': text, 'db': witness['db'], 'original_rows': want,
                          'rendered_rows': 'sqlite cannot execute the text rendered for sqlite: %s' % e}
    try:
        got = run(text, readback(text))
    except Exception as e:  # noqa
        return False, {'note': 'sqlite cannot run the %s text: %s' % (dialect, e), 'rendered': text}
    return got != want, {'sql': sql, 'rendered': text, 'db': witness['db'], 'original_rows': want, 'rendered_rows': got}
