#!/bin/sh
# run every registered quick check on the current /repo tree, one after the other; print a summary line each
cd "$(dirname "$0")/.."
tier=${1:-quick}
shift 2>/dev/null
ids="$@"
[ -z "$ids" ] && ids=$(.venv/bin/python -c "import json;print(' '.join(c['property_id'] for c in json.load(open('MANIFEST.json'))['checks']))")
for id in $ids; do
  ./check $id --tier $tier > .scratch/run_$id.log 2>&1
  echo "$id rc=$? $(grep -a "^$id tier" .scratch/run_$id.log | tail -1)"
done
