#!/usr/bin/env python3
"""tools/keep_seed.py <seed_dir> <name> <property> <caught_by comma list or 'none'> <note>  -> /verif/seeded/<name>/"""
import sys, os, json, shutil
sd, name, prop, caught, note = sys.argv[1:6]
dst = os.path.join('/verif/seeded', name)
os.makedirs(dst, exist_ok=True)
for f in ('patch.diff', 'demo.py'):
    shutil.copy(os.path.join(sd, f), os.path.join(dst, f))
meta = {}
try:
    meta = json.load(open(os.path.join(sd, 'meta.json')))
except Exception:
    pass
meta.update({'property': prop, 'confirmed_by_us': 'tools/try_seed.sh: scratch worktree, patch applies, demo exits 0 on the clean tree and 1 with the patch, 688 tests pass with the patch',
             'checks_run': 'quick tier of the property\'s check with the patch applied to /repo (then git checkout -- .)',
             'caught_by': [] if caught == 'none' else caught.split(','), 'note': note})
json.dump(meta, open(os.path.join(dst, 'meta.json'), 'w'), indent=1)
print('kept', dst)
