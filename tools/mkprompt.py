#!/usr/bin/env python3
"""tools/mkprompt.py <round tag> <property id>  -> prompt text for a fresh sub-agent (stdout).
The agent gets the property text, the anchor file names, and one-line summaries of changes already tried for the
property (so that it does not repeat them) - nothing else from /verif."""
import sys, json, glob, os
tag, pid = sys.argv[1:3]
props = {json.loads(l)['id']: json.loads(l) for l in open('/verif/properties.jsonl')}
p = props[pid]
text = '%s\n\n%s' % (p.get('title', ''), p.get('statement', ''))
files = p.get('anchors', {}).get('files', [])
tried = []
for f in sorted(glob.glob('/verif/seeded/%s_*/meta.json' % pid)):
    m = json.load(open(f))
    s = (m.get('summary') or '').strip().replace('\n', ' ')
    tried.append('- ' + s[:330] + ('...' if len(s) > 330 else ''))
hint = 'Files the property is anchored in (starting points, not a limit): ' + ', '.join(files[:14]) + '.\n\n'
hint += ('Changes that have ALREADY been tried for this property (do something clearly different - a different function, '
         'a different mechanism, a different kind of trigger):\n' + '\n'.join(tried) + '\n')
t = open('/verif/tools/seed_prompt.txt').read()
ident = tag + pid
print(t.replace('@ID@', ident).replace('@PROPERTY@', text).replace('@HINT@', hint))
