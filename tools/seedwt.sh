#!/bin/sh
# tools/seedwt.sh <seed_dir> <name>  -> scratch worktree /tmp/swt_<name> of /repo HEAD with the seeded patch applied (for iterating on a
# check with VERIF_REPO=/tmp/swt_<name> VERIF_OUT=/verif/.scratch/seedout_<name>); remove with: git -C /repo worktree remove --force /tmp/swt_<name>
SD=$1; NAME=$2
WT=/tmp/swt_$NAME
git -C /repo worktree remove --force $WT >/dev/null 2>&1
git -C /repo worktree add --detach $WT HEAD >/dev/null 2>&1 || { echo "cannot create worktree"; exit 2; }
cd $WT && git apply $SD/patch.diff || { echo "patch does not apply"; exit 2; }
mkdir -p /verif/.scratch/seedout_$NAME
echo "VERIF_REPO=$WT VERIF_OUT=/verif/.scratch/seedout_$NAME"
