#!/bin/sh
# tools/try_seed2.sh <seed_dir> <name> <check ids...>
# like try_seed.sh but never touches /repo or /verif/evidence: the checks run against the scratch worktree (VERIF_REPO)
# and write evidence/replays under /verif/.scratch/seedout_<name> (VERIF_OUT).
SD=$1; NAME=$2; shift 2
WT=/tmp/confirm_$NAME
git -C /repo worktree remove --force $WT >/dev/null 2>&1
git -C /repo worktree add --detach $WT HEAD >/dev/null 2>&1 || { echo "cannot create worktree"; exit 2; }
cd $WT
/venv/bin/python $SD/demo.py >/tmp/confirm_$NAME.clean.out 2>&1; RC_CLEAN=$?
git apply $SD/patch.diff || { echo "patch does not apply"; cd /; git -C /repo worktree remove --force $WT; exit 2; }
/venv/bin/python $SD/demo.py >/tmp/confirm_$NAME.patched.out 2>&1; RC_PATCHED=$?
TESTS=$(/venv/bin/python -m pytest -q -p no:cacheprovider -n 4 2>&1 | tail -1)
echo "CONFIRM $NAME: demo clean rc=$RC_CLEAN patched rc=$RC_PATCHED tests: $TESTS"
cd /verif
OUT=/verif/.scratch/seedout_$NAME; rm -rf $OUT; mkdir -p $OUT
for id in "$@"; do
  VERIF_REPO=$WT VERIF_OUT=$OUT ./check $id --tier quick > /verif/.scratch/seed_${NAME}_$id.log 2>&1
  echo "  $NAME $id rc=$? viol=$(grep -a -c '^VIOLATION' /verif/.scratch/seed_${NAME}_$id.log) $(grep -a "^$id tier" /verif/.scratch/seed_${NAME}_$id.log | cut -c1-160)"
  grep -a -A1 '^VIOLATION' /verif/.scratch/seed_${NAME}_$id.log | grep -a 'what:' | head -2 | cut -c1-300
done
cd /; git -C /repo worktree remove --force $WT; rm -f /tmp/confirm_$NAME.*.out
