#!/bin/sh
# tools/try_seed.sh <seed_dir> <name> <check ids...>
# 1. confirm in a scratch worktree: patch applies, test suite passes, demo FAILS with it and PASSES without
# 2. apply to /repo, run the given checks (quick), undo; print a summary
SD=$1; NAME=$2; shift 2
WT=/tmp/confirm_$NAME
git -C /repo worktree remove --force $WT >/dev/null 2>&1
git -C /repo worktree add --detach $WT HEAD >/dev/null 2>&1 || { echo "cannot create worktree"; exit 2; }
cd $WT
/venv/bin/python $SD/demo.py >/tmp/confirm_$NAME.clean.out 2>&1; RC_CLEAN=$?
git apply $SD/patch.diff || { echo "patch does not apply"; cd /; git -C /repo worktree remove --force $WT; exit 2; }
/venv/bin/python $SD/demo.py >/tmp/confirm_$NAME.patched.out 2>&1; RC_PATCHED=$?
TESTS=$(/venv/bin/python -m pytest -q -p no:cacheprovider -n 8 2>&1 | tail -1)
cd /; git -C /repo worktree remove --force $WT
echo "CONFIRM $NAME: demo clean rc=$RC_CLEAN patched rc=$RC_PATCHED tests: $TESTS"
[ -n "$(git -C /repo status --short)" ] && { echo "/repo not clean"; exit 2; }
git -C /repo apply $SD/patch.diff || exit 2
cd /verif
for id in "$@"; do
  ./check $id --tier quick > /verif/.scratch/seed_${NAME}_$id.log 2>&1
  echo "  $id rc=$? viol=$(grep -a -c '^VIOLATION' /verif/.scratch/seed_${NAME}_$id.log) $(grep -a "^$id tier" /verif/.scratch/seed_${NAME}_$id.log | cut -c1-160)"
done
git -C /repo checkout -- .
git -C /repo status --short
