#!/usr/bin/env python3
"""tools/design_table.py - rewrite the table of DESIGN.md 9.5 (rows from seeded/*/meta.json) and its count line"""
import json, glob, re
rows, n, first = [], 0, 0
for f in sorted(glob.glob('/verif/seeded/*/meta.json')):
    m = json.load(open(f)); name = f.split('/')[-2]
    note = (m.get('note') or '').replace('|', '/').replace('\n', ' ')
    n += 1; first += bool(m.get('caught_at_first'))
    rows.append('| `%s` | %s | %s | %s |' % (name, ', '.join(m.get('caught_by', [])) or 'MISSED', 'yes' if m.get('caught_at_first') else 'no', note))
p = '/verif/DESIGN.md'; s = open(p).read()
head = '| seeded change | caught by (quick tier) | at first | what it took |\n|---|---|---|---|\n'
i = s.index(head) + len(head)
j = s.index('\n\n', i)
s = s[:i] + '\n'.join(rows) + s[j:]
s = re.sub(r'\n\d+ changes \([^\n]*?\): \d+ caught at once[^\n]*?, \d+ after strengthening, \d+ missed now\.',
           '\n%d changes (seven rounds, four to five per property): %d caught at once, %d after strengthening, %d missed now.' % (n, first, sum(1 for r in rows if 'MISSED' not in r) - first, sum(1 for r in rows if 'MISSED' in r)), s)
open(p, 'w').write(s)
print(n, first)
