#!/usr/bin/env python3
import json, sys
h, prop, what = sys.argv[1], sys.argv[2], sys.argv[3]
p = '/verif/known_findings.json'
d = json.load(open(p))
if not any(f.get('commit') == h for f in d['findings']):
    d['findings'].append({'property': prop, 'status': 'fixed', 'commit': h, 'key': 'fixed:' + h,
                          'line': 'fixed: property=%s %s %s' % (prop, h, what)})
json.dump(d, open(p, 'w'), indent=1)
