#!/usr/bin/env python3
"""Regenerate MANIFEST.json from the table below (keeps it schema-valid at all times)."""
import json, os, subprocess
V = os.path.dirname(os.path.dirname(os.path.abspath(__file__)))

CHECKS = {
 'C04': dict(engine='CH', category='model_checking', design='4/C04',
   technique='CrossHair symbolic execution (z3) of the real lexer actions + grammar actions on a symbolic lexeme, vs an independent literal/identifier reader',
   text='Bounded symbolic verification: for every lexeme up to the stated length (any Unicode code point) the real token action composed with the real grammar action yields exactly the value an independent reader assigns; CrossHair reports "Confirmed over all paths" or a counterexample that is replayed through parse_sql. Right level because the defects are value-dependent (escape/quote/edge characters) and the kernels are loop-light string code the solver covers completely within the bound.',
   note='Trusted: CrossHair str/int/regex models, z3; reference readers in refs/readers.py; bound: lexeme <= 5 (quick) / 7 (thorough) chars, integers <= 6/9 digits; which master-regex rule takes a lexeme in context is left to C01/C02; floats not reasoned about; ambiguous back-slash/quote pairings outside the claim.'),
}

CHECKS['C05'] = dict(engine='SYMTOK+LRZ3+CH', category='model_checking', design='4/C05',
   technique='symbolic token streams (z3 finite-domain token types, class-branching on LALR rows) through the real parse_sql/Parser.parse with an Earley oracle; z3 queries over the live LALR tables; CrossHair unit on the trailing strip',
   text='Bounded symbolic exploration: every token stream of length <= K over the full terminal alphabet of each dialect (exact covered-stream count = |alphabet|^K certifies exhaustiveness) and every single-token edit / 1-token affix of each corpus statement is run through the real parse loop and error callbacks; on every accepting path all tokens were consumed, none skipped, and the sequence is a sentence of the live grammar (independent Earley recogniser). Table-level z3 queries show no state can shift the error token (no resynchronisation) in any of the 388/571/1273 states.',
   note='Trusted: z3, our explorer (exhaustiveness self-checked by the covered count), Earley recogniser, representative lexeme per terminal. Bounds: K<=3 quick / 4 thorough; seeded neighbourhoods of 60 (quick) / all (thorough) corpus statements per dialect. Longer arbitrary streams outside the claim.')
CHECKS['C02'] = dict(engine='SYMTOK+CH', category='model_checking', design='4/C02',
   technique='symbolic token streams through the real parse_sql tail (z3-decided branching) + CrossHair units on the lexer error reporter, grammar actions and wrapper',
   text='Bounded symbolic exploration of the real parse loop, the dialect error() callbacks and the un-stubbed ErrorHandling (including its re-parses of suggestions) over all streams of <= K tokens and corpus neighbourhoods: every path ends in a tree or ParsingException. CrossHair units make the token *values* symbolic for the value-dependent grammar actions and the lexer error reporter.',
   note='Trusted: z3, CrossHair, explorer. Token values are representatives in SYMTOK (value-dependent crashes only via the CH units listed in the evidence); RecursionError on deep nesting not modelled; K<=3 quick / 4 thorough.')

CHECKS['C13'] = dict(engine='CH', category='model_checking', design='4/C13',
   technique='CrossHair symbolic execution of the real query_traversal: per-node-kind induction step with symbolic slot presence, list lengths and replaced index',
   text='Per node kind (20 walked classes, found/cross-checked by reflection) one solver-checked induction step: a node whose child slots hold fresh markers is walked by the real query_traversal; visits are exactly once per marker/nested query/node, in the order of the node\'s own to_string(), with is_table/is_target exactly on table/select-list slots, and a replacement changes exactly the visited slot. CrossHair confirms each step over all values of the symbolic presence mask, list lengths and replaced index; induction on depth extends it to all trees.',
   note='Trusted: CrossHair, slot table in harness/c13lib.py (cross-checked by reflection), node to_string() as the definition of textual order. Bounded part: list length <= 2 (quick) / 3 (thorough) per slot, uniform loops. Column-name lists and LIMIT/OFFSET constants are not treated as expression slots.')

CHECKS['C18'] = dict(engine='CH', category='model_checking', design='4/C18',
   technique='CrossHair (z3) path-splitting over node kind structure, copy flavour and a symbolic single-attribute mutation of the copy; leaves run the real copy()/__eq__/__hash__ natively',
   text='Per node kind (26 classes): for every combination of slot presence, list length, copy()/deepcopy and every single-attribute mutation of the copy discovered by reflection (symbolic index), the copy equals and prints like the original, shares no mutable object with it, has the same attribute set, and the mutation leaves the original\'s text and tree unchanged; equality is reflexive/symmetric/consistent with printing and with !=; Result hash is defined and consistent; QueryPlan/PlanStep equality returns True for equal and False for different plans.',
   note='Trusted: CrossHair path bookkeeping (inputs are finite-domain; each leaf is the real code run natively under NoTracing once all inputs are concrete on the path). One node kind per step; nested kinds by induction (deepcopy recurses uniformly). List lengths <= 2/3.')

CHECKS['C12'] = dict(engine='CH', category='model_checking', design='4/C12',
   technique='CrossHair (z3) path-splitting over the placeholder bitmask of each statement skeleton and the supplied-value count; leaves run the real prepare_steps/execute_steps and compare with the plan of the inlined text',
   text='For 16 statement skeletons covering the positions named by the property (select list, WHERE, ON, CASE operand, function FROM-argument, IN, BETWEEN, subqueries on both join sides, FROM subquery, CTE, GROUP/HAVING, UNION, INSERT values/select, UPDATE SET+WHERE, DELETE, model join, WHERE subquery) and every subset of slots turned into `?`: prepare reports exactly n parameters, execute(v1..vn) yields exactly the plan of the text with v_i inlined at the i-th `?` in textual order, no placeholder is left, and n-1 / n+1 values raise PlanningException. Unit: fill_query_params consumes values front to back without touching the caller list.',
   note='Trusted: CrossHair path bookkeeping; parametricity of the planner in placeholder values (distinct concrete values per leaf); skeleton family in harness/c12lib.py; C13 for uniform treatment of every node kind by the walker.')

CHECKS['C07'] = dict(engine='CH', category='model_checking', design='4/C07',
   technique='CrossHair symbolic execution (z3) of the captured real LiteralCompiler.render_literal_value (7 dialect names, DML+DDL), Constant.get_string and Insert.to_value on a symbolic string, read back by independent per-target literal readers',
   text='For every string value up to the bound (any code point) the literal produced by each real output path is exactly one literal of the target whose reading is the value (so it cannot terminate early): MySQL reader for mysql, standard SQL reader for the other six names, mindsdb-dialect reader for the tree\'s own string. The value class the mindsdb dialect cannot express (odd back-slash run before a quote/end) is checked separately and reported as a KNOWN-FINDING while it fails. A concrete wiring check confirms that constants in select list / WHERE / IN / INSERT values / UPDATE SET route through the checked unit for every dialect.',
   note='Trusted: CrossHair str model, reference readers (refs/readers.py), SQLAlchemy for non-string literals and labels, CPython number formatting. Bounds: value length <= 4 (quick) / 6 (thorough). Postgres fallback path is C17\'s.')

CHECKS['C16'] = dict(engine='CH', category='model_checking', design='4/C16',
   technique='CrossHair symbolic execution (z3) of the real tokens_to_string over tokens produced by the real lexer actions from a symbolic lexeme; CrossHair path-splitting over layout geometry with native leaves through the real lexer; concrete wiring check per embedding command',
   text='For every lexeme up to the bound of each value-carrying token kind (single/double quoted strings with escapes, @/@@ variables in all quoting forms, identifiers, numbers) the text rebuilt by tokens_to_string is exactly the source text; for 11 concrete tricky lexemes every layout (gaps 0..2, line breaks, block and line comments on either side) is rebuilt equal up to whitespace/comments and re-tokenises to the same values; each of the 11 embedding commands stores an inner query that equals the source up to whitespace/comments and parses to the same tree.',
   note='Trusted: CrossHair str model; STUB: Lexeme(str subclass) modelled as a plain holder with .raw inside the symbolic content harnesses (real class in layout leaves and wiring). Bounds: lexeme <= 4 (quick) / 6 (thorough) chars.')

CHECKS['C19'] = dict(engine='CH+SYMTOK', category='model_checking', design='4/C19',
   technique='CrossHair (z3) over symbolic token geometry for the real error_location / MindsDBLexer.error; symbolic token streams (SYMTOK) through the real parse_sql tail with every suggestion re-submitted to the real parser',
   text='Location: for every layout of three tokens (lengths 1..3, gaps 0..2, 0..2 line breaks, leading blank line) and every offending token or end-of-input, the text under the carets of the real message is exactly the offending token (one past the last token for end of input) and the displayed lines are source lines; the lexer\'s illegal-character message points at the character. Suggestions: on every error path of the mindsdb dialect over all token streams of length <= K and corpus neighbourhoods, the offending token is the first one the grammar cannot accept and every concrete keyword/symbol suggested is shifted by the real parser when placed after the accepted prefix.',
   note='Trusted: CrossHair path bookkeeping (geometry leaves run natively), SYMTOK explorer, representative lexemes. Bounds: 3-token layouts; K<=3 quick / 4 thorough; 80 / all corpus statements. Comments are whitespace to the lexer (absolute positions), so they are covered by the gap variables.')

CHECKS['C03'] = dict(engine='SYMTOK+LRZ3', category='model_checking', design='4/C03',
   technique='symbolic token streams over the expression alphabet (z3-decided class branching) through the real parsers of all three dialects vs an independent precedence-climbing reader; z3 query over every LALR state for operator shift/reduce decisions; z3 integer witness for differing groupings',
   text='Every expression of up to 6 (quick) / 7 (thorough) tokens over the operator alphabet in the select list, and up to 4 / 5 tokens in WHERE, ON, HAVING, function-argument and CASE-branch position, for all three dialects: on every accepting path the tree built by the real parser (grouping and parentheses flags) equals the grouping of the reference reader implementing the property\'s precedence table. Table level: in every state where a binary/unary operator production is the only complete item, the live action for every operator lookahead is the reference decision (reduce on higher-or-equal level, shift otherwise) - this quantifies over all parser states, not inputs.',
   note='Trusted: z3, explorer, reference reader (refs/precedence.py). Sequences outside the reference grammar (NOT as operand of a tighter operator, binary NOT, calls, subqueries) and chained comparisons are counted and skipped. States with competing reductions (BETWEEN..AND) are covered by SYMTOK only.')

CHECKS['C01'] = dict(engine='LEXZ3+CH', category='model_checking', design='4/C01',
   technique='decomposition skeleton x atom lemma: z3 regular-expression queries over the live lexer rule lists (keyword collisions of bare identifiers derived to exhaustion; quoted identifiers/literals/integers start no earlier rule) + CrossHair on the real identifier/variable printers; concrete round trip of one sentence per grammar production and the test corpus',
   text='Tokenisation side (solver, all three lexers): every identifier-shaped word up to 16/24 ASCII characters that an earlier lexer rule captures is derived by sat+blocking until unsat, and each one not in the printer\'s reserved set is replayed through the printer and parser; every bare-shaped word is an ID lexeme; no earlier rule can start at a back-quote, a quote or a digit run. Value side (solver): printed identifier parts, paths and variables decode to themselves for all values within the bound; inexpressible values are reported as KNOWN-FINDING while they fail. Skeletons (concrete, stated): every production\'s shortest sentence and every corpus statement is parsed, printed, re-parsed (tree and text equal), printed again and copied.',
   note='Trusted: z3 regex theory, LEXZ3 translator (validated against re on every run), CrossHair str model (one mis-modelled strip() case was met; counterexamples are always replayed natively), reference readers. String-constant atoms are C07. The skeleton part is concrete execution over a bounded statement family, not a solver verdict. Non-ASCII letters are outside the LEXZ3 alphabet.')

CHECKS['C09'] = dict(engine='CH', category='model_checking', design='4/C09',
   technique='CrossHair (z3) path-splitting over qualifier spellings and catalog forms of a 26-skeleton statement family plus a generated join family (3 join kinds x 16 ON shapes x 7 WHERE shapes x 3 tails); leaves run the real parser+planner and a generic plan walker checks numbering and that every Result reference (fields, embedded queries, sub-steps) points strictly backwards',
   text='For every member of the statement family (joins of 2-3 tables, subqueries in WHERE/target/CASE operand/function argument, CTE, FROM-subquery, UNION, INSERT..SELECT, UPDATE..FROM, DELETE, CREATE TABLE AS, model joins with versions/projects/USING partition_size, time-series model, api and files databases) x every spelling of the qualifiers x catalog supplied as names or dicts x predictor metadata as list or legacy dict: planning returns a plan or raises PlanningException/NotImplementedError, never an internal error; steps are numbered consecutively; every reference to a step result - in fields, inside embedded queries and inside map-reduce sub-steps - points to a strictly earlier step.',
   note='Trusted: CrossHair path bookkeeping (structure inputs are finite-domain; leaves run natively), generic walker in harness/planlib.py. Shapes outside the family are outside the claim. Known finding: t JOIN model JOIN t2 USING partition_size (forward reference).')
CHECKS['C10'] = dict(engine='CH', category='model_checking', design='4/C10',
   technique='CrossHair (z3) path-splitting over qualifier spellings and catalog forms of the same statement family; leaves run the real parser+planner; independent routing oracle written from the property text',
   text='For every family member x spelling x catalog form: each data table is fetched from exactly the integration its first name part resolves to case-insensitively, the query sent there carries no integration qualifier and no table of another integration, no model is sent to an integration, every model reference becomes an apply-predictor step in its own project with the version suffix kept, and the plan equals (case-insensitively) the plan for the canonical lower-case spelling and the canonical catalog form.',
   note='Trusted: CrossHair path bookkeeping, expected-routing table per skeleton in harness/c0910lib.py. Spellings: all 2^3 case variants of int1/int2 and the first letter of mindsdb/proj.')

CHECKS['C14'] = dict(engine='CH', category='model_checking', design='4/C14',
   technique='CrossHair (z3) path-splitting over a symbolic WHERE formula (10 shapes x 12 atom kinds in 3 slots), ON/USING presence and join order; leaves run the real parser+planner; z3 equivalence queries over one symbolic row (three-valued logic, LIKE/functions uninterpreted) decide whether a pushed filter is a written top-level conjunct and whether the outer filter is the written WHERE with consumed model arguments neutralised',
   text='For every table-model join of the family: exactly one apply-predictor step whose input is the fetched table; the model arguments are exactly the top-level `model.col = const` conjuncts of WHERE, which are not sent to the integration and are neutralised in the outer query, while non-top-level model conditions keep filtering; no table column becomes a model argument; every filter in the table fetch is (proved equivalent to) a top-level conjunct on that table - also for constant-first comparisons and LIKE with swapped operands; the outer filter is equivalent to the written WHERE with the consumed model arguments replaced by TRUE; USING options reach the model with lower-cased keys; ON equalities between model and table columns become the column mapping for both join orders.',
   note='Trusted: CrossHair path bookkeeping; oracle in harness/c14lib.py written from the property text; z3 (an `unknown` is inconclusive). One table x one model; deeper formulas and more tables are outside this check (C09/C10 cover their structure).')

CHECKS['C17'] = dict(engine='CH', category='model_checking', design='4/C17',
   technique='CrossHair (z3) path-splitting over a tree family (corpus + one sentence per production + unsupported shapes + 14 unsupported snippets x 17 statement frames) x 7 dialect names, and over vocabularies of type names / operators / function names / arities; leaves run the real renderer natively',
   text='For every tree of the family and every dialect name: get_string and get_exec_params with fallback never raise and return a str; with fallback disabled they return or raise only SQLAlchemyError/NotImplementedError; the tree prints and dumps identically before and after. The same contract holds for TypeCast/CREATE TABLE with every type name of the vocabulary (known, unknown, malformed), every binary/unary operator of the vocabulary (known, unknown, with tuple operands), function calls of arity 0..3 with DISTINCT / FROM-argument, and identifiers/aliases with 1..4 parts.',
   note='Trusted: CrossHair path bookkeeping; SQLAlchemy. Finite-domain choices only: symbolic strings through SQLAlchemy were measured to be out of reach for CrossHair (about 3 s solver time per path). Trees outside the family / names outside the vocabularies are outside the claim.')

CHECKS['C20'] = dict(engine='SYMTOK+CH', category='other', design='4/C20',
   technique='symbolic token streams (SYMTOK, z3-decided) re-explored after predecessor calls of every class through the real get_lexer_parser; structural fingerprint of all library-global state around call batteries; CrossHair path-splitting over pairs of statements planned on shared vs fresh catalog objects; render history in a fresh interpreter (concrete)',
   text='NARROWED SCOPE (stated): this technique decides call histories and shared-state mutation, not thread schedules or hash seeds. (a) For every predecessor class (accepting, lexer error, parser error in two dialects, planner error, plan+render) and every token stream of <= K tokens of each dialect, parse_sql gives the same tree / message as without the predecessor. (b) A structural fingerprint of every module-level and class-level object of mindsdb_sql and sly (tables, grammars, lexer classes, reserved words, ...) is unchanged by a battery of parse/plan/render calls including failing ones. (c) For every ordered pair of family statements and catalog form, planning the second on catalog objects already used for the first equals planning it on fresh objects. (d) Rendering a statement family with renderers built from dialect names and from SQLAlchemy dialect classes gives the same text before and after every other renderer and the battery were used (fresh interpreter; concrete, stated as such). Under the stated assumption that no call temporarily mutates and restores shared objects, (b) implies concurrent calls do not interfere.',
   note='NOT claimed: real thread interleavings (neither CrossHair nor our executors model CPython scheduling) and PYTHONHASHSEED independence (a two-seed re-run of the planner family is recorded in the evidence as a sample, not a verdict). K<=2 quick / 3 thorough.')

CHECKS['C15'] = dict(engine='SYMREL', category='translation_validation', design='4/C15',
   technique='z3 relational encoding (SYMREL): the fetch queries of the real plan (FetchDataframeStep / MultipleSteps / MapReduceStep with $var substitution) are evaluated over a symbolic table, symbolic window size and symbolic user constants and compared as bags with the row set of the property statement; sat models are replayed by executing the plan\'s queries on sqlite3',
   text='For each of 252 family members (9 time conditions x 3 partition filters x 0..2 partition columns x model side x LIMIT) the real planner is run once and the emitted data-fetching steps are translated; z3 shows that for EVERY table content of up to R rows (NULLs, duplicates, empty partitions), every window size 1..R and every constant, the rows handed to the model are exactly: the rows satisfying the time condition plus the `window` most recent rows before its lower bound (or the most recent `window` rows up to the point for = / LATEST), per partition value, non-NULL order value, partition filters applied. Also: output filter = the user\'s condition, LIMIT applied after the join, ORDER BY/GROUP BY/HAVING/OFFSET/foreign filters rejected with PlanningException.',
   note='Trusted: z3; SYMREL translator (validated against sqlite3 on random tables for every member on every run); step semantics from planner/steps.py docstrings. Ties in the order column and NULL partition values are excluded by stated assumptions. R=3,D=3 quick / R=4,D=4 thorough.')

CHECKS['C11'] = dict(engine='SYMREL', category='translation_validation', design='4/C11',
   technique='z3 relational encoding (SYMREL): the query of the single fetch step emitted by the real planner is compared, over all small database contents, with the original query (bag equality and output column names); sat models replayed on sqlite3 with the integration as an attached schema',
   text='For each of 38 single-integration statements (joins of every kind, nested/IN/scalar subqueries, CTE, UNION/INTERSECT/EXCEPT, GROUP BY/HAVING, DISTINCT, ORDER BY..LIMIT/OFFSET, CASE, aliases and tables spelled like the integration, mixed-case and three-part qualifiers): the plan is exactly one fetch step for that integration, and for EVERY database content within the bound the pushed query returns the same bag of rows under the same output column names as the original.',
   note='Trusted: z3; SYMREL (validated against sqlite3 per member per run); sqlite3 for replay. R=2 (quick) / 3 (thorough) rows per table, values 0..3 with NULLs. Window functions and string/date data are outside the fragment.')

CHECKS['C08'] = dict(engine='SYMREL', category='translation_validation', design='4/C08',
   technique='z3 relational encoding (SYMREL) + plan interpreter: the steps of the real plan are given the meaning of their docstrings and evaluated over a symbolic multi-integration database; bag equality (or valid-answer for LIMIT without ORDER BY) with the original query is decided for all small database contents; sat models replayed on sqlite3',
   text='For each family member (2-way joins: 5 join kinds x 4 ON shapes x 11 WHERE shapes x 8 select/tail shapes; 3-way joins, comma/cross joins, IN / NOT IN / scalar subqueries on another integration, UNION/INTERSECT/EXCEPT across integrations, CTEs, FROM-subqueries) the real planner runs once and z3 shows that, for EVERY database content within the bound (NULLs, duplicates, empty tables), executing the emitted steps yields the same bag of rows as the original query on one engine holding all tables; a fetch step may only read tables of its own integration.',
   note='Trusted: z3; SYMREL and the plan interpreter (original side validated against sqlite3 per member per run; counterexamples replayed on sqlite3 including the fetch steps); step semantics from planner/steps.py docstrings. R=2 (quick, ~200 members) / 3 (thorough, full product) rows per table, values 0..3. Row order is not compared. Known finding: LIMIT pushed into the first table\'s fetch.')

CHECKS['C06'] = dict(engine='SYMREL', category='translation_validation', design='4/C06',
   technique='z3 relational encoding (SYMREL): the text produced by the real renderer for sqlite / mysql / postgresql is read back with the repo parser and compared with the original tree over all small database contents (queries: bag of rows; DML: resulting table contents); sat models replayed on sqlite3 with the original and the rendered text',
   text='For each of 54 statements (operator grouping incl. NOT / nested parentheses / a-(b-1), every join kind incl. OUTER spellings, implicit and condition-less joins, IN/NOT IN/scalar/EXISTS subqueries, FROM-subqueries, set operations, CTE, GROUP BY/HAVING/aggregates/DISTINCT, ORDER BY..LIMIT/OFFSET, CASE, coalesce; DELETE, UPDATE, INSERT..VALUES, INSERT..SELECT) x 3 target dialects: for EVERY database content within the bound the rendered text denotes the same rows / the same resulting table as the original; statements the renderer refuses fall back to exactly the tree\'s own string.',
   note='Trusted: z3; SYMREL (validated against sqlite3 per statement per run); the repo\'s mindsdb parser for read-back (C03) with sqlite3 replay as a guard; SQLAlchemy. R=2/3 rows per table, values 0..3 with NULLs. Window functions, string/date functions, CREATE/DROP TABLE, mssql/oracle are outside this check.')

NA_PENDING = {}


def main():
    props = [json.loads(l) for l in open(os.path.join(V, 'properties.jsonl'))]
    fixes = subprocess.run(['git', '-C', '/repo', 'log', '--format=%h %s'], capture_output=True, text=True).stdout.splitlines()
    fix_commits = [l.split()[0] for l in fixes if l.split(' ', 1)[1].startswith('fix:')]
    man = {
        'version': 1,
        'setup_cmd': './setup.sh',
        'hooks': {'guard': 'MINDSDB_SQL_VERIF',
                  'enable': 'no instrumentation hooks exist: every observation point is a public object of the imported package (guard name reserved, unused); source_commits lists only unguarded fix: commits',
                  'baseline_off_cmd': 'cd /repo && /venv/bin/python -m pytest -ra -q -p no:cacheprovider --timeout=900 --continue-on-collection-errors',
                  'source_commits': fix_commits[::-1], 'add_only': True},
        'engines': [
            {'name': 'CH', 'path': 'engines/ch_worker.py', 'kind_free_text': 'CrossHair 0.0.110 symbolic execution (one z3 query per branch) of real functions of /repo; one OS process per condition; reachability twins',
             'serves_properties': sorted(k for k, v in CHECKS.items() if 'CH' in v['engine'])},
            {'name': 'SYMTOK', 'path': 'engines/symtok.py', 'kind_free_text': 'own concolic executor: real Parser.parse on token streams with symbolic token types, class-branching on LALR action rows, z3 feasibility, exact covered-input count',
             'serves_properties': sorted(k for k, v in CHECKS.items() if 'SYMTOK' in v['engine'])},
            {'name': 'LRZ3', 'path': 'engines/lrz3.py', 'kind_free_text': 'live LALR tables / grammar loaded into z3 as finite functions; universally quantified table-level queries',
             'serves_properties': sorted(k for k, v in CHECKS.items() if 'LRZ3' in v['engine'])},
            {'name': 'LEXZ3', 'path': 'engines/lexz3.py', 'kind_free_text': 'live lexer rule list translated (re._parser) to z3 regular expressions; first-match tokenisation queries',
             'serves_properties': sorted(k for k, v in CHECKS.items() if 'LEXZ3' in v['engine'])},
            {'name': 'SYMREL', 'path': 'engines/symrel.py', 'kind_free_text': 'z3 encoding of SQL relational semantics over symbolic small databases; AST front end + plan interpreter; sqlite3 replay',
             'serves_properties': sorted(k for k, v in CHECKS.items() if 'SYMREL' in v['engine'])},
        ],
        'checks': [], 'not_applicable': [],
        'notes': 'All checks: ./check <id> --tier quick|thorough (see DESIGN.md 3.7). Exit 2 = machinery failure (never a VIOLATION).',
    }
    for p in props:
        pid = p['id']
        if pid in CHECKS:
            c = CHECKS[pid]
            man['checks'].append({
                'property_id': pid, 'quick_cmd': './check %s --tier quick' % pid,
                'thorough_cmd': './check %s --tier thorough' % pid,
                'evidence_file': '/verif/evidence/%s.json' % pid,
                'replay_cmd_template': './check %s --replay {path}' % pid,
                'engine': c['engine'],
                'level_claimed': {'category': c['category'], 'text': c['text'], 'design_ref': 'DESIGN.md ' + c['design']},
                'level_note': c['note'], 'technique': c['technique']})
        else:
            man['not_applicable'].append({'property_id': pid, 'reason': NA_PENDING.get(pid, 'check not built yet in this session (solver-based design in DESIGN.md section 4); not claimed until its check runs clean')})
    json.dump(man, open(os.path.join(V, 'MANIFEST.json'), 'w'), indent=1)
    try:
        import jsonschema
        jsonschema.validate(man, json.load(open('/root/.vp/MANIFEST.schema.json')))
        print('MANIFEST valid: %d checks, %d not_applicable' % (len(man['checks']), len(man['not_applicable'])))
    except ImportError:
        print('written (jsonschema not available)')


if __name__ == '__main__':
    main()
