#!/usr/bin/env python3
"""tools/keep5.py <seed_dir> <name> <property> <caught_by|none> <yes|no: caught at first> <note>  -> /verif/seeded/<name>/ (round 5 and later:
checks were run against a scratch worktree with the patch applied, via tools/try_seed2.sh)"""
import sys, os, json, shutil, subprocess
sd, name, prop, caught, first, note = sys.argv[1:7]
dst = os.path.join('/verif/seeded', name)
os.makedirs(dst, exist_ok=True)
for f in ('patch.diff', 'demo.py'):
    shutil.copy(os.path.join(sd, f), os.path.join(dst, f))
meta = {}
try:
    meta = json.load(open(os.path.join(sd, 'meta.json')))
except Exception:
    pass
head = subprocess.run(['git', '-C', '/repo', 'rev-parse', '--short', 'HEAD'], capture_output=True, text=True).stdout.strip()
meta.update({'property': prop,
             'confirmed_by_us': 'tools/try_seed2.sh: scratch worktree of /repo HEAD, patch applies, demo exits 0 on the clean tree and 1 with the patch, 688 tests pass with the patch',
             'checks_run': 'quick tier of the property\'s check against the scratch worktree with the patch applied (VERIF_REPO), evidence written outside /verif/evidence',
             'caught_by': [] if caught == 'none' else caught.split(','), 'caught_at_first': first == 'yes', 'note': note, 'applies_to_repo_commit': head})
json.dump(meta, open(os.path.join(dst, 'meta.json'), 'w'), indent=1)
print('kept', dst)
