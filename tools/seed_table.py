#!/usr/bin/env python3
"""tools/seed_table.py - print the markdown rows of DESIGN 9.5 from seeded/*/meta.json"""
import json, glob
n = first = 0
for f in sorted(glob.glob('/verif/seeded/*/meta.json')):
    m = json.load(open(f)); name = f.split('/')[-2]
    note = (m.get('note') or '').replace('|', '/')
    n += 1; first += bool(m.get('caught_at_first'))
    print('| `%s` | %s | %s | %s |' % (name, ', '.join(m.get('caught_by', [])) or 'MISSED', 'yes' if m.get('caught_at_first') else 'no', note))
print('\n%d seeds, %d caught at first' % (n, first))
