#!/bin/sh
# Build the overlay venv for the checks, offline, from files on disk only.
set -e
cd "$(dirname "$0")"
V=/verif/.venv
if [ -x "$V/bin/python" ] && "$V/bin/python" -c "import crosshair, z3, sly, sqlalchemy, jsonschema" 2>/dev/null; then
  exit 0
fi
rm -rf "$V"
/venv/bin/python -m venv "$V"
SP=$("$V/bin/python" -c "import sysconfig; print(sysconfig.get_paths()['purelib'])")
printf "import site; site.addsitedir('/venv/lib/python3.12/site-packages')\n/repo\n" > "$SP/verif_overlay.pth"
PIP_NO_INDEX=1 "$V/bin/pip" install -q --no-index --find-links /opt/veriftools/wheels crosshair-tool z3-solver cvc5 jsonschema >/dev/null
"$V/bin/python" -c "import crosshair, z3, sly, sqlalchemy, jsonschema, mindsdb_sql; print('overlay venv ok', mindsdb_sql.__file__)"
