"""Plan interpreter: the meaning of each plan step class (docstrings of mindsdb_sql/planner/steps.py) over SYMREL relations.

Column identity through steps follows the convention the planner itself relies on (plan_join.py and the plans pinned in
tests/test_planner/test_join_tables.py): a fetch of `SELECT * FROM t [AS a]` yields columns tagged with the alias a, or with
every lower-cased suffix of the table's name parts; a projection yields untagged columns; SubSelectStep(table_name=n) re-tags
its output with n; JoinStep.query is Join(tab1, tab2, kind, condition) whose condition addresses both inputs by those tags;
QueryStep / SubSelectStep queries (no FROM) address their input the same way."""
import copy
import z3
from engines import symrel as SR
from mindsdb_sql.parser import ast as A
from mindsdb_sql.planner import steps as S


class PlanInterpreter:
    def __init__(self, db, table_integration, consts=None):
        """table_integration: {table name: integration} (a fetch step sees only its integration's tables)"""
        self.db = db
        self.tint = {k.lower(): v for k, v in table_integration.items()}
        self.consts = consts
        self.results = {}
        self.assumptions = []
        self.foreign = []       # (step number, table) for tables scanned in the wrong integration

    def evaluator(self, integration=None, step_num=None):
        def tf(name):
            if integration is not None and self.tint.get(name) != integration:
                self.foreign.append((step_num, name))
                raise SR.Unsupported('table %s does not live in integration %s' % (name, integration))
        extra = {'result_%s' % k: v for k, v in self.results.items()}
        return SR.Evaluator(self.db, consts=self.consts, table_filter=tf if integration is not None else None, extra_relations=extra)

    def over(self, query, rel, step_num):
        q = copy.copy(query)
        q._symrel_src = rel
        ev = self.evaluator()
        out = ev.query(q)
        self.assumptions += ev.assumptions
        return out

    def run(self, plan):
        last = None
        for step in plan.steps:
            last = self.step(step)
            self.results[step.step_num] = last
        return last

    def step(self, step):
        n = step.step_num
        if isinstance(step, S.FetchDataframeStep):
            if step.query is None:
                raise SR.Unsupported('raw query fetch')
            ev = self.evaluator(step.integration, n)
            out = ev.query(step.query)
            self.assumptions += ev.assumptions
            return out
        if isinstance(step, S.SubSelectStep):
            src = self.results[step.dataframe.step_num]
            if step.table_name:
                # the step's query may address its input by that name
                src = SR.Rel([SR.Col(c.name, list(c.tags) + [(step.table_name.lower(),)]) for c in src.cols], src.rows)
            out = self.over(step.query, src, n)
            if step.table_name:
                ranks = getattr(out, '_ranks', None)
                out = SR.Rel([SR.Col(c.name, [(step.table_name.lower(),)]) for c in out.cols], out.rows)
                if ranks is not None:
                    out._ranks = ranks
            return out
        if isinstance(step, S.QueryStep):
            if step.from_table is None:
                ev = self.evaluator()
                out = ev.query(step.query)
                self.assumptions += ev.assumptions
                return out
            return self.over(step.query, self.results[step.from_table.step_num], n)
        if isinstance(step, S.JoinStep):
            j = A.Join(join_type=step.query.join_type, left=SR.RelRef(self.results[step.left.step_num]),
                       right=SR.RelRef(self.results[step.right.step_num]), condition=step.query.condition)
            ev = self.evaluator()
            out = ev.join(j)
            self.assumptions += ev.assumptions
            return out
        if isinstance(step, S.UnionStep):
            l, r = self.results[step.left.step_num], self.results[step.right.step_num]
            cls = {'union': A.Union, 'intersect': A.Intersect, 'except': A.Except}[(step.operation or 'union').lower()]
            ev = self.evaluator()
            ql = A.Select(targets=[A.Star()]); ql._symrel_src = l
            qr = A.Select(targets=[A.Star()]); qr._symrel_src = r
            out = ev.setop(cls(left=ql, right=qr, unique=step.unique))
            self.assumptions += ev.assumptions
            return out
        if isinstance(step, S.LimitOffsetStep):
            q = A.Select(targets=[A.Star()], limit=A.Constant(step.limit) if step.limit is not None and not isinstance(step.limit, A.ASTNode) else step.limit,
                         offset=A.Constant(step.offset) if step.offset is not None and not isinstance(step.offset, A.ASTNode) else step.offset)
            return self.over(q, self.results[step.dataframe.step_num], n)
        if isinstance(step, S.ProjectStep):
            q = A.Select(targets=list(step.columns))
            return self.over(q, self.results[step.dataframe.step_num], n)
        raise SR.Unsupported('step %s' % type(step).__name__)
