"""C19 (suggestions): on every SYMTOK error path of the mindsdb dialect, each concrete keyword/symbol suggested by the
real ErrorHandling, placed at the offending position, is accepted by the real parser (parsing proceeds past it)."""
import re

PLACEHOLDERS = {'[identifier]', '[number]', '[string]'}
_lex_cache = {}


def _token_for(L, value):
    if value not in _lex_cache:
        try:
            toks = list(L().tokenize(value))
        except Exception:  # noqa
            toks = []
        _lex_cache[value] = toks[0] if len(toks) == 1 else None
    return _lex_cache[value]


def error_position(P, tokens):
    """index of the first token the real parser cannot accept (len(tokens) for unexpected end), or None if accepted"""
    from mindsdb_sql.exceptions import ParsingException
    p = P()
    toks = list(tokens)
    try:
        r = p.parse(iter(toks))
    except ParsingException:
        return -1
    if r is not None:
        return None
    info = getattr(p, 'error_info', None)
    if not info:
        return -1
    bad = info['bad_token']
    if bad is None:
        return len(toks)
    for i, t in enumerate(toks):
        if t is bad:
            return i
    return -1


def check_suggestions(dialect, L, P, toks, r, st):
    if dialect != 'mindsdb' or not r.message:
        return
    info = r.first_error[0] if r.first_error else None
    if not info:
        return
    bad = info['bad_token']
    e = len(toks)
    if bad is not None:
        for i, t in enumerate(toks):
            if t is bad:
                e = i
    # the offending token is the first one the grammar cannot accept: everything before it was shifted (type fixed)
    for t in toks[:e]:
        if hasattr(t, 'fixed') and t.fixed is None:
            st['findings'].append({'kind': 'c19-bad-token-not-first', 'dialect': dialect, 'types': [str(x.type) for x in toks], 'e': e})
            return
    # the parser reported a syntax error at a token (or at the end of input): the message must show the source with carets under it -
    # whatever else happens while the reporter tries out its suggestions
    if '^' not in r.message:
        st['findings'].append({'kind': 'c19-message-without-location', 'dialect': dialect, 'types': [str(x.type) for x in toks], 'e': e,
                               'message': r.message[:200]})
        return
    last = r.message.split('\n')[-1]
    if not (last.startswith('Possible inputs: ') or last.startswith('Expected symbol: ')):
        return
    st['suggestion_paths'] += 1
    for value in re.findall(r'"([^"]*)"', last):
        if value in PLACEHOLDERS:
            continue
        tok = _token_for(L, value)
        st['suggestions_checked'] += 1
        if tok is None:
            st['findings'].append({'kind': 'c19-suggestion-not-a-token', 'dialect': dialect, 'suggestion': value,
                                   'types': [str(x.type) for x in toks[:e]]})
            continue
        prefix = list(toks[:e])
        pos = error_position(P, prefix + [tok])
        if pos is not None and pos != -1 and pos <= e:
            st['findings'].append({'kind': 'c19-suggestion-rejected', 'dialect': dialect, 'suggestion': value, 'token': tok.type,
                                   'types': [str(x.type) for x in toks[:e]], 'error_at': pos,
                                   'rest': [str(x.type) for x in toks[e:]]})
