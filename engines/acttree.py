"""ACTTREE - grammar actions over small derivation trees with symbolic token values (DESIGN 4/C02-U2, as built).

A grammar action is a bottom-up function of its children's values, so an internal error in the action of production p is a
property of (p, the values of p's children).  For every production p of a live SLY grammar this engine builds small derivation
trees rooted at p: each nonterminal child is expanded by one of up to A *alternative* shallow derivations (chosen by a symbolic
index; diverse productions first, few tokens), deeper levels by the shortest derivation.  The value-carrying tokens of the tree
(ID, INTEGER, FLOAT, strings, variables) get SYMBOLIC values (CrossHair), keywords their own text.  The real action functions are
then applied bottom-up through SLY's real YaccProduction objects.  Verdict per production: every path returns a value or raises
ParsingException.  Counterexamples are replayed through parse_sql: the subtree's tokens are written out with the counterexample's
values inside the shortest sentential context of p's left-hand side.
"""
import re
from sly.lex import Token
from engines.prodstub import apply_action

VALUE_TERMINALS = ('ID', 'INTEGER', 'FLOAT', 'QUOTE_STRING', 'DQUOTE_STRING', 'VARIABLE', 'SYSTEM_VARIABLE')
FLOATS = ['0.0', '1.5', '0.25', '10.0']
VARNAMES = ['v', 'x1']
ID_RE = re.compile(r'[A-Za-z_][A-Za-z_0-9]*')


class Node:
    __slots__ = ('prod', 'children')

    def __init__(self, prod, children):
        self.prod, self.children = prod, children      # children: Node | terminal name (str)

    def tokens(self):
        out = []
        for c in self.children:
            if isinstance(c, Node):
                out += c.tokens()
            else:
                out.append(c)
        return out

    def prods(self):
        s = {self.prod.number}
        for c in self.children:
            if isinstance(c, Node):
                s |= c.prods()
        return s


class Deriv:
    def __init__(self, parser_cls, max_tokens=3, cap=60, alts=6, prefer=None):
        self.parser_cls = parser_cls
        # prefer: {terminal: cost below 1} - derivations through these terminals win ties against keyword terminals (a name position then
        # derives an ID rather than a keyword that may stand for a name)
        self.prefer = prefer or {}
        g = parser_cls._grammar
        self.prods = list(g.Productions[1:])
        self.terms = set(g.Terminals)
        self.by_name = {}
        for p in self.prods:
            self.by_name.setdefault(p.name, []).append(p)
        self.start = str(g.Productions[0].prod[0])
        self.A = alts
        self._best = {}
        self._compute_best()
        self._small = {}
        self.max_tokens, self.cap = max_tokens, cap
        self._context()

    # shortest expansion (as a tree) of every nonterminal
    def _compute_best(self):
        best, changed = {}, True
        while changed:
            changed = False
            for p in self.prods:
                kids, n, cost, ok = [], 0, 0.0, True
                for s in p.prod:
                    s = str(s)
                    if s in self.terms:
                        kids.append(s)
                        n += 1
                        cost += self.prefer.get(s, 1.0)
                    elif s in best:
                        kids.append(best[s][1])
                        n += best[s][0]
                        cost += best[s][3]
                    else:
                        ok = False
                        break
                if ok:
                    node = Node(p, kids)
                    # ties: prefer the derivation with fewer quoted-string tokens (identifier -> id -> ID before identifier -> "..")
                    pen = sum(1 for t in node.tokens() if t in ('QUOTE_STRING', 'DQUOTE_STRING'))
                    if p.name not in best or (cost, pen) < (best[p.name][3] - 1e-9, best[p.name][2]) or (abs(cost - best[p.name][3]) < 1e-9 and pen < best[p.name][2]):
                        best[p.name] = (n, node, pen, cost)
                        changed = True
        self._best = best

    def best(self, nt):
        return self._best[nt][1]

    # all derivation trees of nt with at most max_tokens tokens (capped), shortest first
    def small(self, nt, budget=None, depth=0):
        budget = self.max_tokens if budget is None else budget
        key = (nt, budget)
        if key in self._small:
            return self._small[key]
        self._small[key] = []          # cuts recursion through cycles
        out = []
        if depth < 6:
            for p in self.by_name.get(nt, []):
                syms = [str(s) for s in p.prod]
                nterm = sum(1 for s in syms if s in self.terms)
                if nterm > budget:
                    continue
                combos = [([], budget)]
                for s in syms:
                    new = []
                    for kids, left in combos:
                        if s in self.terms:
                            if left >= 1:
                                new.append((kids + [s], left - 1))
                        else:
                            for t in self.small(s, left, depth + 1)[:8]:
                                n = len(t.tokens())
                                if n <= left:
                                    new.append((kids + [t], left - n))
                    combos = new[:self.cap]
                    if not combos:
                        break
                for kids, left in combos:
                    out.append(Node(p, kids))
        out.sort(key=lambda t: (len(t.tokens()), len(t.prods())))
        out = out[:self.cap]
        self._small[key] = out
        return out

    def alternatives(self, nt):
        """up to A derivations of nt: the shortest first, then those that add productions not yet used (diversity)"""
        cands = list(self.small(nt))
        if nt in self._best and not cands:
            cands = [self.best(nt)]
        chosen, used = [], set()
        if nt in self._best:
            chosen.append(self.best(nt))
            used |= chosen[0].prods()
        for t in cands:
            if len(chosen) >= self.A:
                break
            new = t.prods() - used
            if new:
                chosen.append(t)
                used |= new
        return chosen

    # shortest sentential context (prefix, suffix as terminal lists) of every nonterminal
    def _context(self):
        ctx = {self.start: ((), ())}
        changed = True
        while changed:
            changed = False
            for p in self.prods:
                if p.name not in ctx:
                    continue
                pre0, suf0 = ctx[p.name]
                syms = [str(s) for s in p.prod]
                exp, ok = [], True
                for s in syms:
                    if s in self.terms:
                        exp.append((s,))
                    elif s in self._best:
                        exp.append(tuple(self.best(s).tokens()))
                    else:
                        ok = False
                        break
                if not ok:
                    continue
                for i, s in enumerate(syms):
                    if s not in self.terms:
                        pre = pre0 + tuple(x for e in exp[:i] for x in e)
                        suf = tuple(x for e in exp[i + 1:] for x in e) + suf0
                        if s not in ctx or len(pre) + len(suf) < len(ctx[s][0]) + len(ctx[s][1]):
                            ctx[s] = (pre, suf)
                            changed = True
        self.ctx = ctx

    def production_trees(self, nt):
        """one tree per production of nt (its children expanded by their shortest derivations): substituting each of them for a
        child of a parent production covers every (parent production, child production) pair of the grammar"""
        out = []
        for p in self.by_name.get(nt, []):
            kids, ok = [], True
            for s in p.prod:
                s = str(s)
                if s in self.terms:
                    kids.append(s)
                elif s in self._best:
                    kids.append(self.best(s))
                else:
                    ok = False
                    break
            if ok:
                out.append(Node(p, kids))
        return out

    def pair_trees(self, prod):
        """trees of `prod` in which ONE nonterminal child is expanded by each production of its nonterminal, the others shortest"""
        syms = [str(s) for s in prod.prod]
        base = [s if s in self.terms else (self.best(s) if s in self._best else None) for s in syms]
        if any(b is None for b in base):
            return
        for j, s in enumerate(syms):
            if s in self.terms:
                continue
            for t in self.production_trees(s):
                kids = list(base)
                kids[j] = t
                yield j, t.prod, Node(prod, kids)

    def paren_trees(self, prod):
        """trees of `prod` in which ONE nonterminal child is a PARENTHESISING production of its nonterminal (LPAREN X RPAREN, one nonterminal
        X) whose X is expanded by each production of X, the others shortest: every (parent production, parenthesised child production)
        triple - what user-written parentheses are there to keep apart"""
        syms = [str(s) for s in prod.prod]
        base = [s if s in self.terms else (self.best(s) if s in self._best else None) for s in syms]
        if any(b is None for b in base):
            return
        for j, s in enumerate(syms):
            if s in self.terms:
                continue
            for w in self.by_name.get(s, []):
                ws = [str(x) for x in w.prod]
                nts = [x for x in ws if x not in self.terms]
                if len(nts) != 1 or ws[0] != 'LPAREN' or ws[-1] != 'RPAREN' or len(ws) != 3:
                    continue
                for t in self.production_trees(nts[0]):
                    kids = list(base)
                    kids[j] = Node(w, [x if x in self.terms else t for x in ws])
                    yield j, w, t.prod, Node(prod, kids)

    def root_trees(self, prod, picks):
        """the derivation tree of `prod` whose i-th nonterminal child uses alternative picks[i] (0 = shortest)"""
        kids, j = [], 0
        for s in prod.prod:
            s = str(s)
            if s in self.terms:
                kids.append(s)
            else:
                alts = self.alternatives(s)
                k = picks[j] if j < len(picks) else 0
                kids.append(alts[k] if k < len(alts) else alts[0])
                j += 1
        return Node(prod, kids)

    def n_alternatives(self, prod):
        return [len(self.alternatives(str(s))) for s in prod.prod if str(s) not in self.terms]


COINCIDE_IDS = ('Id1', 'ID1')


class Pools:
    """symbolic values handed to the value-carrying tokens in textual order; beyond the pool, concrete defaults"""
    def __init__(self, ints=(), ids=(), strs=(), fl=0, var=0):
        self.ints, self.ids, self.strs = list(ints), list(ids), list(strs)
        self.fl, self.var = fl, var
        self.digits = '3'           # text of INTEGER tokens that are not under the nonterminal `integer`
        self.used = []
        # the coinciding-names vocabulary (every ID is the same name in another letter case) also re-spells the keyword-like words the
        # grammar accepts as names (CREATE TABLE create (Create ...)): lexers ignore case, token values keep the spelling
        self.word_case = (self.ids == list(COINCIDE_IDS))
        self._nword = 0

    def word(self, text):
        if not self.word_case or not text.replace('_', '').isalpha():
            return text
        self._nword += 1
        return (text.upper(), text.lower(), text.capitalize())[self._nword % 3]

    def lexeme(self, term):
        if term == 'INTEGER':
            v = self.digits
        elif term == 'ID':
            v = self.ids.pop(0) if self.ids else 'id1'
        elif term == 'QUOTE_STRING':
            v = "'" + (self.strs.pop(0) if self.strs else 's') + "'"
        elif term == 'DQUOTE_STRING':
            v = '"' + (self.strs.pop(0) if self.strs else 'd') + '"'
        elif term == 'FLOAT':
            v = FLOATS[self.fl]
        elif term == 'VARIABLE':
            v = '@' + VARNAMES[self.var]
        elif term == 'SYSTEM_VARIABLE':
            v = '@@' + VARNAMES[self.var]
        else:
            raise KeyError(term)
        self.used.append((term, v))
        return v


def token_value(term, lexeme):
    """the value the lexer's action gives the token (content decoding of quoted strings is C04's subject: the symbolic content
    is restricted to characters that decode to themselves)"""
    if term in ('VARIABLE', 'SYSTEM_VARIABLE'):
        return lexeme.lstrip('@')
    return lexeme


def evaluate(parser, node, pools, rep, depth=0):
    """apply the real actions bottom-up.  The value of the nonterminal `integer` (production integer -> INTEGER, action int(text)) is
    taken from the integer pool directly: its domain is exactly the non-negative ints, and pushing a symbolic int through
    str()/int() makes the solver enumerate digit strings.  Direct INTEGER tokens in other productions get digit text."""
    if node.prod.name == 'integer' and [str(x) for x in node.prod.prod] == ['INTEGER'] and pools.ints:
        v = pools.ints.pop(0)
        pools.used.append(('INTEGER', str(v)))
        return v
    vals = []
    for c in node.children:
        if isinstance(c, Node):
            vals.append(evaluate(parser, c, pools, rep, depth + 1))
        elif c in VALUE_TERMINALS:
            t = Token()
            t.type, t.lineno, t.index, t.end = c, 1, 0, 1
            t.value = token_value(c, pools.lexeme(c))
            vals.append(t)
        else:
            t = Token()
            t.type, t.lineno, t.index, t.end = c, 1, 0, 1
            t.value = pools.word(rep.get(c, c))
            vals.append(t)
    return apply_action(parser, node.prod, vals)


def text_of(node, pools, lexemes):
    if node.prod.name == 'integer' and [str(x) for x in node.prod.prod] == ['INTEGER'] and pools.ints:
        return str(pools.ints.pop(0))
    out = []
    for c in node.children:
        if isinstance(c, Node):
            out.append(text_of(c, pools, lexemes))
        elif c in VALUE_TERMINALS:
            out.append(pools.lexeme(c))
        else:
            out.append(pools.word(lexemes.get(c, c)))
    return ' '.join(x for x in out if x != '')
