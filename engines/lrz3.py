"""LRZ3 — the live LALR tables and grammar as finite z3 relations (DESIGN 2.3).

Everything is read from `Parser._lrtable` / `Parser._grammar` at run time.  Symbolic variables are a
state, a terminal, a production, a position; the relations are finite disjunctions of the live entries.
"""
import time
import z3


class Tables:
    def __init__(self, parser_cls):
        self.P = parser_cls
        g = parser_cls._grammar
        lt = parser_cls._lrtable
        self.action = getattr(lt, '_symtok_orig', lt.lr_action)
        self.goto = lt.lr_goto
        self.defaulted = lt.defaulted_states
        self.prods = g.Productions
        self.terminals = sorted(set(g.Terminals) | {'$end'})
        self.nonterminals = sorted(g.Nonterminals)
        self.symbols = self.terminals + self.nonterminals
        self.tcode = {t: i for i, t in enumerate(self.terminals)}
        self.scode = {s: i for i, s in enumerate(self.symbols)}
        self.nstates = len(self.action)
        self.queries = 0
        self.solver_s = 0.0
        self.S = z3.Int('state')
        self.T = z3.Int('terminal')
        self.A = z3.Int('action')
        self._entry = None

    def entry_relation(self):
        """entry(S, T, A): the action table as one finite relation"""
        if self._entry is None:
            by_state = []
            for s, row in self.action.items():
                alts = [z3.And(self.T == self.tcode[t], self.A == a) for t, a in row.items() if t in self.tcode]
                extra = [t for t in row if t not in self.tcode]
                if extra:
                    raise ValueError('action on unknown terminal %r in state %d' % (extra, s))
                by_state.append(z3.And(self.S == s, z3.Or(alts) if alts else z3.BoolVal(False)))
            self._entry = z3.Or(by_state)
        return self._entry

    def check(self, *constraints):
        s = z3.Solver()
        s.add(*constraints)
        t0 = time.perf_counter()
        r = s.check()
        self.solver_s += time.perf_counter() - t0
        self.queries += 1
        return str(r), (s.model() if str(r) == 'sat' else None)

    # ---- C05 obligations -------------------------------------------------------------------------
    def q_error_terminal_has_action(self):
        """exists state: the row has an entry for the `error` token?  (unsat = resynchronisation can never shift)"""
        if 'error' not in self.tcode:
            return 'unsat', None
        return self.check(self.entry_relation(), self.T == self.tcode['error'])

    def q_production_mentions_error(self):
        """exists production p, position i: rhs(p)[i] == error"""
        Pn, I = z3.Int('prod'), z3.Int('pos')
        facts = []
        for p in self.prods:
            for i, sym in enumerate(p.prod):
                if str(sym) == 'error':
                    facts.append(z3.And(Pn == p.number, I == i))
        rel = z3.Or(facts) if facts else z3.BoolVal(False)
        return self.check(rel)

    def q_defaulted_not_single_reduce(self):
        """exists defaulted state s whose row is not exactly one reduce action equal to defaulted[s]"""
        T2, A2 = z3.Int('terminal2'), z3.Int('action2')
        e1 = self.entry_relation()
        e2 = z3.substitute(e1, (self.T, T2), (self.A, A2))
        D = z3.Int('dflt')
        dfl = z3.Or([z3.And(self.S == s, D == a) for s, a in self.defaulted.items()]) if self.defaulted else z3.BoolVal(False)
        bad = z3.Or(z3.And(e2, T2 != self.T), self.A >= 0, self.A != D)
        return self.check(dfl, e1, bad)

    def q_defaulted_missed(self):
        """informational: a state with exactly one action, a reduce, that is not defaulted (harmless)"""
        return None
