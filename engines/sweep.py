"""SYMTOK sweeps shared by C02 / C05 / C19: run the real parse_sql tail on symbolic token streams.

Spaces (DESIGN 2.4): (i) every sequence of exactly K tokens over the dialect's full terminal alphabet;
(iii) seeded: a corpus statement (real tokens from the real lexer) with one symbolic token inserted /
substituted / one token deleted at a symbolic position, or a symbolic 1..2-token prefix / suffix.
"""
import os, sys, ast as pyast, glob, time, json, random, multiprocessing as mp, traceback

DIALECTS = ('sqlite', 'mysql', 'mindsdb')


def dialect_classes(dialect):
    if dialect == 'sqlite':
        from mindsdb_sql.parser.lexer import SQLLexer as L
        from mindsdb_sql.parser.parser import SQLParser as P
    elif dialect == 'mysql':
        from mindsdb_sql.parser.dialects.mysql.lexer import MySQLLexer as L
        from mindsdb_sql.parser.dialects.mysql.parser import MySQLParser as P
    else:
        from mindsdb_sql.parser.dialects.mindsdb.lexer import MindsDBLexer as L
        from mindsdb_sql.parser.dialects.mindsdb.parser import MindsDBParser as P
    return L, P


def alphabet_of(P):
    return sorted(t for t in P._grammar.Terminals if t != 'error')


# ---- corpus ---------------------------------------------------------------------------------------

def harvest_corpus(max_len=400):
    """SQL strings of the repo's tests: every string constant in tests/**/*.py that some dialect accepts.
    Returns {dialect: [sql,...]} (deduplicated by token-type sequence)."""
    import mindsdb_sql
    from mindsdb_sql import parse_sql
    strings = set()
    for f in glob.glob('/repo/tests/**/*.py', recursive=True):
        try:
            tree = pyast.parse(open(f).read())
        except Exception:  # noqa
            continue
        for node in pyast.walk(tree):
            if isinstance(node, pyast.Constant) and isinstance(node.value, str):
                s = node.value.strip()
                if 3 < len(s) <= max_len and (' ' in s):
                    strings.add(s)
    out = {d: [] for d in DIALECTS}
    seen = {d: set() for d in DIALECTS}
    for s in sorted(strings):
        for d in DIALECTS:
            L, P = dialect_classes(d)
            try:
                parse_sql(s, d)
            except Exception:  # noqa
                continue
            import re
            text = re.sub(r'[\s;]+$', '', s)
            types = tuple(t.type for t in L().tokenize(text))
            if types in seen[d] or len(types) > 60:
                continue
            seen[d].add(types)
            out[d].append(s)
    return out


# ---- one path --------------------------------------------------------------------------------------

class PathResult:
    __slots__ = ('outcome', 'exc', 'ast', 'message', 'tokens', 'pulled', 'parser', 'first_error')


_N_TEXT = [0]


def _stand_in_text():
    """the text argument of parse_sql stands for the text of this execution's token stream: a different stream is a different text, so
    every execution gets its own (anything keyed on the text - a memo of parsed statements, say - must not confuse two executions)"""
    _N_TEXT[0] += 1
    return '<symbolic token stream %d>' % _N_TEXT[0]


def run_tail(dialect, L, P, tokens, full_error_handling=True):
    """the real parse_sql with the lexer replaced by the given token stream"""
    import mindsdb_sql
    from mindsdb_sql.exceptions import ParsingException
    pulled = [0]

    def gen():
        for t in tokens:
            pulled[0] += 1
            yield t
    lx = L()
    lx.tokenize = lambda text: gen()
    parser = P()
    first = []
    orig_error = parser.error

    def error(*a, **k):
        # observe (not alter) the first error report: later re-parses by ErrorHandling overwrite parser.error_info
        res = orig_error(*a, **k)
        if not first:
            first.append(getattr(parser, 'error_info', None))
        return res
    parser.error = error
    mindsdb_sql.get_lexer_parser = lambda d: (lx, parser)
    r = PathResult()
    r.first_error = first
    r.parser = parser
    r.exc = None
    r.ast = None
    r.message = None
    try:
        r.ast = mindsdb_sql.parse_sql(_stand_in_text(), dialect)
        r.outcome = 'accept' if r.ast is not None else 'none-returned'
    except ParsingException as e:
        r.outcome = 'reject'
        r.message = str(e)
    except Exception as e:  # noqa  (BaseException = explorer control flow, not caught)
        r.outcome = 'internal'
        r.exc = e
    r.pulled = pulled[0]
    return r


def type_names(tokens):
    out = []
    for t in tokens:
        ty = t.type
        out.append(ty.tok.type_name() if hasattr(ty, 'tok') else str(ty))
    return out


def instance_names(tokens):
    """one concrete member of the path's input class: unfixed tokens take some terminal of their remaining domain"""
    out = []
    for t in tokens:
        ty = t.type
        if hasattr(ty, 'tok'):
            tok = ty.tok
            if tok.fixed is not None:
                out.append(tok.fixed)
            else:
                rest = [a for a in tok.explorer.alphabet if a not in tok.excluded]
                # prefer a terminal whose lexeme is easy to write down
                pref = [a for a in ('COMMA', 'RPAREN', 'ID', 'INTEGER') if a in rest]
                out.append(pref[0] if pref else rest[0])
        else:
            out.append(str(ty))
    return out


def path_weight(tokens):
    """number of (type sequence, line layout) inputs the path stands for: product of the type-class sizes, times 2 for
    every token whose symbolic line break was never looked at on this path"""
    w = 1
    for t in tokens:
        if hasattr(t, 'domain_size'):
            w *= t.domain_size()
            if getattr(t, '_lineno', 1) is None:
                w *= 2
    return w


# ---- worker: space (i) ------------------------------------------------------------------------------

def _check_path(dialect, toks, r, earley, st, on_reject=None):
    from mindsdb_sql.parser.ast.base import ASTNode
    st[r.outcome] = st.get(r.outcome, 0) + 1
    st['covered'] += path_weight(toks)
    names = type_names(toks)
    nf0 = len(st['findings'])
    if r.outcome == 'accept':
        unfixed = [t for t in toks if hasattr(t, 'fixed') and t.fixed is None]
        if unfixed:
            st['findings'].append({'kind': 'accept-with-skipped-token', 'dialect': dialect, 'types': names})
        elif r.pulled != len(toks):
            st['findings'].append({'kind': 'accept-with-unread-tokens', 'dialect': dialect, 'types': names, 'pulled': r.pulled})
        elif not earley.recognise(names):
            st['findings'].append({'kind': 'accept-non-sentence', 'dialect': dialect, 'types': names})
        if not isinstance(r.ast, ASTNode):
            st['findings'].append({'kind': 'non-tree-result', 'dialect': dialect, 'types': names, 'result': repr(r.ast)[:100]})
        if len(st['samples']) < 3:
            st['samples'].append({'types': names, 'outcome': 'accept', 'covers': path_weight(toks)})
    elif r.outcome == 'internal':
        st['findings'].append({'kind': 'internal-error', 'dialect': dialect, 'types': names,
                               'exc': type(r.exc).__name__, 'msg': str(r.exc)[:120]})
    elif r.outcome == 'none-returned':
        st['findings'].append({'kind': 'none-returned', 'dialect': dialect, 'types': names})
    else:
        if len(st['samples']) < 6 and path_weight(toks) > 1:
            st['samples'].append({'types': names, 'outcome': 'reject', 'covers': path_weight(toks)})
        if on_reject:
            on_reject(toks, r, st)
    for f in st['findings'][nf0:]:
        if 'types' in f and 'instance' not in f:
            f['instance'] = instance_names(toks)


PREDECESSORS = {
    'none': None,
    'accept': lambda: _call_parse("SELECT a, b FROM t1 WHERE a = 1", 'mindsdb'),
    'lexer-error': lambda: _call_parse("SELECT # FROM t", 'mindsdb'),
    'parser-error': lambda: _call_parse("SELECT FROM WHERE", 'mindsdb'),
    'parser-error-mysql': lambda: _call_parse("SELECT a FROM", 'mysql'),
    'planner-error': lambda: _call_plan("SELECT * FROM nodb.t1 JOIN nodb2.t2"),
    'plan-and-render': lambda: _call_plan("SELECT t1.a FROM int1.t1 JOIN int2.t2 ON t1.id = t2.id WHERE t1.a > 1", render=True),
}


def _call_parse(sql, dialect):
    from mindsdb_sql import parse_sql
    try:
        parse_sql(sql, dialect)
    except Exception:  # noqa
        pass


def _call_plan(sql, render=False):
    from mindsdb_sql import parse_sql
    from mindsdb_sql.planner import plan_query
    try:
        q = parse_sql(sql, 'mindsdb')
        plan_query(q, integrations=['int1', 'int2'], predictor_metadata=[{'name': 'pred', 'integration_name': 'mindsdb'}])
        if render:
            from mindsdb_sql.render.sqlalchemy_render import SqlalchemyRender
            SqlalchemyRender('mysql').get_string(q)
    except Exception:  # noqa
        pass


def run_tail_real(dialect, L, tokens):
    """the real parse_sql INCLUDING the real get_lexer_parser (so a cached lexer/parser would be used); only the lexer
    class's tokenize is replaced to deliver the symbolic token stream"""
    import mindsdb_sql
    from mindsdb_sql.exceptions import ParsingException
    orig = L.tokenize
    L.tokenize = lambda self, text, *a, **k: iter(tokens)
    r = PathResult()
    r.exc = r.ast = r.message = None
    try:
        r.ast = mindsdb_sql.parse_sql(_stand_in_text(), dialect)
        r.outcome = 'accept' if r.ast is not None else 'none-returned'
    except ParsingException as e:
        r.outcome = 'reject'
        r.message = str(e)
    except Exception as e:  # noqa
        r.outcome = 'internal'
        r.exc = e
    finally:
        L.tokenize = orig
    return r


def worker_history(args):
    """space (i) with a predecessor call executed before every path (on the real, un-stubbed library); returns a digest of
    every path's observable outcome in exploration order"""
    dialect, K, firsts, pred = args
    import hashlib
    sys.setrecursionlimit(10000)
    from engines.symtok import Explorer, SymToken, representatives
    import mindsdb_sql
    L, P = dialect_classes(dialect)
    rep, _ = representatives(L)
    alpha = alphabet_of(P)
    ex = Explorer(P, alpha, rep, use_z3=True)
    real_glp = mindsdb_sql.get_lexer_parser
    h = hashlib.sha1()
    n = [0]
    hook = PREDECESSORS[pred]
    for first in firsts:
        def run_one(ex):
            toks = [SymToken(ex, i) for i in range(K)]
            toks[0].fixed = first
            if hook is not None:
                mindsdb_sql.get_lexer_parser = real_glp
                for r_ in ex.parser_cls._lrtable.lr_action.values():
                    r_.explorer = None
                hook()
                for r_ in ex.parser_cls._lrtable.lr_action.values():
                    r_.explorer = ex
            mindsdb_sql.get_lexer_parser = real_glp
            r = run_tail_real(dialect, L, toks)
            obs = (tuple(type_names(toks)), r.outcome, r.ast.to_tree() if r.outcome == 'accept' else (r.message or repr(r.exc)))
            h.update(repr(obs).encode())
            n[0] += 1
        ex.explore(run_one)
    mindsdb_sql.get_lexer_parser = real_glp
    return {'digest': h.hexdigest(), 'paths': n[0], 'solver_calls': ex.solver_calls, 'solver_s': ex.solver_s}


def sweep_history(dialect, K, pred, jobs=None):
    L, P = dialect_classes(dialect)
    alpha = alphabet_of(P)
    jobs = jobs or os.cpu_count()
    shards = [alpha[i::jobs * 2] for i in range(jobs * 2)]
    shards = [s for s in shards if s]
    with mp.get_context('fork').Pool(min(jobs, len(shards))) as pool:
        res = pool.map(worker_history, [(dialect, K, s, pred) for s in shards])
    return res


def worker_space1(args):
    dialect, K, firsts, use_z3, want_c19 = args
    sys.setrecursionlimit(10000)
    from engines.symtok import Explorer, SymToken, representatives
    from engines.earley import Earley
    L, P = dialect_classes(dialect)
    rep, _ = representatives(L)
    alpha = alphabet_of(P)
    ex = Explorer(P, alpha, rep, use_z3=use_z3)
    earley = Earley(P)
    st = {'covered': 0, 'findings': [], 'samples': [], 'suggestions_checked': 0, 'suggestion_paths': 0}
    on_reject = None
    if want_c19:
        from engines.c19lib import check_suggestions
        on_reject = lambda toks, r, st: check_suggestions(dialect, L, P, toks, r, st)
    t0 = time.time()
    for first in firsts:
        def run_one(ex):
            toks = []
            for i in range(K):
                toks.append(SymToken(ex, i, prev=toks[-1] if toks else None, layout=(K <= 3)))
            toks[0].fixed = first
            r = run_tail(dialect, L, P, toks)
            nf = len(st['findings'])
            _check_path(dialect, toks, r, earley, st, on_reject)
            for f in st['findings'][nf:]:
                f['linenos'] = [t._lineno or 1 for t in toks]
        ex.explore(run_one)
    st.update(paths=ex.paths, solver_calls=ex.solver_calls, solver_s=ex.solver_s, wall=time.time() - t0)
    return st


def sweep_space1(dialect, K, jobs=None, use_z3=True, want_c19=False):
    L, P = dialect_classes(dialect)
    alpha = alphabet_of(P)
    jobs = jobs or os.cpu_count()
    if K == 1:
        shards = [alpha]
    else:
        shards = [alpha[i::jobs * 4] for i in range(jobs * 4)]
        shards = [s for s in shards if s]
    with mp.get_context('fork').Pool(min(jobs, len(shards))) as pool:
        res = pool.map(worker_space1, [(dialect, K, s, use_z3, want_c19) for s in shards])
    return merge(res), len(alpha) ** K * (2 ** (K - 1) if K <= 3 else 1)


def merge(res):
    tot = {'covered': 0, 'findings': [], 'samples': [], 'paths': 0, 'solver_calls': 0, 'solver_s': 0.0,
           'suggestions_checked': 0, 'suggestion_paths': 0}
    for r in res:
        for k, v in r.items():
            if k in ('findings', 'samples'):
                tot[k].extend(v)
            elif k == 'wall':
                tot['wall'] = max(tot.get('wall', 0), v)
            elif isinstance(v, (int, float)):
                tot[k] = tot.get(k, 0) + v
    tot['samples'] = tot['samples'][:12]
    return tot


# ---- worker: space (iii) -----------------------------------------------------------------------------

def worker_space3(args):
    dialect, stmts, use_z3, want_c19, affix = args
    sys.setrecursionlimit(10000)
    from engines.symtok import Explorer, SymToken, representatives
    from engines.earley import Earley
    import re
    L, P = dialect_classes(dialect)
    rep, _ = representatives(L)
    alpha = alphabet_of(P)
    ex = Explorer(P, alpha, rep, use_z3=use_z3)
    earley = Earley(P)
    st = {'covered': 0, 'findings': [], 'samples': [], 'suggestions_checked': 0, 'suggestion_paths': 0, 'statements': 0}
    on_reject = None
    if want_c19:
        from engines.c19lib import check_suggestions
        on_reject = lambda toks, r, st: check_suggestions(dialect, L, P, toks, r, st)
    t0 = time.time()
    for sql in stmts:
        text = re.sub(r'[\s;]+$', '', sql)
        base = list(L().tokenize(text))
        n = len(base)
        st['statements'] += 1

        def fresh():
            # tokens are mutated by nothing in the parser, but grammar actions may keep references: copy
            out = []
            for t in base:
                c = t.__class__()
                c.type, c.value, c.lineno, c.index, c.end = t.type, t.value, t.lineno, t.index, t.end
                out.append(c)
            return out

        def run_one(ex):
            toks = fresh()
            pos = None
            kind = ex.choose_int(3 + len(affix))
            if kind == 0:      # insert one symbolic token at position 0..n
                pos = ex.choose_int(n + 1)
                toks.insert(pos, SymToken(ex, pos))
            elif kind == 1:    # substitute one token
                pos = ex.choose_int(n)
                toks[pos] = SymToken(ex, pos)
            elif kind == 2:    # delete one token
                pos = ex.choose_int(n)
                del toks[pos]
            else:
                pre, suf = affix[kind - 3]
                toks = [SymToken(ex, i) for i in range(pre)] + toks + [SymToken(ex, n + pre + i) for i in range(suf)]
            r = run_tail(dialect, L, P, toks)
            nf = len(st['findings'])
            _check_path(dialect, toks, r, earley, st, on_reject)
            for f in st['findings'][nf:]:
                # enough to rebuild the input text with the statement's own line layout
                f['base_sql'] = text
                f['edit'] = {'kind': kind, 'pos': pos if kind < 3 else None, 'affix': list(affix[kind - 3]) if kind >= 3 else None}
        ex.explore(run_one)
    st.update(paths=ex.paths, solver_calls=ex.solver_calls, solver_s=ex.solver_s, wall=time.time() - t0)
    return st


def rebuild_text(dialect, finding):
    """the input text of a space-(iii) finding: the corpus statement with the edit applied textually (layout preserved)"""
    from engines.symtok import representatives
    L, P = dialect_classes(dialect)
    rep, lexemes = representatives(L)
    base = finding['base_sql']
    toks = list(L().tokenize(base))
    types = finding.get('instance') or finding['types']
    e = finding['edit']
    lex = lambda t: lexemes.get(t, t)
    if e['kind'] == 0:
        pos = e['pos']
        at = toks[pos].index if pos < len(toks) else len(base)
        return base[:at] + ' ' + lex(types[pos]) + ' ' + base[at:]
    if e['kind'] == 1:
        pos = e['pos']
        return base[:toks[pos].index] + ' ' + lex(types[pos]) + ' ' + base[toks[pos].end:]
    if e['kind'] == 2:
        pos = e['pos']
        return base[:toks[pos].index] + ' ' + base[toks[pos].end:]
    pre, suf = e['affix']
    return ' '.join(lex(t) for t in types[:pre]) + ' ' + base + ' ' + ' '.join(lex(t) for t in types[len(types) - suf:] if suf)


def sweep_space3(dialect, stmts, jobs=None, use_z3=True, want_c19=False, affix=((0, 1), (1, 0))):
    jobs = jobs or os.cpu_count()
    shards = [stmts[i::jobs * 2] for i in range(jobs * 2)]
    shards = [s for s in shards if s]
    if not shards:
        return merge([]), 0
    with mp.get_context('fork').Pool(min(jobs, len(shards))) as pool:
        res = pool.map(worker_space3, [(dialect, s, use_z3, want_c19, affix) for s in shards])
    return merge(res), None
