"""SYMREL — symbolic relational semantics (DESIGN 2.5): the SQL fragment the planner / renderer deal with, evaluated by
z3 over *symbolic databases* (all small table contents at once).

Data: each table has R symbolic rows (row i present iff i < n_t, 0 <= n_t <= R); each cell is (isnull: Bool, val: Int) with
val in [0, D].  A relation is a list of rows; a row is (present: BoolRef, cells: [(isnull, val)]); columns carry a name and
a set of qualifier tags (table name parts / alias), lower-cased.  Booleans are cells with val in {0,1}.

Front end: the repo's AST (Select / Join / Union / ...).  Constants can be mapped to symbolic values (`consts`), used to make
the user's constants, LIMIT counts and the time-series window symbolic.
"""
import itertools
import copy
import re
import z3
from mindsdb_sql.parser import ast as A

TRUE, FALSE = z3.BoolVal(True), z3.BoolVal(False)


class Unsupported(Exception):
    pass


class Col:
    __slots__ = ('name', 'tags')

    def __init__(self, name, tags=()):
        self.name = name.lower()
        self.tags = set(tuple(t) if isinstance(t, (tuple, list)) else (t,) for t in tags)

    def __repr__(self):
        return '%s%s' % (self.name, sorted(self.tags) if self.tags else '')


class RelRef:
    """pseudo FROM item: an already computed relation (used by the plan interpreter)"""
    def __init__(self, rel, alias=None):
        self.rel, self.alias = rel, alias


class Rel:
    def __init__(self, cols, rows):
        self.cols = cols            # [Col]
        self.rows = rows            # [(present, [cell])]   cell = (isnull, val)

    def width(self):
        return len(self.cols)


def cell(isnull, val):
    return (isnull, val)


def const_cell(v):
    if v is None:
        return (TRUE, z3.IntVal(0))
    if isinstance(v, bool):
        return (FALSE, z3.IntVal(1 if v else 0))
    if isinstance(v, int):
        return (FALSE, z3.IntVal(v))
    raise Unsupported('constant %r' % (v,))


def b2c(isnull, truth):
    """boolean cell from (unknown?, truth)"""
    return (isnull, z3.If(truth, 1, 0))


def is_true(c):
    return z3.And(z3.Not(c[0]), c[1] != 0)


def cell_eq_nullsafe(a, b):
    """NULL-safe equality (used for DISTINCT / GROUP BY / bag comparison)"""
    return z3.Or(z3.And(a[0], b[0]), z3.And(z3.Not(a[0]), z3.Not(b[0]), a[1] == b[1]))


def row_eq(r1, r2):
    return z3.And([cell_eq_nullsafe(a, b) for a, b in zip(r1, r2)]) if r1 else TRUE


class DB:
    """symbolic database: schema {table_name: [column names]}; R rows each"""
    def __init__(self, schema, R=2, D=3, prefix='db'):
        self.schema = {k.lower(): [c.lower() for c in v] for k, v in schema.items()}
        self.R, self.D = R, D
        self.tables = {}
        self.constraints = []
        self.vars = {}
        for t, cols in self.schema.items():
            n = z3.Int('%s_%s_n' % (prefix, t))
            self.constraints += [n >= 0, n <= R]
            rows = []
            for i in range(R):
                cells = []
                for c in cols:
                    nu = z3.Bool('%s_%s_%d_%s_null' % (prefix, t, i, c))
                    va = z3.Int('%s_%s_%d_%s' % (prefix, t, i, c))
                    self.constraints += [va >= 0, va <= D, z3.Implies(nu, va == 0)]
                    cells.append((nu, va))
                rows.append((n > i, cells))
            self.tables[t] = (n, rows)

    def scan(self, table, tags):
        table = table.lower()
        if table not in self.tables:
            raise Unsupported('unknown table %s' % table)
        n, rows = self.tables[table]
        cols = [Col(c, tags) for c in self.schema[table]]
        return Rel(cols, [(p, list(cs)) for p, cs in rows])

    def concrete(self, model):
        """{table: [row tuples]} from a z3 model (None = NULL)"""
        out = {}
        for t, (n, rows) in self.tables.items():
            k = model.eval(n, model_completion=True).as_long()
            data = []
            for i in range(k):
                r = []
                for nu, va in rows[i][1]:
                    isn = z3.is_true(model.eval(nu, model_completion=True))
                    r.append(None if isn else model.eval(va, model_completion=True).as_long())
                data.append(tuple(r))
            out[t] = data
        return out


class Evaluator:
    def __init__(self, db, consts=None, table_filter=None, extra_relations=None, var_binding=None):
        """consts: {python value: cell} replacing matching Constant values by symbolic cells;
        table_filter: fn(identifier) -> table name or raise (which tables exist here);
        extra_relations: {name: Rel} (CTEs, step results); var_binding: {col: cell} for `$var[col]` constants."""
        self.db = db
        self.consts = consts or {}
        self.extra = {k.lower(): v for k, v in (extra_relations or {}).items()}
        self.var_binding = var_binding
        self.table_filter = table_filter
        self.assumptions = []       # side conditions under which the evaluation is well defined (e.g. distinct order keys)
        self.null_order = 'low'     # engine default: NULL sorts as the smallest ('low': sqlite, mysql) or the largest value ('high': postgresql)

    # ---- expressions ----------------------------------------------------------------------------
    def lookup(self, ident, rel, row):
        parts = [str(p).lower() for p in ident.parts]
        name, qual = parts[-1], tuple(parts[:-1])
        hits = []
        for i, c in enumerate(rel.cols):
            if c.name != name:
                continue
            if not qual or any(t[-len(qual):] == qual for t in c.tags if len(t) >= len(qual)):
                hits.append(i)
        if len(hits) > 1 and getattr(rel, 'inner_width', None) is not None:
            inner = [h for h in hits if h < rel.inner_width]
            if inner:
                hits = inner        # names of the inner query shadow the correlated outer row
        if len(hits) == 0:
            raise Unsupported('column %s not found in %s' % (ident, rel.cols))
        if len(hits) > 1:
            raise Unsupported('column %s ambiguous in %s' % (ident, rel.cols))
        return row[1][hits[0]]

    def expr(self, node, rel, row, group=None):
        """-> cell.  group: list of rows of the current group (for aggregates)"""
        if isinstance(node, A.NullConstant):
            return const_cell(None)
        if isinstance(node, A.Constant):
            v = node.value
            if isinstance(v, str) and v.startswith('$var[') and self.var_binding is not None:
                return self.var_binding[v[5:-1].lower()]
            if not isinstance(v, bool) and v in self.consts:
                return self.consts[v]
            return const_cell(v)
        if isinstance(node, A.Identifier):
            return self.lookup(node, rel, row)
        if isinstance(node, A.TypeCast) and str(node.type_name).lower() in ('int', 'integer', 'bigint', 'int8', 'signed'):
            return self.expr(node.arg, rel, row, group)      # the value domain is the integers: a cast to an integer type is the identity
        if isinstance(node, A.Parameter) and isinstance(node.value, str) is False and hasattr(node.value, 'step_num'):
            # a step result used as a scalar: the value of its single row / column (NULL when empty)
            sub = self.extra.get('result_%s' % node.value.step_num)
            if sub is None or sub.width() != 1:
                raise Unsupported('scalar use of step result %r' % (node.value,))
            nu, va = TRUE, z3.IntVal(0)
            for p, cs in reversed(sub.rows):
                nu = z3.If(p, cs[0][0], nu)
                va = z3.If(p, cs[0][1], va)
            self.assumptions.append(z3.AtMost(*[p for p, _ in sub.rows], 1) if sub.rows else TRUE)
            return (nu, va)
        if isinstance(node, A.BetweenOperation):
            x, lo, hi = (self.expr(a, rel, row, group) for a in node.args)
            return self.and3(self.cmp('>=', x, lo), self.cmp('<=', x, hi))
        if isinstance(node, A.UnaryOperation):
            op = node.op.lower()
            a = self.expr(node.args[0], rel, row, group)
            if op == 'not':
                return (a[0], z3.If(a[1] != 0, 0, 1))
            if op == '-':
                return (a[0], -a[1])
            raise Unsupported('unary %s' % op)
        if isinstance(node, A.BinaryOperation):
            op = node.op.lower()
            if op in ('in', 'not in'):
                x = self.expr(node.args[0], rel, row, group)
                items = self.in_items(node.args[1], rel, row, group)
                r = self.in3(x, items)
                return r if op == 'in' else (r[0], z3.If(r[1] != 0, 0, 1))
            a = self.expr(node.args[0], rel, row, group)
            if op in ('is', 'is not') and isinstance(node.args[1], A.NullConstant):
                t = a[0] if op == 'is' else z3.Not(a[0])
                return b2c(FALSE, t)
            b = self.expr(node.args[1], rel, row, group)
            if op == 'and':
                return self.and3(a, b)
            if op == 'or':
                return self.or3(a, b)
            if op in ('=', '!=', '<>', '<', '<=', '>', '>='):
                return self.cmp(op, a, b)
            if op in ('like', 'not like'):
                # strings are outside the value domain: LIKE gets a fixed, deliberately asymmetric meaning on the integer domain
                # (value LIKE pattern := value > pattern, NULL if either is NULL); the sqlite replays install the same function
                # (connect()), so models replay faithfully.  What matters for the properties is where the predicate is evaluated
                # and with which operands in which order.
                t = (a[1] > b[1]) if op == 'like' else z3.Not(a[1] > b[1])
                return (z3.Or(a[0], b[0]), z3.If(t, 1, 0))
            if op in ('+', '-', '*'):
                v = {'+': a[1] + b[1], '-': a[1] - b[1], '*': a[1] * b[1]}[op]
                return (z3.Or(a[0], b[0]), v)
            if op == '%':
                # remainder with the sign of the dividend (sqlite, mysql, postgresql agree on integers); NULL when the divisor is 0
                # (sqlite, mysql; postgresql raises - outside the claim)
                ab = z3.If(b[1] >= 0, b[1], -b[1])
                nz = z3.If(ab == 0, z3.IntVal(1), ab)
                v = z3.If(a[1] >= 0, a[1] % nz, -((-a[1]) % nz))
                return (z3.Or(a[0], b[0], b[1] == 0), v)
            raise Unsupported('binary %s' % op)
        if isinstance(node, A.Function):
            fn = node.op.lower()
            if fn in ('count', 'sum', 'min', 'max') and group is not None:
                return self.aggregate(fn, node, rel, group)
            if fn == 'coalesce':
                cs = [self.expr(a, rel, row, group) for a in node.args]
                out = cs[-1]
                for c in reversed(cs[:-1]):
                    out = (z3.And(c[0], out[0]), z3.If(c[0], out[1], c[1]))
                return out
            raise Unsupported('function %s' % fn)
        if isinstance(node, A.Case):
            out = self.expr(node.default, rel, row, group) if node.default is not None else const_cell(None)
            base = self.expr(node.arg, rel, row, group) if node.arg is not None else None
            for cond, res in reversed(node.rules):
                cc = self.expr(cond, rel, row, group)
                if base is not None:
                    cc = self.cmp('=', base, cc)
                rr = self.expr(res, rel, row, group)
                t = is_true(cc)
                out = (z3.If(t, rr[0], out[0]), z3.If(t, rr[1], out[1]))
            return out
        if isinstance(node, (A.Exists, A.NotExists)):
            sub = self.query(node.query, outer=(rel, row))
            any_row = z3.Or([p for p, _ in sub.rows]) if sub.rows else FALSE
            return b2c(FALSE, any_row if isinstance(node, A.Exists) else z3.Not(any_row))
        if isinstance(node, A.Select):
            sub = self.query(node, outer=(rel, row))
            if sub.width() != 1:
                raise Unsupported('scalar subquery with %d columns' % sub.width())
            # value of the (single) present row; NULL if none; more than one present row is outside the fragment
            nu, va = TRUE, z3.IntVal(0)
            for p, cs in reversed(sub.rows):
                nu = z3.If(p, cs[0][0], nu)
                va = z3.If(p, cs[0][1], va)
            self.assumptions.append(z3.AtMost(*[p for p, _ in sub.rows], 1) if sub.rows else TRUE)
            return (nu, va)
        raise Unsupported('expression %s' % type(node).__name__)

    def in_items(self, node, rel, row, group):
        """-> list of (present, cell) the value is compared with"""
        if isinstance(node, A.Tuple):
            return [(TRUE, self.expr(i, rel, row, group)) for i in node.items]
        if isinstance(node, A.Select):
            sub = self.query(node, outer=(rel, row))
            if sub.width() != 1:
                raise Unsupported('IN subquery with %d columns' % sub.width())
            return [(p, cs[0]) for p, cs in sub.rows]
        if isinstance(node, A.Parameter) and hasattr(node.value, 'step_num'):
            sub = self.extra.get('result_%s' % node.value.step_num)
            if sub is None:
                raise Unsupported('unknown step result %r' % node.value)
            if sub.width() != 1:
                raise Unsupported('IN <result> with %d columns' % sub.width())
            return [(p, cs[0]) for p, cs in sub.rows]
        return [(TRUE, self.expr(node, rel, row, group))]

    def in3(self, x, items):
        any_true = z3.Or([z3.And(p, z3.Not(x[0]), z3.Not(c[0]), x[1] == c[1]) for p, c in items]) if items else FALSE
        any_null = z3.Or([z3.And(p, z3.Or(x[0], c[0])) for p, c in items]) if items else FALSE
        return (z3.And(z3.Not(any_true), any_null), z3.If(any_true, 1, 0))

    def cmp(self, op, a, b):
        t = {'=': a[1] == b[1], '!=': a[1] != b[1], '<>': a[1] != b[1], '<': a[1] < b[1], '<=': a[1] <= b[1],
             '>': a[1] > b[1], '>=': a[1] >= b[1]}[op]
        return b2c(z3.Or(a[0], b[0]), z3.And(z3.Not(a[0]), z3.Not(b[0]), t))

    def and3(self, a, b):
        fa, fb = z3.And(z3.Not(a[0]), a[1] == 0), z3.And(z3.Not(b[0]), b[1] == 0)
        isf = z3.Or(fa, fb)
        ist = z3.And(is_true(a), is_true(b))
        return (z3.And(z3.Not(isf), z3.Not(ist)), z3.If(ist, 1, 0))

    def or3(self, a, b):
        ist = z3.Or(is_true(a), is_true(b))
        isf = z3.And(z3.Not(a[0]), a[1] == 0, z3.Not(b[0]), b[1] == 0)
        return (z3.And(z3.Not(isf), z3.Not(ist)), z3.If(ist, 1, 0))

    def aggregate(self, fn, node, rel, group):
        if len(node.args) == 1 and isinstance(node.args[0], A.Star):
            if fn != 'count':
                raise Unsupported('%s(*)' % fn)
            return (FALSE, z3.Sum([z3.If(p, 1, 0) for p, _ in group]) if group else z3.IntVal(0))
        vals = [(p, self.expr(node.args[0], rel, (p, cs))) for p, cs in group]
        live = [z3.And(p, z3.Not(c[0])) for p, c in vals]
        if node.distinct:
            live = [z3.And(l, z3.Not(z3.Or([z3.And(live[j], vals[j][1][1] == vals[i][1][1]) for j in range(i)])) if i else TRUE)
                    for i, l in enumerate(live)]
        cnt = z3.Sum([z3.If(l, 1, 0) for l in live]) if live else z3.IntVal(0)
        if fn == 'count':
            return (FALSE, cnt)
        if fn == 'sum':
            return (cnt == 0, z3.Sum([z3.If(l, c[1], 0) for l, (p, c) in zip(live, vals)]) if live else z3.IntVal(0))
        # simpler min/max: fold with validity flag
        valid, acc = FALSE, z3.IntVal(0)
        for l, (p, c) in zip(live, vals):
            better = (c[1] < acc) if fn == 'min' else (c[1] > acc)
            take = z3.And(l, z3.Or(z3.Not(valid), better))
            acc = z3.If(take, c[1], acc)
            valid = z3.Or(valid, l)
        return (z3.Not(valid), acc)

    # ---- relations ------------------------------------------------------------------------------
    def from_item(self, node, outer=None):
        if isinstance(node, RelRef):
            return node.rel
        if isinstance(node, A.Identifier):
            parts = [str(p).lower() for p in node.parts]
            alias = [str(p).lower() for p in node.alias.parts] if node.alias is not None else None
            name = parts[-1]
            if len(parts) == 1 and name in self.extra:
                src = self.extra[name]
                tags = [tuple(alias)] if alias else [(name,)]
                return Rel([Col(c.name, tags) for c in src.cols], [(p, list(cs)) for p, cs in src.rows])
            tags = [tuple(alias)] if alias else [tuple(parts[i:]) for i in range(len(parts))]
            if self.table_filter is not None:
                self.table_filter(name)
            return self.db.scan(name, tags)
        if isinstance(node, A.Join):
            return self.join(node, outer)
        if isinstance(node, (A.Select, A.Union, A.Intersect, A.Except)):
            sub = self.query(node, outer=outer)
            alias = [str(p).lower() for p in node.alias.parts] if node.alias is not None else None
            tags = [tuple(alias)] if alias else []
            return Rel([Col(c.name, tags) for c in sub.cols], sub.rows)
        raise Unsupported('from item %s' % type(node).__name__)

    def join(self, j, outer=None):
        left = self.from_item(j.left, outer)
        right = self.from_item(j.right, outer)
        kind = (j.join_type or 'join').upper().replace('OUTER ', '').strip()
        cols = left.cols + right.cols
        rows = []
        match_l = [[] for _ in left.rows]
        match_r = [[] for _ in right.rows]
        for (i, (pl, cl)), (k, (pr, cr)) in itertools.product(enumerate(left.rows), enumerate(right.rows)):
            row = (z3.And(pl, pr), cl + cr)
            if j.condition is not None and kind != 'CROSS JOIN':
                ok = is_true(self.expr(j.condition, Rel(cols, []), row))
            else:
                ok = TRUE
            pres = z3.And(pl, pr, ok)
            rows.append((pres, cl + cr))
            match_l[i].append(pres)
            match_r[k].append(pres)
        nulls_r = [(TRUE, z3.IntVal(0))] * len(right.cols)
        nulls_l = [(TRUE, z3.IntVal(0))] * len(left.cols)
        if kind in ('LEFT JOIN', 'FULL JOIN'):
            for i, (pl, cl) in enumerate(left.rows):
                rows.append((z3.And(pl, z3.Not(z3.Or(match_l[i])) if match_l[i] else TRUE), cl + nulls_r))
        if kind in ('RIGHT JOIN', 'FULL JOIN'):
            for k, (pr, cr) in enumerate(right.rows):
                rows.append((z3.And(pr, z3.Not(z3.Or(match_r[k])) if match_r[k] else TRUE), nulls_l + cr))
        if kind not in ('JOIN', 'INNER JOIN', 'CROSS JOIN', 'LEFT JOIN', 'RIGHT JOIN', 'FULL JOIN', ','):
            raise Unsupported('join kind %s' % kind)
        return Rel(cols, rows)

    def query(self, q, outer=None):
        if isinstance(q, (A.Union, A.Intersect, A.Except)):
            return self.setop(q, outer)
        if not isinstance(q, A.Select):
            raise Unsupported('query %s' % type(q).__name__)
        saved = dict(self.extra)
        try:
            if q.cte:
                for cte in q.cte:
                    self.extra[str(cte.name.parts[-1]).lower()] = self.query(cte.query, outer)
            if getattr(q, '_symrel_src', None) is not None:
                src = q._symrel_src
            elif q.from_table is None:
                src = Rel([], [(TRUE, [])])
            else:
                src = self.from_item(q.from_table, outer)
            if outer is not None:
                # correlated names resolve in the outer row after the inner columns
                orel, orow = outer
                n_inner = len(src.cols)
                src = Rel(src.cols + [Col(c.name, c.tags) for c in orel.cols], [(p, cs + list(orow[1])) for p, cs in src.rows])
                src.inner_width = n_inner
                hidden = len(orel.cols)
            else:
                hidden = 0
            rows = src.rows
            if q.where is not None:
                rows = [(z3.And(p, is_true(self.expr(q.where, src, (p, cs)))), cs) for p, cs in rows]
            iw = getattr(src, 'inner_width', None)
            src = Rel(src.cols, rows)
            src.inner_width = iw
            has_agg = q.group_by is not None or any(self.has_aggregate(t) for t in q.targets) or (q.having is not None)
            if has_agg:
                out = self.grouped(q, src, hidden)
            else:
                out = self.project(q, src, hidden)
            if q.distinct:
                out = self.distinct(out)
            if q.order_by or q.limit is not None or q.offset is not None:
                out = self.order_limit(q, out, src if not has_agg else None)
            return out
        finally:
            self.extra = saved

    def has_aggregate(self, node):
        found = []

        def walk(n):
            if isinstance(n, A.Function) and n.op.lower() in ('count', 'sum', 'min', 'max'):
                found.append(n)
            elif isinstance(n, (A.Select,)):
                return
            elif isinstance(n, A.Case):
                for c, r in n.rules:
                    walk(c); walk(r)
                if n.default is not None:
                    walk(n.default)
            elif hasattr(n, 'args'):
                for a in n.args:
                    walk(a)
            elif isinstance(n, A.TypeCast):
                walk(n.arg)
        walk(node)
        return bool(found)

    def target_cols(self, q, src, hidden):
        """[(Col, expr node or index)] for the select list (Star expands to the visible source columns)"""
        out = []
        nvis = len(src.cols) - hidden
        for t in q.targets:
            if isinstance(t, A.Star):
                for i in range(nvis):
                    out.append((Col(src.cols[i].name, src.cols[i].tags), i))
            elif isinstance(t, A.Identifier) and isinstance(t.parts[-1], A.Star):
                qual = tuple(str(p).lower() for p in t.parts[:-1])
                for i in range(nvis):
                    if any(tag[-len(qual):] == qual for tag in src.cols[i].tags if len(tag) >= len(qual)):
                        out.append((Col(src.cols[i].name, src.cols[i].tags), i))
            else:
                if t.alias is not None:
                    name = str(t.alias.parts[-1])
                    tags = []
                elif isinstance(t, A.Identifier):
                    name = str(t.parts[-1])
                    tags = []
                    for i in range(nvis):
                        pass
                else:
                    name = 'expr%d' % len(out)
                    tags = []
                out.append((Col(name, tags), t))
        return out

    def project(self, q, src, hidden):
        tc = self.target_cols(q, src, hidden)
        rows = []
        for idx, (p, cs) in enumerate(src.rows):
            vals = []
            for col, e in tc:
                if isinstance(e, A.WindowFunction):
                    vals.append(self.window(e, src, idx))
                else:
                    vals.append(cs[e] if isinstance(e, int) else self.expr(e, src, (p, cs)))
            rows.append((p, vals))
        rel = Rel([c for c, _ in tc], rows)
        rel._src_rows = src.rows
        return rel

    def grouped(self, q, src, hidden):
        keys = q.group_by or []
        tc = self.target_cols(q, src, hidden)
        rows_out = []
        if not keys:
            group = src.rows
            p = TRUE
            rep = (TRUE, [c for c in (src.rows[0][1] if src.rows else [])])
            vals = [self.expr(e, src, rep, group=group) if not isinstance(e, int) else rep[1][e] for col, e in tc]
            ok = is_true(self.expr(q.having, src, rep, group=group)) if q.having is not None else TRUE
            rows_out.append((ok, vals))
            return Rel([c for c, _ in tc], rows_out)
        kvals = [[self.expr(k, src, (p, cs)) for k in keys] for p, cs in src.rows]
        for i, (p, cs) in enumerate(src.rows):
            same = [z3.And(src.rows[j][0], row_eq(kvals[i], kvals[j])) for j in range(len(src.rows))]
            leader = z3.And(p, z3.Not(z3.Or(same[:i])) if i else TRUE)
            group = [(same[j], src.rows[j][1]) for j in range(len(src.rows))]
            vals = [self.expr(e, src, (p, cs), group=group) if not isinstance(e, int) else cs[e] for col, e in tc]
            ok = is_true(self.expr(q.having, src, (p, cs), group=group)) if q.having is not None else TRUE
            rows_out.append((z3.And(leader, ok), vals))
        return Rel([c for c, _ in tc], rows_out)

    def distinct(self, rel):
        rows = []
        for i, (p, cs) in enumerate(rel.rows):
            dup = z3.Or([z3.And(rel.rows[j][0], row_eq(cs, rel.rows[j][1])) for j in range(i)]) if i else FALSE
            rows.append((z3.And(p, z3.Not(dup)), cs))
        return Rel(rel.cols, rows)

    def order_limit(self, q, out, src):
        """ORDER BY / LIMIT / OFFSET.  NULL sort keys are ordered by the explicit NULLS FIRST/LAST of the key or, without one, by the
        engine default self.null_order.  Present rows with equal key tuples are assumed identical in every output column (recorded in
        self.assumptions: other ties leave the order to the engine's discretion and are outside the claim).  The rank of each row is kept in rel._ranks."""
        n = len(out.rows)
        if q.order_by:
            keys = self.sort_keys(q.order_by, out, src)
            key_eq, before = self._key_eq, (lambda i, j: self._before(keys, i, j))
            # ties: two present rows with equal key tuples must be identical in every output column (then any tie-break gives the same
            # sequence of values; it is broken by row index here); other ties leave the order to the engine and are outside the claim
            for i in range(n):
                for j in range(i + 1, n):
                    both = z3.And(out.rows[i][0], out.rows[j][0])
                    distinct_keys = z3.Or([z3.Not(key_eq(ki[0], kj[0])) for ki, kj in zip(keys[i], keys[j])])
                    self.assumptions.append(z3.Implies(both, z3.Or(distinct_keys, row_eq(out.rows[i][1], out.rows[j][1]))))
            ranks = [z3.Sum([z3.If(z3.And(out.rows[j][0], z3.Or(before(j, i), z3.And(self._peers(keys, j, i), z3.BoolVal(j < i)))), 1, 0)
                             for j in range(n) if j != i]) if n > 1 else z3.IntVal(0)
                     for i in range(n)]
        else:
            if q.limit is None and q.offset is None:
                return out
            # LIMIT without ORDER BY: engine's choice; we model "first rows in scan order" and flag the dependence
            self.assumptions.append(TRUE)
            ranks = [z3.Sum([z3.If(out.rows[j][0], 1, 0) for j in range(i)]) if i else z3.IntVal(0) for i in range(n)]
            out._unordered_limit = True
        lim = self.count_value(q.limit)
        off = self.count_value(q.offset) if q.offset is not None else z3.IntVal(0)
        rows = []
        for i, (p, cs) in enumerate(out.rows):
            keep = ranks[i] >= off
            if lim is not None:
                keep = z3.And(keep, ranks[i] < off + lim)
            rows.append((z3.And(p, keep), cs))
        rel = Rel(out.cols, rows)
        rel._ranks = [rk - off for rk in ranks]     # position within the returned window (0 = first returned row)
        if getattr(out, '_unordered_limit', False):
            rel._unordered_limit = True
        return rel

    def sort_keys(self, order_by, out, src=None):
        """per row of `out`: [(key cell, descending?, nulls first?)] for the ordering terms (positions, output columns, or -
        when `src` is given - columns of the rows the output was projected from)"""
        keys = []
        for idx, (p, cs) in enumerate(out.rows):
            ks = []
            for ob in order_by:
                f = ob.field
                c = None
                if isinstance(f, A.Constant) and isinstance(f.value, int):
                    c = cs[f.value - 1]
                else:
                    try:
                        c = self.expr(f, out, (p, cs))
                    except Unsupported:
                        if src is None:
                            raise
                        srel = Rel(src.cols, [])
                        srel.inner_width = getattr(src, 'inner_width', None)
                        c = self.expr(f, srel, src.rows[idx])
                desc = str(ob.direction).upper() == 'DESC'
                nulls = str(getattr(ob, 'nulls', 'default')).upper()
                if 'FIRST' in nulls:
                    nulls_first = True
                elif 'LAST' in nulls:
                    nulls_first = False
                else:
                    nulls_first = (not desc) if self.null_order == 'low' else desc
                ks.append((c, desc, nulls_first))
            keys.append(ks)
        return keys

    @staticmethod
    def _key_eq(ci, cj):
        return z3.Or(z3.And(ci[0], cj[0]), z3.And(z3.Not(ci[0]), z3.Not(cj[0]), ci[1] == cj[1]))

    def _before(self, keys, i, j):
        """row i sorts strictly before row j (lexicographic over keys, NULL placement per key)"""
        res = FALSE
        eq = TRUE
        for (ci, d, nf), (cj, _, _) in zip(keys[i], keys[j]):
            vlt = (ci[1] > cj[1]) if d else (ci[1] < cj[1])
            lt = z3.If(ci[0], z3.If(cj[0], FALSE, z3.BoolVal(nf)), z3.If(cj[0], z3.BoolVal(not nf), vlt))
            res = z3.Or(res, z3.And(eq, lt))
            eq = z3.And(eq, self._key_eq(ci, cj))
        return res

    def _peers(self, keys, i, j):
        return z3.And([self._key_eq(a[0], b[0]) for a, b in zip(keys[i], keys[j])]) if keys[i] else TRUE

    # ---- window functions -----------------------------------------------------------------------
    _FRAME = re.compile(r'^(rows|range)\s+between\s+(unbounded\s+preceding|current\s+row)\s+and\s+(unbounded\s+following|current\s+row)$', re.I)

    def window(self, wf, src, idx):
        """value of `fn(..) OVER ([PARTITION BY ..] [ORDER BY ..] [frame])` for row idx of `src` (the rows after WHERE).
        Ranking: row_number (order keys of the partition assumed tie-free), rank, dense_rank.  Aggregates count/sum/min/max over the
        frame: whole partition without ORDER BY, else RANGE UNBOUNDED PRECEDING..CURRENT ROW (peers included), or the written
        ROWS/RANGE BETWEEN <unbounded preceding|current row> AND <current row|unbounded following> (ROWS: peers told apart by their position in the source)."""
        if not isinstance(wf.function, A.Function):
            raise Unsupported('window over %s' % type(wf.function).__name__)
        fn = wf.function.op.lower()
        rows = src.rows
        n = len(rows)
        pk = [[self.expr(k, src, r) for k in (wf.partition or [])] for r in rows]
        inpart = [z3.And(rows[j][0], row_eq(pk[idx], pk[j])) for j in range(n)]
        srel = Rel(src.cols, rows)
        srel.inner_width = getattr(src, 'inner_width', None)
        keys = self.sort_keys(wf.order_by, srel) if wf.order_by else [[] for _ in rows]
        before = lambda i, j: self._before(keys, i, j)      # noqa
        me = rows[idx][0]

        def tie_free():
            for j in range(n):
                if j != idx:
                    self.assumptions.append(z3.Implies(z3.And(me, inpart[j]), z3.Not(self._peers(keys, idx, j))))
        if fn == 'row_number':
            if not wf.order_by:
                raise Unsupported('row_number() without ORDER BY')
            tie_free()
            return (FALSE, 1 + z3.Sum([z3.If(z3.And(inpart[j], before(j, idx)), 1, 0) for j in range(n) if j != idx] + [z3.IntVal(0)]))
        if fn == 'rank':
            return (FALSE, 1 + z3.Sum([z3.If(z3.And(inpart[j], before(j, idx)), 1, 0) for j in range(n) if j != idx] + [z3.IntVal(0)]))
        if fn == 'dense_rank':
            terms = [z3.IntVal(0)]
            for j in range(n):
                if j == idx:
                    continue
                first_of_peers = z3.Not(z3.Or([z3.And(inpart[k], self._peers(keys, k, j)) for k in range(j)])) if j else TRUE
                terms.append(z3.If(z3.And(inpart[j], before(j, idx), first_of_peers), 1, 0))
            return (FALSE, 1 + z3.Sum(terms))
        if fn in ('count', 'sum', 'min', 'max'):
            mod = (getattr(wf, 'modifier', None) or '').strip()
            if mod:
                m = self._FRAME.match(mod)
                if not m:
                    raise Unsupported('window frame %r' % mod)
                unit, lo, hi = m.group(1).lower(), m.group(2).lower().split()[0], m.group(3).lower().split()[0]
                if unit == 'rows':
                    if not wf.order_by:
                        raise Unsupported('ROWS frame without ORDER BY')
                    # ROWS counts physical rows: peers are told apart by their position in the source (the order a scan of the
                    # table delivers them in - validated against sqlite3 per member); so ROWS and RANGE differ on tied keys
                    key_before = before
                    before = lambda i, j: z3.Or(key_before(i, j), z3.And(self._peers(keys, i, j), z3.BoolVal(i < j)))   # noqa
            elif wf.order_by:
                unit, lo, hi = 'range', 'unbounded', 'current'
            else:
                unit, lo, hi = 'range', 'unbounded', 'unbounded'
            frame = []
            for j in range(n):
                ok = inpart[j]
                if lo == 'current' and j != idx:
                    ok = z3.And(ok, z3.Not(before(j, idx)))
                if hi == 'current' and j != idx:
                    ok = z3.And(ok, z3.Not(before(idx, j)))
                frame.append((ok, rows[j][1]))
            return self.aggregate(fn, wf.function, srel, frame)
        raise Unsupported('window function %s' % fn)

    def count_value(self, node):
        if node is None:
            return None
        if isinstance(node, A.Constant):
            if node.value in self.consts and not isinstance(node.value, bool):
                return self.consts[node.value][1]
            return z3.IntVal(int(node.value))
        raise Unsupported('limit %s' % node)

    def setop(self, q, outer=None):
        """A trailing ORDER BY / LIMIT / OFFSET of `A <op> B ORDER BY .. LIMIT ..` belongs to the whole set operation; the repo's
        parser hangs it on the last member select (and drops parentheses around members), so a last member *Select* that carries
        one is read the way the tree's own text reads: applied to the combined rows, column names taken from the first member."""
        right, tail = q.right, None
        if isinstance(right, A.Select) and (right.order_by or right.limit is not None or right.offset is not None):
            tail = right
            right = copy.copy(right)
            right.order_by, right.limit, right.offset = None, None, None
        # a WITH clause written before a set operation names its CTEs for every member; the repo's parser hangs it on the first member
        first = q.left
        while isinstance(first, (A.Union, A.Intersect, A.Except)):
            first = first.left
        saved = dict(self.extra)
        try:
            if isinstance(first, A.Select) and first.cte:
                for cte in first.cte:
                    self.extra[str(cte.name.parts[-1]).lower()] = self.query(cte.query, outer)
            l = self.query(q.left, outer)
            r = self.query(right, outer)
        finally:
            self.extra = saved
        if l.width() != r.width():
            raise Unsupported('set operation arity')
        out = self._setop_rows(q, l, r)
        if tail is not None:
            out = self.order_limit(tail, out, None)
        return out

    def _setop_rows(self, q, l, r):
        if isinstance(q, A.Union):
            both = Rel(l.cols, l.rows + r.rows)
            return self.distinct(both) if q.unique else both
        rows = []
        for i, (p, cs) in enumerate(l.rows):
            in_r = z3.Or([z3.And(pr, row_eq(cs, cr)) for pr, cr in r.rows]) if r.rows else FALSE
            keep = in_r if isinstance(q, A.Intersect) else z3.Not(in_r)
            rows.append((z3.And(p, keep), cs))
        out = Rel(l.cols, rows)
        return self.distinct(out) if q.unique else out


# ---- comparison of relations ------------------------------------------------------------------------------

def count_in(rel, cells):
    return z3.Sum([z3.If(z3.And(p, row_eq(cs, cells)), 1, 0) for p, cs in rel.rows]) if rel.rows else z3.IntVal(0)


def bags_differ(a, b):
    """formula: the two relations are NOT equal as bags of rows"""
    if a.width() != b.width():
        return TRUE
    alts = []
    for p, cs in a.rows:
        alts.append(z3.And(p, count_in(a, cs) != count_in(b, cs)))
    for p, cs in b.rows:
        alts.append(z3.And(p, count_in(a, cs) != count_in(b, cs)))
    return z3.Or(alts) if alts else FALSE


def with_rank(rel):
    """the relation with the position of each row (rel._ranks, set by ORDER BY) as an extra column: comparing these as bags compares
    the results as sequences (positions are unique under the tie-free assumption)"""
    return Rel(list(rel.cols) + [Col('#position')], [(p, list(cs) + [(FALSE, rk)]) for (p, cs), rk in zip(rel.rows, rel._ranks)])


def concrete_rows(rel, model):
    out = []
    for p, cs in rel.rows:
        if z3.is_true(model.eval(p, model_completion=True)):
            out.append(tuple(None if z3.is_true(model.eval(nu, model_completion=True)) else model.eval(va, model_completion=True).as_long()
                             for nu, va in cs))
    return out


# ---- translator validation against sqlite3 ---------------------------------------------------------------------

def fix_db(db, data):
    """constraints making the symbolic database equal to concrete `data` {table: [row tuples]}"""
    cs = []
    for t, (n, rows) in db.tables.items():
        rws = data.get(t, [])
        cs.append(n == len(rws))
        for i, r in enumerate(rws):
            for (nu, va), v in zip(rows[i][1], r):
                cs.append(nu == (v is None))
                cs.append(va == (0 if v is None else v))
    return cs


def connect():
    """sqlite3 connection whose LIKE has the meaning SYMREL gives it on the integer domain"""
    import sqlite3
    con = sqlite3.connect(':memory:')
    con.create_function('like', 2, lambda pattern, value: None if pattern is None or value is None else int(value > pattern), deterministic=True)
    return con


def sqlite_rows(sql, schema, data):
    con = connect()
    for t, cols in schema.items():
        con.execute('CREATE TABLE %s (%s)' % (t, ', '.join('"%s" INTEGER' % c for c in cols)))
        for r in data.get(t, []):
            con.execute('INSERT INTO %s VALUES (%s)' % (t, ', '.join('?' * len(cols))), r)
    return [tuple(int(x) if isinstance(x, bool) else x for x in row) for row in con.execute(sql).fetchall()]


def random_db(schema, R, D, rnd):
    data = {}
    for t, cols in schema.items():
        n = rnd.randint(0, R)
        data[t] = [tuple(None if rnd.random() < 0.2 else rnd.randint(0, D) for _ in cols) for _ in range(n)]
    return data


def validate_query(ast_query, sql_for_sqlite, schema, R, D, rnd, n=3, ordered=False, consts=None):
    """-> (checked, disagreements[(data, symrel_rows, sqlite_rows)], unsupported reason or None)"""
    bad = []
    for _ in range(n):
        data = random_db(schema, R, D, rnd)
        db = DB(schema, R, D)
        ev = Evaluator(db, consts=consts)
        try:
            rel = ev.query(ast_query)
        except Unsupported as e:
            return 0, [], str(e)
        s = z3.Solver()
        s.add(db.constraints + fix_db(db, data) + ev.assumptions)
        if str(s.check()) != 'sat':
            continue        # this database violates an evaluator assumption (ties in ORDER BY): skip
        got = concrete_rows(rel, s.model())
        try:
            want = sqlite_rows(sql_for_sqlite, schema, data)
        except Exception as e:  # noqa
            return 0, [], 'sqlite: %s' % e
        if getattr(rel, '_unordered_limit', False):
            # LIMIT without ORDER BY: which rows are returned is the engine's choice; only their number is comparable
            if len(got) != len(want):
                bad.append((data, got, want))
            continue
        if sorted(map(repr, got)) != sorted(map(repr, want)):
            bad.append((data, got, want))
    return n, bad, None
