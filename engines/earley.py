"""Earley recogniser over the live `Parser._grammar.Productions` — the grammar the LALR tables were
generated from — independent of the tables, of precedence and of the parse loop (oracle for C05)."""


class Earley:
    def __init__(self, parser_cls):
        g = parser_cls._grammar
        self.prods = {}
        for p in g.Productions[1:]:
            self.prods.setdefault(p.name, []).append(tuple(str(x) for x in p.prod))
        self.start = g.Productions[0].prod[0] if g.Productions[0].prod else g.Start
        self.start = str(self.start)
        self.nonterminals = set(self.prods)
        # nullable set
        self.nullable = set()
        changed = True
        while changed:
            changed = False
            for n, alts in self.prods.items():
                if n in self.nullable:
                    continue
                for rhs in alts:
                    if all(s in self.nullable for s in rhs):
                        self.nullable.add(n)
                        changed = True
                        break
        self.cache = {}

    def recognise(self, tokens):
        tokens = tuple(tokens)
        r = self.cache.get(tokens)
        if r is None:
            r = self._rec(tokens)
            if len(self.cache) < 2_000_000:
                self.cache[tokens] = r
        return r

    def _rec(self, toks):
        n = len(toks)
        # item: (lhs, rhs, dot, origin)
        chart = [set() for _ in range(n + 1)]
        order = [[] for _ in range(n + 1)]

        def add(i, item):
            if item not in chart[i]:
                chart[i].add(item)
                order[i].append(item)
        for rhs in self.prods.get(self.start, []):
            add(0, (self.start, rhs, 0, 0))
        for i in range(n + 1):
            j = 0
            while j < len(order[i]):
                lhs, rhs, dot, org = order[i][j]
                j += 1
                if dot < len(rhs):
                    sym = rhs[dot]
                    if sym in self.nonterminals:
                        for r2 in self.prods[sym]:
                            add(i, (sym, r2, 0, i))
                        if sym in self.nullable:
                            add(i, (lhs, rhs, dot + 1, org))
                    elif i < n and toks[i] == sym:
                        add(i + 1, (lhs, rhs, dot + 1, org))
                else:
                    for (l2, r2, d2, o2) in list(chart[org]):
                        if d2 < len(r2) and r2[d2] == lhs:
                            add(i, (l2, r2, d2 + 1, o2))
        for (lhs, rhs, dot, org) in chart[n]:
            if lhs == self.start and dot == len(rhs) and org == 0:
                return True
        return False
