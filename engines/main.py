"""Entry point: ./check <id> --tier quick|thorough ; ./check <id> --replay <path> ; ./check all --tier quick"""
import sys, os, json, importlib, subprocess
from engines.common import VERIF, tier_from_env


def main():
    args = sys.argv[1:]
    if not args:
        print(__doc__); sys.exit(2)
    pid = args[0]
    tier, replay = None, None
    i = 1
    while i < len(args):
        if args[i] == '--tier':
            tier = args[i + 1]; i += 2
        elif args[i] == '--replay':
            replay = args[i + 1]; i += 2
        else:
            i += 1
    tier = tier_from_env(tier)
    if pid == 'all':
        man = json.load(open(os.path.join(VERIF, 'MANIFEST.json')))
        rc = 0
        for c in man['checks']:
            r = subprocess.call([os.path.join(VERIF, 'check'), c['property_id'], '--tier', tier])
            rc = max(rc, r)
        sys.exit(rc)
    mod = importlib.import_module('harness.%s' % pid)
    if replay:
        sys.exit(mod.replay(replay) or 0)
    mod.run(tier)


if __name__ == '__main__':
    main()
