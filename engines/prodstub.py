"""Call a real grammar action (the function SLY attached to a production) on chosen child values,
through SLY's real YaccProduction object with the production's real namemap."""
from sly.yacc import YaccProduction, YaccSymbol
from sly.lex import Token


def find_production(parser_cls, name, symbols):
    symbols = list(symbols)
    for prod in parser_cls._grammar.Productions:
        if prod.name == name and [str(x) for x in prod.prod] == symbols:
            return prod
    return None


def make_p(prod, values, positions=None):
    syms = []
    for i, (name, v) in enumerate(zip(prod.prod, values)):
        if isinstance(v, Token):
            s = v
        else:
            s = YaccSymbol()
            s.type = str(name)
            s.value = v
            s.lineno, s.index, s.end = 1, i, i + 1
        syms.append(s)
    p = YaccProduction(syms)
    p._namemap = prod.namemap
    return p


def apply_action(parser, prod, values):
    """value = prod.func(parser, p) exactly as the parse loop computes it"""
    p = make_p(prod, values)
    value = prod.func(parser, p)
    if value is p:
        value = (prod.name, *(s.value for s in p._slice))
    return value
