"""LEXZ3 — the live lexer rule list as z3 regular expressions (DESIGN 2.2).

Patterns are parsed with re._parser and translated to z3 `Re` over an ASCII alphabet (0x00-0x7F).  Leading/trailing
\\b are stripped and returned as flags (side conditions on the neighbouring characters, discharged by the caller's
shape constraints).  Translator validation: `validate()` pushes strings through Python's re and through z3 membership.
"""
import re, time
import re._parser as sp
import z3

ASCII = z3.Range(chr(0), chr(127))
WORD = z3.Union(z3.Range('a', 'z'), z3.Range('A', 'Z'), z3.Range('0', '9'), z3.Re('_'))
DIGIT = z3.Range('0', '9')
SPACE = z3.Union(*[z3.Re(c) for c in ' \t\n\r\f\v'])


class Unsupported(Exception):
    pass


def _char(c, ignorecase):
    ch = chr(c)
    if ignorecase and ch.lower() != ch.upper() and c < 128:
        return z3.Union(z3.Re(ch.lower()), z3.Re(ch.upper()))
    return z3.Re(ch)


def _cat(name):
    name = str(name)
    if name == 'CATEGORY_DIGIT':
        return DIGIT
    if name == 'CATEGORY_SPACE':
        return SPACE
    if name == 'CATEGORY_WORD':
        return WORD
    if name == 'CATEGORY_NOT_DIGIT':
        return z3.Intersect(ASCII, z3.Complement(DIGIT))
    if name == 'CATEGORY_NOT_SPACE':
        return z3.Intersect(ASCII, z3.Complement(SPACE))
    if name == 'CATEGORY_NOT_WORD':
        return z3.Intersect(ASCII, z3.Complement(WORD))
    raise Unsupported(name)


def _union(items):
    items = list(items)
    if not items:
        return z3.Empty(z3.ReSort(z3.StringSort()))
    return items[0] if len(items) == 1 else z3.Union(*items)


def _concat(items):
    items = list(items)
    if not items:
        return z3.Re('')
    return items[0] if len(items) == 1 else z3.Concat(*items)


def _tr(items, ic):
    out = []
    for op, av in items:
        op = str(op)
        if op == 'LITERAL':
            out.append(_char(av, ic))
        elif op == 'NOT_LITERAL':
            out.append(z3.Intersect(ASCII, z3.Complement(_char(av, ic))))
        elif op == 'ANY':
            out.append(z3.Intersect(ASCII, z3.Complement(z3.Re('\n'))))
        elif op == 'IN':
            neg, parts = False, []
            for o2, a2 in av:
                o2 = str(o2)
                if o2 == 'NEGATE':
                    neg = True
                elif o2 == 'LITERAL':
                    parts.append(_char(a2, ic))
                elif o2 == 'RANGE':
                    lo, hi = a2
                    r = z3.Range(chr(lo), chr(min(hi, 127)))
                    if ic:
                        # add the other case of letters in the range
                        extra = []
                        for c in range(lo, min(hi, 127) + 1):
                            ch = chr(c)
                            if ch.lower() != ch.upper():
                                extra.append(_char(c, True))
                        r = z3.Union(r, *extra) if extra else r
                    parts.append(r)
                elif o2 == 'CATEGORY':
                    parts.append(_cat(a2))
                else:
                    raise Unsupported(o2)
            u = _union(parts)
            out.append(z3.Intersect(ASCII, z3.Complement(u)) if neg else u)
        elif op == 'BRANCH':
            out.append(_union(_concat(_tr(alt, ic)) for alt in av[1]))
        elif op == 'SUBPATTERN':
            out.append(_concat(_tr(av[3], ic)))
        elif op in ('MAX_REPEAT', 'MIN_REPEAT'):
            lo, hi, sub = av
            r = _concat(_tr(sub, ic))
            if hi == sp.MAXREPEAT:
                if lo == 0:
                    out.append(z3.Star(r))
                elif lo == 1:
                    out.append(z3.Plus(r))
                else:
                    out.append(z3.Concat(z3.Loop(r, lo, lo), z3.Star(r)))
            else:
                out.append(z3.Loop(r, lo, hi))
        elif op == 'AT':
            raise Unsupported('inner anchor %s' % av)
        else:
            raise Unsupported(op)
    return out


def translate(pattern, ignorecase=True):
    """-> (z3 regex, leading_boundary, trailing_boundary)"""
    items = list(sp.parse(pattern))
    lead = trail = False
    while items and str(items[0][0]) == 'AT' and str(items[0][1]) == 'AT_BOUNDARY':
        lead = True
        items = items[1:]
    while items and str(items[-1][0]) == 'AT' and str(items[-1][1]) == 'AT_BOUNDARY':
        trail = True
        items = items[:-1]
    # a pattern anchored at the end / beginning of the text: the language of its matches is over-approximated by dropping the anchor
    while items and str(items[-1][0]) == 'AT' and str(items[-1][1]) in ('AT_END', 'AT_END_STRING'):
        items = items[:-1]
    while items and str(items[0][0]) == 'AT' and str(items[0][1]) in ('AT_BEGINNING', 'AT_BEGINNING_STRING'):
        items = items[1:]
    # a top-level alternation of \b...\b groups (function rules with several patterns)
    return _concat(_tr(items, ignorecase)), lead, trail


class LexerModel:
    def __init__(self, lexer_cls):
        self.cls = lexer_cls
        self.ic = bool(getattr(lexer_cls, 'reflags', 0) & re.IGNORECASE)
        self.rules = []        # (name, pattern, z3re, lead_b, trail_b)
        self.unsupported = []
        self.queries = 0
        self.solver_s = 0.0
        t0 = time.time()
        for name, rule in lexer_cls._rules:
            pat = rule.pattern if callable(rule) else rule
            try:
                r, lb, tb = translate(pat, self.ic)
                self.rules.append((name, pat, r, lb, tb))
            except Unsupported as e:
                self.unsupported.append((name, pat, str(e)))
                self.rules.append((name, pat, None, False, False))
        self.translate_s = time.time() - t0

    def index_of(self, name):
        for i, r in enumerate(self.rules):
            if r[0] == name:
                return i
        raise KeyError(name)

    def check(self, *cs, timeout_ms=60000):
        s = z3.Solver()
        s.set('timeout', timeout_ms)
        s.add(*cs)
        t0 = time.perf_counter()
        r = str(s.check())
        self.solver_s += time.perf_counter() - t0
        self.queries += 1
        return r, (s.model() if r == 'sat' else None)

    def validate(self, strings):
        """translator validation: Python re fullmatch vs z3 membership for every (rule, string) with ASCII strings"""
        bad, n = [], 0
        for name, pat, r, lb, tb in self.rules:
            if r is None:
                continue
            core = pat
            rx = re.compile(pat, re.IGNORECASE if self.ic else 0)
            for s in strings:
                if any(ord(c) > 127 for c in s):
                    continue
                py = rx.fullmatch(s) is not None
                if (lb or tb):
                    # z3 side ignores the stripped \b; compare with the boundary-free pattern
                    core = re.sub(r'^(\\b)+|(\\b)+$', '', pat)
                    py = re.compile(core, re.IGNORECASE if self.ic else 0).fullmatch(s) is not None
                zz = z3.simplify(z3.InRe(z3.StringVal(s), r))
                n += 1
                if z3.is_true(zz) != py:
                    bad.append((name, s, py, str(zz)))
        return n, bad
