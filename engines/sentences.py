"""Shortest sentence through every production of a live SLY grammar (dynamic programming over _grammar.Productions)."""


def shortest_sentences(parser_cls):
    g = parser_cls._grammar
    prods = [p for p in g.Productions[1:]]
    nonterms = set(p.name for p in prods)
    start = str(g.Productions[0].prod[0])
    INF = 10 ** 9
    best = {}          # nonterminal -> tuple of terminals (shortest)
    changed = True
    while changed:
        changed = False
        for p in prods:
            total, ok = [], True
            for s in p.prod:
                s = str(s)
                if s in nonterms:
                    if s not in best:
                        ok = False
                        break
                    total.extend(best[s])
                else:
                    total.append(s)
            if ok and (p.name not in best or len(total) < len(best[p.name])):
                best[p.name] = tuple(total)
                changed = True
    ctx = {start: ((), ())}
    changed = True
    while changed:
        changed = False
        for p in prods:
            if p.name not in ctx:
                continue
            pre0, suf0 = ctx[p.name]
            syms = [str(s) for s in p.prod]
            exp = []
            ok = True
            for s in syms:
                if s in nonterms:
                    if s not in best:
                        ok = False
                        break
                    exp.append(best[s])
                else:
                    exp.append((s,))
            if not ok:
                continue
            for i, s in enumerate(syms):
                if s in nonterms:
                    pre = pre0 + tuple(x for e in exp[:i] for x in e)
                    suf = tuple(x for e in exp[i + 1:] for x in e) + suf0
                    if s not in ctx or len(pre) + len(suf) < len(ctx[s][0]) + len(ctx[s][1]):
                        ctx[s] = (pre, suf)
                        changed = True
    out = []
    for p in prods:
        if p.name not in ctx:
            continue
        body, ok = [], True
        for s in p.prod:
            s = str(s)
            if s in nonterms:
                if s not in best:
                    ok = False
                    break
                body.extend(best[s])
            else:
                body.append(s)
        if ok:
            pre, suf = ctx[p.name]
            out.append((p, list(pre) + body + list(suf)))
    return out
