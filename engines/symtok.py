"""SYMTOK — symbolic token streams through the real `Parser.parse` (DESIGN 2.4).

Token *types* are symbolic finite-domain variables.  The only place the code under test inspects a token
type is the row lookup `actions[state].get(ltype)`; the live row dicts are wrapped (content unchanged) in
a dict subclass whose .get() branches over the classes of that row: one branch per key that is still
feasible for the token under the path condition, plus one branch "none of the keys of this row".
Branch feasibility is decided by z3 on the accumulated path condition of that token (finite-domain Int),
memoised per (path condition, row).  Exploration is depth-first by re-execution with a decision log.
A path denotes the set of all type sequences satisfying its path condition; the engine reports the exact
number of concrete sequences covered (product of class sizes) — the exhaustiveness certificate.
"""
import re, time
import z3


class Abort(BaseException):
    pass


class SymType(str):
    """token.type of a symbolic token: a str subclass that must never be hashed/compared except through
    Row.get (branching) or against the parser's two internal marker types."""
    def __new__(cls, tok):
        o = str.__new__(cls, '<sym>')
        o.tok = tok
        return o

    def __hash__(self):
        raise RuntimeError('SYMTOK: symbolic token type hashed outside a row lookup')

    def __eq__(self, other):
        if isinstance(other, str) and not isinstance(other, SymType):
            if other in ('$end', 'error'):
                return False
            return self.tok.explorer.decide_eq(self.tok, other)
        return self is other

    def __ne__(self, other):
        return not self.__eq__(other)

    def __str__(self):
        return self.tok.type_name()

    def __repr__(self):
        return repr(self.tok.type_name())

    def __format__(self, spec):
        return format(self.tok.type_name(), spec)


class SymToken:
    """stands for sly.lex.Token; value/index/lineno/end filled from a representative once the type is fixed"""
    def __init__(self, explorer, i, prev=None, layout=False):
        """layout=True: the line number is symbolic too - decided lazily (same line as the previous token / next line) the
        first time the code under test reads it, so only paths that look at line numbers fork"""
        self.explorer = explorer
        self.i = i
        self.fixed = None           # terminal name once fixed on this path
        self.excluded = frozenset()  # terminals excluded on this path
        self.type = SymType(self)
        self._lineno = None if (layout and prev is not None) else 1
        self._prev = prev
        self.index = i * 8
        self.end = i * 8 + 7

    @property
    def lineno(self):
        if self._lineno is None:
            base = self._prev.lineno
            self._lineno = base + self.explorer.choose_int(2)
        return self._lineno

    @lineno.setter
    def lineno(self, v):
        self._lineno = v

    def type_name(self):
        return self.fixed if self.fixed is not None else '<any-of-%d>' % self.domain_size()

    def domain_size(self):
        return 1 if self.fixed is not None else len(self.explorer.alphabet) - len(self.excluded)

    @property
    def value(self):
        if self.fixed is not None:
            return self.explorer.rep.get(self.fixed, self.fixed)
        return '<?>'

    @value.setter
    def value(self, v):
        pass

    def __repr__(self):
        return 'SymToken(%d,%s)' % (self.i, self.type_name())


class Row(dict):
    """a live lr_action row; .get() on a symbolic type branches (content identical to the original)"""
    __slots__ = ('explorer', 'rid')

    def get(self, key, default=None):
        if type(key) is SymType:
            return self.explorer.branch(key.tok, self)
        return dict.get(self, key, default)


class Explorer:
    def __init__(self, parser_cls, alphabet, rep, use_z3=True):
        self.parser_cls = parser_cls
        self.alphabet = tuple(sorted(alphabet))
        self.aset = frozenset(self.alphabet)
        self.code = {t: i for i, t in enumerate(self.alphabet)}
        self.rep = rep
        self.use_z3 = use_z3
        self.solver = z3.Solver()
        self.tvar = z3.Int('toktype')
        self.solver.add(self.tvar >= 0, self.tvar < len(self.alphabet))
        self.feas_cache = {}
        self.solver_calls = 0
        self.solver_s = 0.0
        self.paths = 0
        self.trail = []
        self.pos = 0
        self.install()

    # ---- table wrapping --------------------------------------------------------------------
    def install(self):
        lt = self.parser_cls._lrtable
        if not getattr(lt, '_symtok_wrapped', False):
            new = {}
            for st, row in lt.lr_action.items():
                r = Row(row)
                r.rid = st
                new[st] = r
            lt._symtok_orig = lt.lr_action
            lt.lr_action = new
            lt._symtok_wrapped = True
        for r in lt.lr_action.values():
            r.explorer = self

    def uninstall(self):
        lt = self.parser_cls._lrtable
        if getattr(lt, '_symtok_wrapped', False):
            lt.lr_action = lt._symtok_orig
            lt._symtok_wrapped = False

    # ---- solver-decided feasibility -----------------------------------------------------------
    def feasible(self, excluded, row):
        """which keys of `row` can the token still be, and can it be none of them? (z3, memoised)"""
        key = (excluded, row.rid)
        r = self.feas_cache.get(key)
        if r is not None:
            return r
        keys = [k for k in row.keys() if k in self.aset]
        if self.use_z3:
            t0 = time.perf_counter()
            s = self.solver
            s.push()
            for e in excluded:
                s.add(self.tvar != self.code[e])
            feas = []
            for k in sorted(keys):
                self.solver_calls += 1
                if str(s.check(self.tvar == self.code[k])) == 'sat':
                    feas.append(k)
            self.solver_calls += 1
            none_ok = str(s.check(*[self.tvar != self.code[k] for k in keys])) == 'sat'
            s.pop()
            self.solver_s += time.perf_counter() - t0
        else:
            feas = sorted(k for k in keys if k not in excluded)
            none_ok = len(self.aset - excluded - set(keys)) > 0
        new_excl = excluded | frozenset(keys)
        r = (feas, none_ok, new_excl)
        self.feas_cache[key] = r
        return r

    # ---- branching ----------------------------------------------------------------------------
    def _choose(self, n):
        if self.pos < len(self.trail):
            idx = self.trail[self.pos][0]
        else:
            idx = 0
            self.trail.append([0, n])
        self.pos += 1
        return idx

    def branch(self, tok, row):
        if tok.fixed is not None:
            return dict.get(row, tok.fixed)
        feas, none_ok, new_excl = self.feasible(tok.excluded, row)
        n = len(feas) + (1 if none_ok else 0)
        if n == 0:
            raise Abort()
        idx = self._choose(n)
        if idx < len(feas):
            tok.fixed = feas[idx]
            return dict.get(row, tok.fixed)
        tok.excluded = new_excl
        return None

    def decide_eq(self, tok, other):
        """token.type == 'NAME' outside a row lookup: two-way branch"""
        if tok.fixed is not None:
            return tok.fixed == other
        if other not in self.aset or other in tok.excluded:
            return False
        rest = len(self.aset) - len(tok.excluded) - 1
        n = 2 if rest > 0 else 1
        idx = self._choose(n)
        if idx == 0:
            tok.fixed = other
            return True
        tok.excluded = tok.excluded | {other}
        return False

    def choose_int(self, n):
        """finite nondeterministic choice made by the harness itself (e.g. an edit position)"""
        return self._choose(n)

    # ---- driver -------------------------------------------------------------------------------
    def explore(self, run_one, limit=None, deadline=None):
        """run_one(explorer) is re-executed once per path; returns nothing (collects its own results).
        Yields nothing; returns (paths, complete)."""
        self.trail = []
        while True:
            self.pos = 0
            try:
                run_one(self)
            except Abort:
                pass
            self.paths += 1
            # backtrack
            while self.trail and self.trail[-1][0] + 1 >= self.trail[-1][1]:
                self.trail.pop()
            if not self.trail:
                return True
            self.trail[-1][0] += 1
            del self.trail[len(self.trail):]
            if limit and self.paths >= limit:
                return False
            if deadline and time.time() > deadline:
                return False


# ---- representatives: one lexeme per terminal, produced by the real lexer ---------------------------

def _sample(pattern):
    """a string matched by `pattern` (first alternative, minimal repeats) via re._parser"""
    import re._parser as sp
    import re._constants as sc

    def gen(items):
        out = ''
        for op, av in items:
            op = str(op)
            if op == 'LITERAL':
                out += chr(av)
            elif op == 'NOT_LITERAL':
                out += 'x' if av != ord('x') else 'y'
            elif op == 'IN':
                neg = False
                pick = None
                for o2, a2 in av:
                    o2 = str(o2)
                    if o2 == 'NEGATE':
                        neg = True
                    elif o2 == 'LITERAL' and pick is None:
                        pick = chr(a2)
                    elif o2 == 'RANGE' and pick is None:
                        pick = chr(a2[0])
                    elif o2 == 'CATEGORY' and pick is None:
                        pick = {'CATEGORY_DIGIT': '1', 'CATEGORY_SPACE': ' ', 'CATEGORY_WORD': 'w'}.get(str(a2), 'x')
                out += 'x' if neg else (pick or 'x')
            elif op == 'BRANCH':
                out += gen(av[1][0])
            elif op == 'SUBPATTERN':
                out += gen(av[3])
            elif op in ('MAX_REPEAT', 'MIN_REPEAT'):
                lo, hi, sub = av
                out += gen(sub) * lo
            elif op == 'AT':
                pass
            elif op == 'ANY':
                out += 'x'
            elif op == 'CATEGORY':
                out += {'CATEGORY_DIGIT': '1', 'CATEGORY_SPACE': ' ', 'CATEGORY_WORD': 'w'}.get(str(av), 'x')
            else:
                raise ValueError(op)
        return out
    return gen(sp.parse(pattern))


OVERRIDE = {'ID': 'id1', 'INTEGER': '1', 'FLOAT': '1.5', 'QUOTE_STRING': "'s'", 'DQUOTE_STRING': '"d"',
            'VARIABLE': '@v', 'SYSTEM_VARIABLE': '@@sv'}


def respell(word, spelling):
    """another letter case of a keyword lexeme: 'lower' or 'mixed' (lower / upper alternating, starting lower)"""
    if spelling == 'lower':
        return word.lower()
    if spelling == 'mixed':
        out, up = '', False
        for ch in word:
            if ch.isalpha():
                out += ch.upper() if up else ch.lower()
                up = not up
            else:
                out += ch
        return out
    return word


def representatives(lexer_cls, spelling=None):
    """{terminal: token value as the real lexer produces it for one lexeme of that terminal}; with spelling = 'lower' / 'mixed' the
    lexemes of word tokens (keywords, word operators) are written in that letter case where the live lexer reads it as the same token"""
    rep, lexemes = {}, {}
    lx = lexer_cls()
    for name, rule in lexer_cls._rules:
        if name.startswith('ignore'):
            continue
        pat = rule.pattern if callable(rule) else rule
        cands = []
        if name in OVERRIDE:
            cands.append(OVERRIDE[name])
        try:
            cands.append(_sample(pat))
        except Exception:  # noqa
            pass
        if spelling and name not in OVERRIDE:
            cands = [respell(c, spelling) for c in cands if any(ch.isalpha() for ch in c)] + cands
        for c in cands:
            try:
                toks = list(lx.tokenize(c))
            except Exception:  # noqa
                continue
            if len(toks) == 1 and toks[0].type == name:
                rep[name] = toks[0].value
                lexemes[name] = c
                break
    return rep, lexemes
