"""CrossHair worker: analyse ONE harness function (one PEP316 condition) in this process.

usage: ch_worker.py <module_file> <function> <per_condition_timeout> [<per_path_timeout>]
Prints one JSON line: {"fn":..., "state": CONFIRMED|POST_FAIL|EXEC_ERR|CANNOT_CONFIRM|PRE_UNSAT|...,
 "message":..., "args":{...}|null, "paths":n, "solver_calls":n, "solver_s":x, "wall_s":x}
The verdict is CrossHair's (z3 decides every branch); this file only counts and transports.
"""
import sys, os, json, time, re, importlib.util


def load_module(path):
    name = 'vh_' + os.path.splitext(os.path.basename(path))[0]
    spec = importlib.util.spec_from_file_location(name, path)
    mod = importlib.util.module_from_spec(spec)
    sys.modules[name] = mod
    spec.loader.exec_module(mod)
    return mod


ARG_RE = re.compile(r'when calling (\w+)\((.*?)\)(?: \(which returns .*\))?$', re.S)


def parse_args(message, fn=None):
    """Extract the counterexample's keyword arguments from CrossHair's message text."""
    m = ARG_RE.search(message.strip())
    if not m:
        return None
    src = m.group(2)
    # strip a trailing "(which returns ...)" that can follow the closing paren
    try:
        import ast
        call = ast.parse('f(%s)' % src, mode='eval').body
        import inspect
        names = list(inspect.signature(fn).parameters) if fn is not None else []
        out = {}
        for i, a in enumerate(call.args):
            out[names[i] if i < len(names) else '_%d' % i] = eval(compile(ast.Expression(a), '<cx>', 'eval'), {'inf': float('inf'), 'nan': float('nan')})
        for kw in call.keywords:
            out[kw.arg] = eval(compile(ast.Expression(kw.value), '<cx>', 'eval'), {'inf': float('inf'), 'nan': float('nan')})
        return out
    except Exception as e:  # noqa
        return {'_unparsed': src}


def main():
    path, fn_name, cond_to = sys.argv[1], sys.argv[2], float(sys.argv[3])
    path_to = float(sys.argv[4]) if len(sys.argv) > 4 else max(5.0, cond_to / 4)
    t0 = time.time()
    import z3
    stats = {'solver_calls': 0, 'solver_ns': 0, 'paths': 0}
    _clock = time.perf_counter_ns
    _check = z3.Solver.check

    def check(self, *a):
        t = _clock()
        try:
            return _check(self, *a)
        finally:
            stats['solver_calls'] += 1
            stats['solver_ns'] += _clock() - t
    z3.Solver.check = check

    from crosshair import statespace
    _init = statespace.StateSpace.__init__

    def init(self, *a, **k):
        stats['paths'] += 1
        return _init(self, *a, **k)
    statespace.StateSpace.__init__ = init

    mod = load_module(path)
    fn = getattr(mod, fn_name)
    from crosshair.core_and_libs import analyze_function, run_checkables
    from crosshair.options import AnalysisOptionSet, AnalysisKind, DEFAULT_OPTIONS
    opts = DEFAULT_OPTIONS.overlay(AnalysisOptionSet(
        analysis_kind=[AnalysisKind.PEP316], per_condition_timeout=cond_to,
        per_path_timeout=path_to, report_all=True,
        max_uninteresting_iterations=10**9))
    checkables = analyze_function(fn, opts)
    msgs = run_checkables(checkables)
    out = []
    for m in msgs:
        out.append({'fn': fn_name, 'state': m.state.name, 'message': m.message,
                    'args': parse_args(m.message, fn) if m.state.name in ('POST_FAIL', 'EXEC_ERR', 'POST_ERR') else None,
                    'line': m.line})
    if not out:
        out.append({'fn': fn_name, 'state': 'NO_CONDITIONS', 'message': 'no checkable condition found', 'args': None})
    res = {'fn': fn_name, 'results': out, 'paths': stats['paths'], 'solver_calls': stats['solver_calls'],
           'solver_s': round(stats['solver_ns'] / 1e9, 3), 'wall_s': round(time.time() - t0, 3)}
    sys.stdout.write('\n@@CH ' + json.dumps(res, default=repr) + '\n')


if __name__ == '__main__':
    main()
