"""Shared runner plumbing: obligations, counterexamples, known findings, evidence, exit codes.

Exit codes (DESIGN 1): 0 held (plus KNOWN-FINDING lines); 1 replayed counterexample not listed as known
(VIOLATION line); 2 machinery failure (never prints VIOLATION).
"""
import json, os, sys, time, hashlib, subprocess, re, concurrent.futures as cf

VERIF = os.path.dirname(os.path.dirname(os.path.abspath(__file__)))
OUT = os.environ.get('VERIF_OUT') or VERIF       # evidence/ and replays/ go here (scratch runs on seeded copies set VERIF_OUT)
PY = os.path.join(VERIF, '.venv', 'bin', 'python')
NCPU = int(os.environ.get('VERIF_JOBS', os.cpu_count() or 4))


def tier_from_env(argv_tier=None):
    t = argv_tier or os.environ.get('VERIF_TIER') or 'quick'
    return 'thorough' if t.startswith('t') else 'quick'


def seed_from_env():
    try:
        return int(os.environ.get('VERIF_SEED', '0'))
    except ValueError:
        return 0


def load_known():
    p = os.path.join(VERIF, 'known_findings.json')
    if not os.path.exists(p):
        return []
    return json.load(open(p))['findings']


class Run:
    def __init__(self, pid, tier, level='model_checking'):
        self.pid, self.tier, self.level = pid, tier, level
        self.seed = seed_from_env()
        self.t0 = time.time()
        self.obligations = []      # dicts: name, status(discharged|inconclusive|counterexample|known), detail
        self.cex = []              # dicts: key, what, replay(dict), reproduced(bool)
        self.samples = []
        self.assumptions = []
        self.functions = []        # functions encoded / executed symbolically
        self.bounds = {}
        self.stats = {'solver_calls': 0, 'solver_s': 0.0, 'paths': 0}
        self.extra = {}
        self.machinery_errors = []
        self.validated = 0         # translator validations + native replays
        self.known = [k for k in load_known() if k['property'] == pid]

    # ---- obligations -------------------------------------------------------------------------
    def ob(self, name, status, detail=None):
        self.obligations.append({'name': name, 'status': status, 'detail': detail})

    def sample(self, s):
        if len(self.samples) < 40:
            self.samples.append(s)

    def add_stats(self, d):
        for k in ('solver_calls', 'solver_s', 'paths'):
            if k in d:
                self.stats[k] += d[k]

    def error(self, msg):
        self.machinery_errors.append(msg)
        sys.stderr.write('MACHINERY-ERROR: %s\n' % msg)

    # ---- counterexamples ---------------------------------------------------------------------
    def counterexample(self, key, what, replay, reproduced):
        """key: stable identity of the failing input / call site (matched against known_findings.json).
        replay: dict describing the native replay (inputs, expected, observed).
        reproduced: result of the native replay on the real code; False => machinery error, not a violation."""
        self.validated += 1
        if not reproduced:
            self.error('counterexample did not reproduce natively: %s %s' % (key, what))
            return
        for c in self.cex:
            if c['key'] == key:
                return
        self.cex.append({'key': key, 'what': what, 'replay': replay})

    def match_known(self, key):
        for k in self.known:
            if k.get('status', 'known') != 'known':
                continue   # a "fixed" entry suppresses nothing
            if k['key'] == key or (k.get('key_regex') and re.fullmatch(k['key_regex'], key)):
                return k
        return None

    # ---- finish ------------------------------------------------------------------------------
    def finish(self):
        wall = time.time() - self.t0
        violations, knowns = [], []
        for c in self.cex:
            k = self.match_known(c['key'])
            (knowns if k else violations).append(c)
        os.makedirs(os.path.join(OUT, 'replays', self.pid), exist_ok=True)
        for c in knowns:
            print('KNOWN-FINDING: property=%s %s [%s]' % (self.pid, c['what'], c['key']))
        for c in violations:
            h = hashlib.sha1(c['key'].encode()).hexdigest()[:12]
            path = os.path.join(OUT, 'replays', self.pid, h + '.json')
            json.dump({'property': self.pid, 'key': c['key'], 'what': c['what'], 'replay': c['replay']},
                      open(path, 'w'), indent=1, default=repr)
            print('VIOLATION property=%s replay=%s' % (self.pid, path))
            print('  what: %s [%s]' % (c['what'], c['key']))
        n_ob = len(self.obligations)
        n_dis = sum(1 for o in self.obligations if o['status'] == 'discharged')
        n_inc = sum(1 for o in self.obligations if o['status'] == 'inconclusive')
        n_cex = sum(1 for o in self.obligations if o['status'] in ('counterexample', 'known'))
        cov = {
            'states': max(1, self.stats['paths']),
            'transitions': max(1, self.stats['solver_calls']),
            'traces_validated_against_impl': self.validated,
            'samples': self.samples or ['(none)'],
            'evaluations': max(1, self.stats['paths'] or n_ob),
            'distinct_nontrivial': max(2, n_ob) if n_ob >= 2 else n_ob,
            'rule': 'one evaluation = one symbolic path / solver-decided class; an obligation is non-trivial when its '
                    'reachability twin is violated (assertion reachable) or its solver query is over a non-empty domain',
            'obligations': n_ob, 'discharged': n_dis, 'inconclusive': n_inc, 'with_counterexample': n_cex,
            'obligation_list': [{'name': o['name'], 'status': o['status'],
                                 **({'detail': o['detail']} if o['detail'] else {})} for o in self.obligations],
            'solver_queries': self.stats['solver_calls'], 'solver_s': round(self.stats['solver_s'], 2),
            'paths': self.stats['paths'],
            'functions_encoded': self.functions, 'bounds': self.bounds,
            'counterexamples_replayed': len(self.cex), 'known_findings_hit': [c['key'] for c in knowns],
            'violations_new': [c['key'] for c in violations],
            'machinery_errors': self.machinery_errors,
            'exhaustive': False,
        }
        if self.level == 'translation_validation':
            cov['programs'] = max(1, self.extra.get('programs', n_ob))
            cov['disagreements_checked'] = len(self.cex)
        if self.level == 'other':
            cov['explanation'] = self.extra.get('explanation', 'see level_note in MANIFEST.json')
        cov.update({k: v for k, v in self.extra.items() if k not in cov or k in ('programs', 'explanation', 'exhaustive')})
        ev = {'property_id': self.pid, 'tier': self.tier, 'seed': self.seed, 'level': self.level,
              'coverage': cov, 'assumptions': self.assumptions, 'wall_s': round(wall, 2),
              'violations': len(violations)}
        os.makedirs(os.path.join(OUT, 'evidence'), exist_ok=True)
        path = os.path.join(OUT, 'evidence', self.pid + '.json')
        json.dump(ev, open(path, 'w'), indent=1, default=repr)
        try:
            import jsonschema
            jsonschema.validate(json.load(open(path)), json.load(open('/root/.vp/EVIDENCE.schema.json')))
        except ImportError:
            pass
        except Exception as e:
            self.error('evidence does not validate: %s' % str(e)[:300])
        print('%s tier=%s obligations=%d discharged=%d inconclusive=%d counterexamples=%d (known=%d new=%d) '
              'paths=%d solver_queries=%d solver_s=%.1f wall=%.1fs'
              % (self.pid, self.tier, n_ob, n_dis, n_inc, len(self.cex), len(knowns), len(violations),
                 self.stats['paths'], self.stats['solver_calls'], self.stats['solver_s'], wall))
        if violations:
            sys.exit(1)
        if self.machinery_errors:
            sys.exit(2)
        sys.exit(0)


# ---- CrossHair process pool -----------------------------------------------------------------------

def _run_ch(job):
    path, fn, cond_to, path_to = job
    cmd = [PY, os.path.join(VERIF, 'engines', 'ch_worker.py'), path, fn, str(cond_to), str(path_to)]
    t0 = time.time()
    env = dict(os.environ, PYTHONHASHSEED='0', PYTHONPATH=(os.environ['VERIF_REPO'] + os.pathsep if os.environ.get('VERIF_REPO') else '') + VERIF)
    try:
        p = subprocess.run(cmd, capture_output=True, text=True, timeout=cond_to * 3 + 90, env=env, cwd=VERIF)
    except subprocess.TimeoutExpired:
        return {'fn': fn, 'results': [{'fn': fn, 'state': 'WORKER_TIMEOUT', 'message': 'worker timeout', 'args': None}],
                'paths': 0, 'solver_calls': 0, 'solver_s': 0.0, 'wall_s': time.time() - t0}
    for line in p.stdout.splitlines():
        if line.startswith('@@CH '):
            return json.loads(line[5:])
    return {'fn': fn, 'results': [{'fn': fn, 'state': 'WORKER_ERROR', 'message': (p.stderr or p.stdout)[-1500:], 'args': None}],
            'paths': 0, 'solver_calls': 0, 'solver_s': 0.0, 'wall_s': time.time() - t0}


def run_crosshair(jobs, jobs_parallel=None):
    """jobs: list of (module_file, function_name, per_condition_timeout, per_path_timeout).
    Returns {function_name: worker result}. One OS process per condition."""
    out = {}
    with cf.ThreadPoolExecutor(max_workers=jobs_parallel or NCPU) as ex:
        for res in ex.map(_run_ch, jobs):
            out[res['fn']] = res
    return out


def ch_state(res):
    """Collapse a worker result to one state (a harness function carries exactly one post-condition)."""
    states = [r['state'] for r in res['results']]
    for s in ('POST_FAIL', 'EXEC_ERR', 'POST_ERR'):
        if s in states:
            r = [x for x in res['results'] if x['state'] == s][0]
            return s, r
    return states[0], res['results'][0]


def ch_obligations(run, module_file, specs, cond_to, path_to=None, replay=None):
    """Run CrossHair harness functions with their reachability twins.

    specs: list of dicts {fn: name of harness function, twin: name of twin (post: False) or None,
                          what: text, key: fn(args)->str (finding key), replay: fn(args)->(reproduced, info)}
    A spec's verdict: CONFIRMED & twin violated -> discharged; counterexample -> native replay -> cex;
    anything else -> inconclusive. Twin not violated -> vacuous -> machinery error.
    """
    path_to = path_to or max(5.0, cond_to / 3)
    jobs = []
    for s in specs:
        jobs.append((module_file, s['fn'], s.get('timeout', cond_to), s.get('path_timeout', path_to)))
        if s.get('twin'):
            jobs.append((module_file, s['twin'], min(s.get('timeout', cond_to), 60), path_to))
    res = run_crosshair(jobs)
    for s in specs:
        r = res[s['fn']]
        run.add_stats(r)
        state, msg = ch_state(r)
        name = s.get('name', s['fn'])
        if s.get('twin'):
            tr = res[s['twin']]
            run.add_stats(tr)
            tstate, tmsg = ch_state(tr)
            if tstate not in ('POST_FAIL', 'EXEC_ERR'):
                if tstate in ('CANNOT_CONFIRM', 'WORKER_TIMEOUT'):
                    run.ob(name, 'inconclusive', 'reachability twin inconclusive (%s)' % tstate)
                else:
                    run.error('harness %s is vacuous: twin state %s %s' % (name, tstate, tmsg['message'][:300]))
                    run.ob(name, 'inconclusive', 'vacuous')
                continue
        if state == 'CONFIRMED':
            run.ob(name, 'discharged', 'Confirmed over all paths; paths=%d z3=%d %.1fs' % (r['paths'], r['solver_calls'], r['wall_s']))
        elif state in ('POST_FAIL', 'EXEC_ERR', 'POST_ERR'):
            args = msg['args']
            if args is None or '_unparsed' in (args or {}):
                run.error('cannot parse counterexample of %s: %s' % (name, msg['message'][:300]))
                run.ob(name, 'inconclusive', 'unparsed counterexample')
                continue
            try:
                reproduced, info, key, what = s['replay'](args)
            except Exception as e:  # noqa
                run.error('replay of %s crashed: %r' % (name, e))
                run.ob(name, 'inconclusive', 'replay crashed')
                continue
            if not reproduced and s.get('soft_replay'):
                # a unit below the public API (e.g. one grammar action on an over-approximated child domain): a counterexample the
                # public API cannot reach is not a violation and not a machinery error - the obligation stays undecided
                run.validated += 1
                run.ob(name, 'inconclusive', {'unit counterexample not reachable through the public API': what[:300], 'args': args})
                continue
            run.counterexample(key, what, {'harness': name, 'args': args, 'crosshair': msg['message'][:500], 'native': info}, reproduced)
            run.ob(name, 'counterexample' if reproduced else 'inconclusive', {'args': args, 'key': key})
            run.sample({'harness': name, 'counterexample': args, 'native_replay': info})
        else:
            run.ob(name, 'inconclusive', '%s: %s' % (state, msg['message'][:200]))
    return res
