"""C03 workers: SYMTOK over the expression alphabet in six expression contexts, compared with the independent
precedence-climbing reader (refs/precedence.py); LRZ3 table-level conflict-resolution query."""
import os, sys, time, re, collections, multiprocessing as mp

EXPR_ALPHA = ['ID', 'INTEGER', 'NULL', 'PLUS', 'MINUS', 'STAR', 'DIVIDE', 'MODULO', 'EQUALS', 'NEQUALS', 'LESS', 'LEQ',
              'GREATER', 'GEQ', 'AND', 'OR', 'NOT', 'IN', 'NOT_IN', 'LIKE', 'NOT_LIKE', 'IS', 'IS_NOT', 'BETWEEN',
              'LPAREN', 'RPAREN', 'COMMA']

# context: (prefix token types, suffix token types, extractor)
CONTEXTS = {
    'select-list': (['SELECT'], [], lambda a: a.targets[0] if len(a.targets) == 1 and a.from_table is None else None),
    'where': (['SELECT', 'ID', 'FROM', 'ID', 'WHERE'], [], lambda a: a.where),
    'on': (['SELECT', 'ID', 'FROM', 'ID', 'JOIN', 'ID', 'ON'], [], lambda a: getattr(a.from_table, 'condition', None)),
    'having': (['SELECT', 'ID', 'FROM', 'ID', 'GROUP_BY', 'ID', 'HAVING'], [], lambda a: a.having),
    'function-arg': (['SELECT', 'ID', 'LPAREN'], ['RPAREN'],
                     lambda a: a.targets[0].args[0] if len(a.targets) == 1 and hasattr(a.targets[0], 'args') and len(a.targets[0].args) == 1 else None),
    'case-branch': (['SELECT', 'CASE', 'WHEN'], ['THEN', 'ID', 'END'],
                    lambda a: a.targets[0].rules[0][0] if len(a.targets) == 1 and hasattr(a.targets[0], 'rules') and len(a.targets[0].rules) == 1 else None),
}


# one operator per precedence level plus the predicates that carry their own AND / list: long expressions over few symbols
CORE_ALPHA = ['ID', 'PLUS', 'STAR', 'MINUS', 'EQUALS', 'LESS', 'AND', 'OR', 'NOT', 'BETWEEN', 'LIKE', 'IS', 'NULL']


def worker(args):
    dialect, ctx, K, firsts = args[:4]
    alpha_override = args[4] if len(args) > 4 else None
    spelling = args[5] if len(args) > 5 else None
    sys.setrecursionlimit(10000)
    from engines.symtok import Explorer, SymToken, representatives
    from engines import sweep as SW
    from refs.precedence import Reader, Skip, Reject, shape_of_ast, normalise
    from mindsdb_sql.parser import ast as A
    L, P = SW.dialect_classes(dialect)
    rep, _ = representatives(L, spelling)
    terms = set(P._grammar.Terminals)
    prefix, suffix, extract = CONTEXTS[ctx]
    alpha = [t for t in (alpha_override or EXPR_ALPHA) if t in terms]
    fixed = [t for t in set(prefix + suffix) if t not in alpha]
    if any(t not in terms for t in prefix + suffix):
        return {'paths': 0, 'skipped_context': True}
    ex = Explorer(P, alpha + fixed, rep)
    st = collections.Counter()
    findings, samples = [], []
    not_expr = frozenset(fixed)

    def run_one(ex):
        toks = [SymToken(ex, i) for i in range(len(prefix) + K + len(suffix))]
        for i, t in enumerate(prefix):
            toks[i].fixed = t
        for i, t in enumerate(suffix):
            toks[len(prefix) + K + i].fixed = t
        for i in range(K):
            toks[len(prefix) + i].excluded = not_expr
        toks[len(prefix)].fixed = first
        r = SW.run_tail(dialect, L, P, toks)
        st[r.outcome] += 1
        w = 1
        for t in toks:
            w *= t.domain_size()
        st['covered'] += w
        if r.outcome == 'internal':
            findings.append({'kind': 'internal-error', 'types': [str(t.type) for t in toks], 'exc': repr(r.exc)[:100]})
            return
        if r.outcome != 'accept':
            return
        types = [t.fixed for t in toks[len(prefix):len(prefix) + K]]
        try:
            node = extract(r.ast)
        except Exception:  # noqa
            node = None
        if node is None:
            st['other-structure'] += 1
            return
        try:
            want = normalise(Reader(types).parse())
        except Skip:
            st['skip-chained-comparison'] += 1
            return
        except Reject:
            st['outside-reference-grammar'] += 1
            return
        got = normalise(shape_of_ast(node))
        if got != want:
            st['MISMATCH'] += 1
            findings.append({'kind': 'grouping', 'dialect': dialect, 'context': ctx, 'expr_types': types, 'spelling': spelling,
                             'all_types': [t.fixed for t in toks], 'parsed': repr(got), 'reference': repr(want)})
        else:
            st['match'] += 1
            if len(samples) < 2 and K >= 4:
                samples.append({'dialect': dialect, 'context': ctx, 'expr': types, 'shape': repr(got)})

    for first in firsts:
        ex.explore(run_one)
    out = dict(st)
    out.update(paths=ex.paths, solver_calls=ex.solver_calls, solver_s=ex.solver_s, findings=findings[:50], samples=samples, nfindings=len(findings))
    return out


def sweep(dialect, ctx, K, jobs=None, alpha=None, spelling=None):
    from engines import sweep as SW
    L, P = SW.dialect_classes(dialect)
    terms = set(P._grammar.Terminals)
    alpha_ = [t for t in (alpha or EXPR_ALPHA) if t in terms]
    jobs = jobs or os.cpu_count()
    shards = [[a] for a in alpha_]
    with mp.get_context('fork').Pool(min(jobs, len(shards))) as pool:
        res = pool.map(worker, [(dialect, ctx, K, s, alpha, spelling) for s in shards])
    tot = collections.Counter()
    findings, samples = [], []
    for r in res:
        for k, v in r.items():
            if k == 'findings':
                findings.extend(v)
            elif k == 'samples':
                samples.extend(v)
            elif isinstance(v, (int, float)) and not isinstance(v, bool):
                tot[k] += v
    return dict(tot), findings, samples


# ---- LRZ3: every state, every complete binary/unary operator production, every operator lookahead ---------------

REF_LEVEL = {   # the property's table, tightest = highest
    'OR': 1, 'AND': 2, 'NOT': 3,
    'EQUALS': 4, 'NEQUALS': 4, 'LESS': 4, 'LEQ': 4, 'GREATER': 4, 'GEQ': 4, 'IN': 4, 'NOT_IN': 4, 'LIKE': 4, 'NOT_LIKE': 4,
    'IS': 4, 'IS_NOT': 4, 'BETWEEN': 4,
    'PLUS': 5, 'MINUS': 5, 'STAR': 6, 'DIVIDE': 6, 'MODULO': 6, 'UMINUS': 7,
}


def table_query(P):
    """z3: exists state s, complete operator production p in s, operator lookahead t such that the table's action differs
    from the reference decision?  Returns (verdict, witnesses, stats)."""
    import z3
    lt = P._lrtable
    action = getattr(lt, '_symtok_orig', lt.lr_action)
    g = P._grammar
    prods = {p.number: p for p in g.Productions}
    terms = set(g.Terminals)
    item_re = re.compile(r'^\s+\((\d+)\) (.*) \.$', re.M)
    ops = [t for t in REF_LEVEL if t in terms and t != 'UMINUS' and t != 'NOT']
    S, Pn, T, A, LV1, LV2 = z3.Ints('state prod lookahead action level1 level2')
    complete, op_of, rr_states = [], {}, []
    for s, desc in lt.state_descriptions.items():
        n_complete = len(item_re.findall(desc))
        for m in item_re.finditer(desc):
            n = int(m.group(1))
            p = prods[n]
            rhs = [str(x) for x in p.prod]
            if p.name != 'expr':
                continue
            if len(rhs) == 3 and rhs[0] == 'expr' and rhs[2] == 'expr' and rhs[1] in REF_LEVEL and rhs[1] != 'NOT':
                op_of[n] = rhs[1]
            elif rhs == ['MINUS', 'expr']:
                op_of[n] = 'UMINUS'
            elif rhs == ['NOT', 'expr']:
                op_of[n] = 'NOT'
            else:
                continue
            if n_complete > 1:
                # another production is complete in the same state (reduce/reduce, e.g. BETWEEN ... AND ...): the table
                # entry is not a shift/reduce precedence decision; covered by the SYMTOK exploration only
                rr_states.append(s)
                continue
            complete.append((s, n))
    tcode = {t: i for i, t in enumerate(sorted(terms | {'$end'}))}
    comp_rel = z3.Or([z3.And(S == s, Pn == n) for s, n in complete]) if complete else z3.BoolVal(False)
    lvl1 = z3.Or([z3.And(Pn == n, LV1 == REF_LEVEL[o]) for n, o in op_of.items()])
    lvl2 = z3.Or([z3.And(T == tcode[t], LV2 == REF_LEVEL[t]) for t in ops])
    # action relation restricted to the states that matter; "no entry" is encoded as action == 0
    states = sorted(set(s for s, n in complete))
    ent = []
    for s in states:
        row = action[s]
        for t in ops:
            ent.append(z3.And(S == s, T == tcode[t], A == (row[t] if t in row else 0)))
    act_rel = z3.Or(ent)
    # reference decision: reduce by p when level(op1) >= level(op2) (left associative on ties), shift otherwise;
    # a comparison directly followed by a comparison is outside the property
    both_cmp = z3.And(LV1 == 4, LV2 == 4)
    want_reduce = LV1 >= LV2
    wrong = z3.Or(z3.And(want_reduce, A != -Pn), z3.And(z3.Not(want_reduce), A <= 0))
    solver = z3.Solver()
    solver.add(comp_rel, lvl1, lvl2, act_rel, z3.Not(both_cmp), wrong)
    witnesses, queries, t0 = [], 0, time.time()
    while True:
        queries += 1
        r = str(solver.check())
        if r != 'sat':
            break
        m = solver.model()
        w = {'state': m[S].as_long(), 'production': str(prods[m[Pn].as_long()]), 'lookahead': sorted(tcode, key=tcode.get)[m[T].as_long()],
             'action': m[A].as_long()}
        witnesses.append(w)
        solver.add(z3.Not(z3.And(Pn == m[Pn], T == m[T])))
        if len(witnesses) >= 30:
            break
    return r, witnesses, {'states': len(states), 'complete_items': len(complete), 'operator_lookaheads': len(ops),
                           'queries': queries, 'solver_s': time.time() - t0, 'states_with_competing_reductions': sorted(set(rr_states))}
