"""Independent precedence-climbing reader of an expression token-type sequence, implementing the property's table:
tightest first: unary minus; * / %; + -; comparisons and predicates (IN, BETWEEN, LIKE, IS [NOT]); NOT; AND; OR;
chains of * / %, of + -, of AND and of OR associate to the left; parentheses kept.
Result: nested tuples; ('paren', x) marks user-written parentheses.  Raises Skip when a comparison is a direct
un-parenthesised operand of another comparison (outside the property), Reject when the sequence is not an expression
of this reference grammar."""

CMP = {'EQUALS': '=', 'NEQUALS': '!=', 'LESS': '<', 'LEQ': '<=', 'GREATER': '>', 'GEQ': '>='}
PRED = {'IN', 'NOT_IN', 'LIKE', 'NOT_LIKE', 'IS', 'IS_NOT', 'BETWEEN'}
MUL = {'STAR': '*', 'DIVIDE': '/', 'MODULO': '%'}
ADD = {'PLUS': '+', 'MINUS': '-'}
LEAVES = {'ID', 'INTEGER', 'NULL'}


class Skip(Exception):
    pass


class Reject(Exception):
    pass


class Reader:
    def __init__(self, toks):
        self.t, self.i = list(toks), 0

    def peek(self):
        return self.t[self.i] if self.i < len(self.t) else None

    def take(self, kind=None):
        tok = self.peek()
        if tok is None or (kind is not None and tok != kind):
            raise Reject('expected %s at %d' % (kind, self.i))
        self.i += 1
        return tok

    def parse(self):
        e = self.p_or()
        if self.peek() is not None:
            raise Reject('trailing %s' % self.peek())
        return e

    def p_or(self):
        e = self.p_and()
        while self.peek() == 'OR':
            self.take()
            e = ('or', e, self.p_and())
        return e

    def p_and(self):
        e = self.p_not()
        while self.peek() == 'AND':
            self.take()
            e = ('and', e, self.p_not())
        return e

    def p_not(self):
        if self.peek() == 'NOT':
            self.take()
            return ('not', self.p_not())
        return self.p_cmp()

    def p_cmp(self):
        e = self.p_add()
        tok = self.peek()
        if tok == 'NOT' and self.i + 1 < len(self.t) and self.t[self.i + 1] in ('IN', 'LIKE'):
            # dialects whose lexer has no NOT_IN / NOT_LIKE token write the negated predicate with two tokens
            self.take()
            tok = 'NOT_' + self.peek()
            self.t[self.i] = tok
        if tok in CMP:
            self.take()
            e = (CMP[tok], e, self.p_add())
        elif tok in ('IN', 'NOT_IN', 'LIKE', 'NOT_LIKE', 'IS', 'IS_NOT'):
            self.take()
            e = (tok.lower().replace('_', ' '), e, self.p_add())
        elif tok == 'BETWEEN':
            self.take()
            lo = self.p_add()
            self.take('AND')
            e = ('between', e, lo, self.p_add())
        else:
            return e
        if self.peek() in CMP or self.peek() in PRED:
            raise Skip('chained comparison')
        return e

    def p_add(self):
        e = self.p_mul()
        while self.peek() in ADD:
            op = ADD[self.take()]
            e = (op, e, self.p_mul())
        return e

    def p_mul(self):
        e = self.p_unary()
        while self.peek() in MUL:
            op = MUL[self.take()]
            e = (op, e, self.p_unary())
        return e

    def p_unary(self):
        if self.peek() == 'MINUS':
            self.take()
            return ('neg', self.p_unary())
        return self.p_primary()

    def p_primary(self):
        tok = self.peek()
        if tok in LEAVES:
            self.take()
            return 'leaf'
        if tok == 'LPAREN':
            self.take()
            e = self.p_or()
            if self.peek() == 'COMMA':
                items = [e]
                while self.peek() == 'COMMA':
                    self.take()
                    items.append(self.p_or())
                self.take('RPAREN')
                return ('tuple',) + tuple(items)
            self.take('RPAREN')
            return ('paren', e)
        raise Reject('unexpected %s at %d' % (tok, self.i))


def shape_of_ast(node):
    """the real tree as the same kind of nested tuple"""
    from mindsdb_sql.parser import ast as A
    def wrap(n, s):
        return ('paren', s) if getattr(n, 'parentheses', False) else s
    if isinstance(node, A.BetweenOperation):
        return wrap(node, ('between',) + tuple(shape_of_ast(a) for a in node.args))
    if isinstance(node, A.BinaryOperation):
        op = node.op.lower()
        op = {'<>': '!='}.get(op, op)
        return wrap(node, (op,) + tuple(shape_of_ast(a) for a in node.args))
    if isinstance(node, A.UnaryOperation):
        op = node.op.lower()
        return wrap(node, ('neg' if op == '-' else op, shape_of_ast(node.args[0])))
    if isinstance(node, A.Tuple):
        return wrap(node, ('tuple',) + tuple(shape_of_ast(a) for a in node.items))
    if isinstance(node, A.NullConstant):
        return wrap(node, 'leaf')
    if isinstance(node, A.Constant):
        if isinstance(node.value, (int, float)) and not isinstance(node.value, bool) and node.value < 0:
            return wrap(node, ('neg', 'leaf'))     # MINUS constant is folded by the parser
        return wrap(node, 'leaf')
    if isinstance(node, A.Identifier):
        return wrap(node, 'leaf')
    return ('?', type(node).__name__)


def normalise(shape):
    """semantics-preserving normal form shared by both sides: -(-leaf) == leaf (the parser folds MINUS constant);
    ((x)) carries a single parentheses flag"""
    if isinstance(shape, tuple):
        shape = tuple(normalise(x) if isinstance(x, tuple) else x for x in shape)
        if shape[0] == 'neg' and isinstance(shape[1], tuple) and shape[1][0] == 'neg' and shape[1][1] == 'leaf':
            return 'leaf'
        if shape[0] == 'paren' and isinstance(shape[1], tuple) and shape[1][0] == 'paren':
            return shape[1]
    return shape
