"""Independent reference readers, written from the lexers' documented rules (not from their code).

mindsdb dialect string literals: delimiters ' or "; inside, a back-slash forms a pair with the next
character; the pair \\' denotes ' and \\" denotes "; every other pair denotes itself (both characters);
in a single-quoted literal a doubled quote '' denotes one quote.  The literal ends at the first
unpaired, undoubled delimiter.  (tests/test_parser/test_base_sql/test_base_sql.py::test_escaping pins
that \\n stays back-slash + n.)
sqlite / mysql dialects: delimiter, any characters except the delimiter, delimiter; no escapes.
"""


def read_quoted_mindsdb(lexeme, q):
    """Return the denoted value if `lexeme` is exactly one complete literal delimited by q, else None."""
    n = len(lexeme)
    if n < 2 or lexeme[0] != q:
        return None
    out = []
    i = 1
    while i < n:
        c = lexeme[i]
        if c == '\\' and i + 1 < n:
            d = lexeme[i + 1]
            if d == "'" or d == '"':
                out.append(d)
            else:
                out.append(c)
                out.append(d)
            i += 2
        elif c == q:
            if q == "'" and i + 1 < n and lexeme[i + 1] == "'":
                out.append("'")
                i += 2
            else:
                # closing delimiter: must be the last character
                if i == n - 1:
                    return ''.join(out)
                return None
        else:
            out.append(c)
            i += 1
    return None


def read_quoted_plain(lexeme, q):
    n = len(lexeme)
    if n < 2 or lexeme[0] != q or lexeme[n - 1] != q:
        return None
    body = lexeme[1:n - 1]
    if q in body:
        return None
    return body


def printable_string_value(v):
    """Values the library's escaping scheme can express at all: no maximal back-slash run of odd length
    immediately before a quote character or at the end of the value (such a back-slash would pair with
    the following quote / closing delimiter).  Everything else is the known-finding class."""
    n = len(v)
    i = 0
    while i < n:
        if v[i] == '\\':
            j = i
            while j < n and v[j] == '\\':
                j += 1
            if (j - i) % 2 == 1 and (j == n or v[j] == "'" or v[j] == '"'):
                return False
            i = j
        else:
            i += 1
    return True


def read_backquoted(lexeme):
    n = len(lexeme)
    if n < 3 or lexeme[0] != '`' or lexeme[n - 1] != '`' or '`' in lexeme[1:n - 1]:
        return None
    return lexeme[1:n - 1]


def split_path(path):
    """Identifier path text -> parts: split only at dots outside back-quotes; back-quotes removed once;
    case kept.  Returns None if not well formed (unbalanced back-quote, empty part)."""
    parts, cur, i, n = [], None, 0, len(path)
    while i < n:
        c = path[i]
        if c == '`':
            j = path.find('`', i + 1)
            if j < 0 or j == i + 1 or cur is not None:
                return None
            cur = path[i + 1:j]
            i = j + 1
            if i < n and path[i] != '.':
                return None
        elif c == '.':
            if cur is None:
                return None
            parts.append(cur)
            cur = None
            i += 1
        else:
            j = i
            while j < n and path[j] not in '.`':
                j += 1
            if cur is not None:
                return None
            cur = path[i:j]
            i = j
            if i < n and path[i] == '`':
                return None
    if cur is None:
        return None
    parts.append(cur)
    return parts


def read_sql_standard(lit):
    """standard SQL string literal (postgres, sqlite, mssql, oracle): '...' with '' for one quote; returns the value
    if `lit` is exactly one complete literal, else None"""
    n = len(lit)
    if n < 2 or lit[0] != "'":
        return None
    out, i = [], 1
    while i < n:
        c = lit[i]
        if c == "'":
            if i + 1 < n and lit[i + 1] == "'":
                out.append("'")
                i += 2
            else:
                return ''.join(out) if i == n - 1 else None
        else:
            out.append(c)
            i += 1
    return None


_MYSQL_ESC = {'0': '\0', 'b': '\b', 'n': '\n', 'r': '\r', 't': '\t', 'Z': '\x1a'}


def read_sql_mysql(lit):
    """MySQL string literal (default sql_mode): '' is one quote; back-slash escapes: \\0 \\b \\n \\r \\t \\Z, \\% and \\_ keep
    the back-slash, any other \\x is x"""
    n = len(lit)
    if n < 2 or lit[0] != "'":
        return None
    out, i = [], 1
    while i < n:
        c = lit[i]
        if c == '\\':
            if i + 1 >= n:
                return None
            d = lit[i + 1]
            if d in _MYSQL_ESC:
                out.append(_MYSQL_ESC[d])
            elif d == '%' or d == '_':
                out.append('\\')
                out.append(d)
            else:
                out.append(d)
            i += 2
        elif c == "'":
            if i + 1 < n and lit[i + 1] == "'":
                out.append("'")
                i += 2
            else:
                return ''.join(out) if i == n - 1 else None
        else:
            out.append(c)
            i += 1
    return None
